"""C13 (structural part) - SQLite schema statements are accepted by a recogniser of SQLite's DDL grammar, recover exactly the declared elements, and every
abstract column type is written with a type name that carries the intended storage affinity (SQLite's documented five-rule algorithm).
Executing on a real SQLite engine and reading its catalogue back is outside solver-based checking and is NOT claimed."""
from props import c14

def run(ctx):
    c14.run(ctx, dialects=['sqlite'], families=('column', 'table', 'alter', 'index'), deep=True)   # one dialect only: the thorough bounds fit the quick budget (about 15 s)
    ctx.bounds['affinity'] = 'every SQLite-supported ColumnType variant with symbolic lengths / precisions: affinity(type name) = intended affinity; AUTOINCREMENT requires INTEGER'
    ctx.assumptions.append('NOT decided here: that a running SQLite engine accepts the statements and that its catalogue reports the declared objects')

def replay(ctx, data):
    return c14.replay(ctx, data)
