"""C11 - custom SQL templates with values, and inject_parameters, replace exactly the placeholders.

Exec (MIR of the current tree): the CustomWithExpr arm of prepare_simple_expr_common, Tokenizer, Token Display, SqlWriterValues / inline writer,
str::parse::<usize>, inject_parameters.
Sym: template of L arbitrary Unicode scalar values, k distinct symbolic Int values.
Oracle: reference substitution written from the property's statement with an independent quoted-text scanner."""
import z3
from interp import Cell, Ref, Str, Adt, VecV, Budget, Unsupported, PathEnd, is_sym
from models import as_str, ch_eq, zor, ALPHA
from props.common import *
from props.sq import SQ, to_json, Sym, value_json, PLACEHOLDER
from props import sqstmt
from props.c16 import facts, FACTS

ENG = None
K = 2
def V(t, v): return {'t': t, 'v': v}

def is_(e, c, k): return e.branch(ch_eq(c, k))
def is_digit(e, c):
    if type(c) is tuple: return False
    return e.branch(z3.And(z3.UGE(c, 0x30), z3.ULE(c, 0x39))) if is_sym(c) else 0x30 <= c <= 0x39
def is_alnum(e, c):
    if type(c) is tuple: return False
    if not is_sym(c): c = z3.BitVecVal(c, 32)
    asc = z3.Or(z3.And(z3.UGE(c, 0x61), z3.ULE(c, 0x7a)), z3.And(z3.UGE(c, 0x41), z3.ULE(c, 0x5a)), z3.And(z3.UGE(c, 0x30), z3.ULE(c, 0x39)))
    return e.branch(z3.Or(asc, z3.And(z3.UGT(c, 0x7f), ALPHA(c))))
def elem_eq(a, b):
    """equality of output elements; an opaque value token never equals a plain character"""
    if (type(a) is tuple) != (type(b) is tuple): return False
    return ch_eq(a, b)
def is_wordchar(e, c):
    if type(c) is tuple: return False
    if not is_sym(c): c = z3.BitVecVal(c, 32)
    asc = z3.Or(z3.And(z3.UGE(c, 0x61), z3.ULE(c, 0x7a)), z3.And(z3.UGE(c, 0x41), z3.ULE(c, 0x5a)), z3.And(z3.UGE(c, 0x30), z3.ULE(c, 0x39)), c == 0x5f, c == 0x24)
    return e.branch(z3.Or(asc, z3.And(z3.UGT(c, 0x7f), ALPHA(c))))

def reference(e, cs, backend, valtok):
    """expected output (list of elements) of substituting `valtok` into template `cs`; raises PathEnd when a documented precondition is violated"""
    n = len(cs); i = 0; out = []; count = 0
    mark, numbered = PLACEHOLDER[backend]; mark = ord(mark)
    while i < n:
        c = cs[i]
        close = None
        for op, cl in ((0x60, 0x60), (0x5b, 0x5d), (0x27, 0x27), (0x22, 0x22)):
            if is_(e, c, op): close = cl; break
        if close is not None:
            j = i + 1
            while j < n:
                if is_(e, cs[j], 0x5c): j += 2; continue
                if is_(e, cs[j], close):
                    if close != 0x5d and j + 1 < n and is_(e, cs[j+1], close): j += 2; continue
                    j += 1; break
                j += 1
            j = min(j, n)
            out.extend(cs[i:j]); i = j; continue
        if is_alnum(e, c):
            # a word: letters and digits, continued by `_` and `$` (identifier characters) - copied verbatim
            j = i + 1
            while j < n and is_wordchar(e, cs[j]): j += 1
            out.extend(cs[i:j]); i = j; continue
        if is_(e, c, mark):
            if i + 1 < n and is_(e, cs[i+1], mark): out.append(mark); i += 2; continue
            if numbered and i > 0 and is_(e, cs[i-1], 0x5f): raise PathEnd()          # `_$..` : ambiguous, excluded
            if numbered:
                j = i + 1; digits = []
                while j < n and is_digit(e, cs[j]): digits.append(cs[j]); j += 1
                if not digits:
                    out.append(c); i += 1; continue            # a lone mark is not a placeholder
                if j < n and is_wordchar(e, cs[j]): raise PathEnd()    # precondition: `$<digits><word char>` is ambiguous, excluded
                num = None
                for d in digits:
                    dv = (d if is_sym(d) else z3.BitVecVal(d, 32)) - 0x30
                    num = dv if num is None else num * 10 + dv
                hit = None
                for v in range(1, len(valtok) + 1):
                    if e.branch(num == v): hit = v; break
                if hit is None: raise PathEnd()                # precondition: $n designates an existing value
                out.append(valtok[hit - 1]); i = j; continue
            if count >= len(valtok): raise PathEnd()           # precondition: enough values for the positional marks
            out.append(valtok[count]); count += 1; i += 1; continue
        out.append(c); i += 1
    return out

def entry_for(item, cs, vc, sampler, out, check=True, vals=None):
    backend, mode, L = item[:3]
    nv = item[3] if len(item) > 3 else K
    def entry(e):
        for c in vc: e.add(c)
        sq = SQ(e)
        vs = vals if vals is not None else [z3.BitVec('v%d' % i, 32) for i in range(nv)]
        if mode == 'inline': valtok = [('Dec', v, 'i32') if is_sym(v) else v for v in vs]
        else: valtok = [('PARAM', i) for i in range(len(vs))]
        exp = reference(e, cs, backend, valtok) if check else None
        tree = ['custv', Sym(cs), [V('Int', v) for v in vs]]
        ex = sq.expr(tree)
        if mode == 'inject':
            sql, values = sq.render_expr(backend, ex, 'params')
            r = e.call('inject_parameters::<Vec<value::Value>>', [Ref(Cell(Str(sql))), VecV([Cell(v) for v in values]), Ref(Cell(Adt(BACKENDS[backend], None, [])))])
            got = list(as_str(r).chars); got_vals = None
            if check:
                valtok = [('Dec', v, 'i32') if is_sym(v) else v for v in vs]
                exp = [valtok[t[1]] if type(t) is tuple and t[0] == 'PARAM' else t for t in exp]
        elif mode == 'inline':
            got, got_vals = sq.render_expr(backend, ex, 'inline'); got = list(got)
        else:
            sql, values = sq.render_expr(backend, ex, 'params')
            got = list(sql); got_vals = values
        if not check:
            out.append({'item': item, 'template': list(cs), 'sql': got, 'values': None if got_vals is None else [value_json(v) for v in got_vals]}); return
        info = {}
        if mode == 'params':
            # expected text: placeholders in order of appearance, values = the designated ones in that order
            order = [t[1] for t in exp if type(t) is tuple and t[0] == 'PARAM']
            mark, numbered = PLACEHOLDER[backend]
            exp2 = []; n = 0
            for t in exp:
                if type(t) is tuple and t[0] == 'PARAM':
                    n += 1; exp2.extend([ord(mark)] + ([ord(ch) for ch in str(n)] if numbered else []))
                else: exp2.append(t)
            exp = exp2
            e.check(len(got_vals) == len(order), 'bound %d values, the template designates %d' % (len(got_vals), len(order)), info)
            for gv, oi in zip(got_vals, order):
                p = gv.fields[0].v.fields[0].v
                e.check(p == vs[oi] if (is_sym(p) or is_sym(vs[oi])) else p == vs[oi], 'a placeholder is bound to a different value than the one it designates', info)
        e.check(len(got) == len(exp), 'output has %d elements, expected %d: %s' % (len(got), len(exp), text_tok(got)), info)
        for i, (a, b) in enumerate(zip(got, exp)):
            e.check(elem_eq(a, b), 'output differs from the reference substitution at element %d' % i, info)
        if sampler.want():
            m = e.model()
            if m is not None:
                out.append({'item': item, 'template': conc(m, cs), 'vals': [model_int(m, v) for v in vs], 'sql': render_conc(m, got),
                            'values': None if got_vals is None else [value_json(v, m) for v in got_vals]})
    return entry

def text_tok(xs): return ''.join(chr(x) if isinstance(x, int) and 32 <= x < 127 else '<.>' for x in xs)

def render_conc(m, chars):
    out = []
    for c in chars:
        if isinstance(c, tuple) and c[0] == 'Dec':
            v = model_int(m, c[1]) if is_sym(c[1]) else c[1]
            if v >= 2**31: v -= 2**32
            out.extend(ord(ch) for ch in str(v))
        elif isinstance(c, int): out.append(c)
        else: out.append(model_int(m, c))
    return out

def signed32(v): return v - 2**32 if v >= 2**31 else v

def native_req(item, tmpl, vals):
    backend, mode, L = item[:3]
    ex = ['custv', {'cps': tmpl}, [V('Int', signed32(v)) for v in vals]]
    if mode == 'inject': return {'op': 'inject_expr', 'backend': backend, 'expr': ex}
    return {'op': 'render_expr', 'backend': backend, 'mode': 'inline' if mode == 'inline' else 'params', 'expr': ex}

class ConcE:
    def branch(self, c): return bool(c) if not is_sym(c) else z3.is_true(z3.simplify(c))

def native_verdict(item, tmpl, vals, r):
    """property on the native output, with the reference run concretely"""
    backend, mode, L = item[:3]
    try:
        if mode == 'params': exp = reference(ConcE(), tmpl, backend, [('PARAM', i) for i in range(len(vals))])
        else: exp = reference(ConcE(), tmpl, backend, [('VAL', i) for i in range(len(vals))])
    except PathEnd:
        return None          # outside the documented precondition
    if r.get('panic') is not None: return 'panic: ' + r['panic']
    mark, numbered = PLACEHOLDER[backend]
    want = []; order = []; n = 0
    for t in exp:
        if type(t) is tuple:
            order.append(t[1]); n += 1
            if mode == 'params': want.extend([ord(mark)] + ([ord(ch) for ch in str(n)] if numbered else []))
            else: want.extend(ord(ch) for ch in str(signed32(vals[t[1]])))
        else: want.append(t)
    if r.get('sql') != want: return 'output %r differs from the reference substitution %r' % (text(r.get('sql') or []), text(want))
    if mode == 'params':
        gv = [v['v'] for v in r['values']]
        if gv != [signed32(vals[i]) for i in order]: return 'bound values %r, designated %r' % (gv, [signed32(vals[i]) for i in order])
    return None

def prefer(cs):
    return [z3.Or(z3.ULT(c, 0x80), *[c == z3.BitVecVal(f[0], 32) for f in FACTS]) for c in cs]

def work(w):
    item, prefix, seed = w
    eng = ENG; reset_stats(eng); eng.solver = z3.Solver()
    cs, vc = sym_chars(item[2], 't')
    eng.prefer = prefer(cs)
    samples = []; sampler = Sampler(seed, first=2, every=150)
    viol = eng.run_all(entry_for(item, cs, vc + facts(), sampler, samples), prefix=prefix)
    vs = []
    for k, msg, m, info in viol:
        vs.append({'kind': k, 'msg': msg, 'item': item, 'template': conc(m, cs) if m is not None else None,
                   'vals': [model_int(m, z3.BitVec('v%d' % i, 32)) for i in range(item[3] if len(item) > 3 else K)] if m is not None else None})
    return {'stats': eng.stats, 'executed': eng.executed, 'models_used': eng.models_used, 'violations': vs, 'samples': samples, 'item': list(item)}

def classify(item, tmpl):
    backend = item[0]
    class E(ConcE): pass
    # roles of the recorded findings
    if backend == 'postgres' and not (item[1] == 'inject' and '$$' in ''.join(chr(c) for c in tmpl)):
        # a `$` outside quotes that is not followed by a number
        try:
            ref = reference(ConcE(), tmpl, backend, [('VAL', i) for i in range(K)])
        except PathEnd: ref = []
        if any(t == 0x24 for t in ref): return 'pg-dollar-not-number'
    if item[1] == 'inject':
        s = ''.join(chr(c) for c in tmpl)
        if ('$$' if backend == 'postgres' else '??') in s: return 'inject-doubled-mark'
    return 'other'

def run(ctx):
    global ENG
    quick = ctx.tier == 'quick'
    ENG = eng = ctx.engine()
    nat = ctx.nat()
    maxL = 4 if quick else 5
    items = []
    for b in BACKENDS:
        for mode in ('inline', 'params', 'inject'):
            for L in range(0, maxL + 1):
                if mode == 'inject' and L > maxL - 1: continue
                if quick and L == maxL and (b, mode) not in (('mysql', 'params'), ('postgres', 'params'), ('postgres', 'inline')): continue
                items.append((b, mode, L))
    # the same template API with an empty value list: only doubled marks and quoted text may hold a mark (everything else would designate a missing value)
    for b in BACKENDS:
        for mode in ('inline', 'params'):
            for L in range(0, 4): items.append((b, mode, L, 0))
    ctx.bounds = {'template': 'L <= %d arbitrary Unicode scalar values (L <= %d for inject_parameters; quick tier: L = %d only for mysql/params, postgres/params, postgres/inline)' % (maxL, maxL - 1, maxL), 'values': '%d distinct symbolic Int values' % K,
                  'modes': ['inline (to_string)', 'params (build)', 'inject_parameters(build) == inline'], 'backends': list(BACKENDS)}
    ctx.assumptions += ['documented precondition: every placeholder designates an existing value ($n with 1 <= n <= k; at most k positional marks)',
                        'templates containing `$<digits><word character>` are excluded as ambiguous', 'alphabetic-ness beyond ASCII is an uninterpreted predicate',
                        'values are Value::Int (their literal spelling is C03/C02 territory)']
    corpus = ["", "a = ?", "? + ?", "a ?? b = ?", "$1 $$ $2", "$2 $1", "'?' = ?", "\"$1\" = $1", "a[?] ?", "`?`?", "x ? 'it''s ?' ?", "é ? 表", "$1,$2"]
    for b in BACKENDS:
        for s in corpus:
            for mode in ('inline', 'params', 'inject'):
                cps = [ord(c) for c in s]; item = (b, mode, len(cps)); out = []
                v = eng.run_all(entry_for(item, cps, facts(), Sampler(0), out, check=False, vals=[11, 22]))
                r = nat.ask(native_req(item, cps, [11, 22]))
                if (out and out[0]['sql'] == r.get('sql') and (mode != 'params' or out[0]['values'] == r.get('values'))) or (v and v[0][0] == 'panic' and 'panic' in r): ctx.validated += 1
                else: ctx.inconclusive.append('translator validation: %r %r engine %r native %r %r' % (item, s, out and (text(out[0]['sql']), out[0]['values']), r, v[:1]))
    ctx.absorb(eng)
    work_items = []
    for it in items:
        if it[2] >= 4:
            cs, vc = sym_chars(it[2], 't')
            for p in eng.frontier(entry_for(it, cs, vc + facts(), Sampler(0, first=0, every=10**9), []), ctx.workers * (1 if it[2] < 6 else 4)): work_items.append((it, p, ctx.seed))
        else: work_items.append((it, [], ctx.seed))
    ctx.families = ['%s/%s L<=%d' % (b, m, maxL) for b in BACKENDS for m in ('inline', 'params', 'inject')]
    for res in ctx.pmap(work, work_items):
        if not merge_worker(ctx, res): continue
        for s in res['samples']:
            if any(c >= 0x80 and c not in [f[0] for f in FACTS] for c in s['template']): continue
            r = nat.ask(native_req(tuple(s['item']), s['template'], s['vals']))
            if r.get('sql') == s['sql'] and (s['values'] is None or s['values'] == r.get('values')):
                ctx.validated += 1
                if len(ctx.samples) < 12: ctx.samples.append({'backend': s['item'][0], 'mode': s['item'][1], 'template': text(s['template']), 'values': [signed32(v) for v in s['vals']], 'sql': text(s['sql'])})
            else: ctx.inconclusive.append('passing path does not agree with the native build: %r -> %r' % (s, r))
        for v in res['violations']:
            item = tuple(v['item'])
            if v['template'] is None: ctx.inconclusive.append('violation without model: %r' % (v,)); continue
            req = native_req(item, v['template'], v['vals'])
            r = nat.ask(req)
            why = native_verdict(item, v['template'], v['vals'], r)
            if why:
                key = '%s:%s:%s' % (item[0], item[1], classify(item, v['template']))
                ctx.violations.append({'key': key, 'msg': v['msg'] + ' / native: ' + why, 'template': v['template'], 'template_text': text(v['template']), 'vals': v['vals'],
                                       'native_dev': r, 'replay': req, 'item': list(item)})
            else:
                ctx.inconclusive.append('counterexample does not reproduce natively: %r -> %r' % (v, r))

def replay(ctx, data):
    r = ctx.nat().ask(data['replay'])
    why = native_verdict(tuple(data['item']), data['template'], data['vals'], r)
    print('native dev:', text(r.get('sql') or []), r.get('values'), r.get('panic'), '->', why)
    return 1 if why else 0
