"""C04 - identifiers are quoted so that the engine decodes exactly the supplied name.

Exec (MIR of the current tree): Iden::prepare / quoted / to_string, Alias::unquoted, prepare_column_ref, prepare_table_ref[_iden], prepare_select_expr,
and the statement renderers around every identifier position listed in POSITIONS.
Sym: the L characters of the identifier at one position.  Oracle: quoted-identifier lexers (back-tick / double quote with doubling)."""
import z3
from interp import Cell, Ref, Str, Adt, VecV, Budget, Unsupported, is_sym
from models import as_str, ch_eq
from props.common import *
from props.sq import SQ, to_json, Sym
from props import sqstmt, lexers
from props.lexers import LexFail

ENG = None
def V(t, v): return {'t': t, 'v': v}
ONE = ['val', V('Int', 1)]

def sel(*calls): return {'k': 'select', 'calls': list(calls)}

# position -> (statement kind, script as a function of the identifier X, backends)
POSITIONS = {
 'column':            lambda X: sel(['column', ['col', X]], ['from', ['t', 't']]),
 'tcol.table':        lambda X: sel(['column', ['tcol', X, 'c']], ['from', ['t', 't']]),
 'tcol.column':       lambda X: sel(['column', ['tcol', 't', X]], ['from', ['t', 't']]),
 'stcol.schema':      lambda X: sel(['column', ['stcol', X, 't', 'c']], ['from', ['t', 't']]),
 'table_asterisk':    lambda X: sel(['column', ['taster', X]], ['from', ['t', 't']]),
 'select_alias':      lambda X: sel(['expr_as', ['col', 'c'], X], ['from', ['t', 't']]),
 'from_table':        lambda X: sel(['column', ['col', 'c']], ['from', ['t', X]]),
 'from_schema':       lambda X: sel(['column', ['col', 'c']], ['from', ['st', X, 't']]),
 'from_schema_table': lambda X: sel(['column', ['col', 'c']], ['from', ['st', 's', X]]),
 'from_database':     lambda X: sel(['column', ['col', 'c']], ['from', ['dst', X, 's', 't']]),
 'table_alias':       lambda X: sel(['column', ['col', 'c']], ['from', ['ta', 't', X]]),
 'subquery_alias':    lambda X: sel(['column', ['col', 'c']], ['from_subquery', sel(['column', ['col', 'd']], ['from', ['t', 'u']]), X]),
 'join_table':        lambda X: sel(['column', ['col', 'c']], ['from', ['t', 't']], ['join', 'LeftJoin', ['t', X], ['all', False, [['bin', 'Equal', ['col', 'a'], ['col', 'b']]]]]),
 'join_on_column':    lambda X: sel(['column', ['col', 'c']], ['from', ['t', 't']], ['join', 'InnerJoin', ['t', 'u'], ['all', False, [['bin', 'Equal', ['tcol', 'u', X], ['col', 'b']]]]]),
 'where_column':      lambda X: sel(['column', ['col', 'c']], ['from', ['t', 't']], ['and_where', ['bin', 'Equal', ['col', X], ONE]]),
 'group_by':          lambda X: sel(['column', ['col', 'c']], ['from', ['t', 't']], ['group_by', ['col', X]]),
 'having_column':     lambda X: sel(['column', ['col', 'c']], ['from', ['t', 't']], ['group_by', ['col', 'c']], ['and_having', ['bin', 'GreaterThan', ['func', 'max', [['col', X]]], ONE]]),
 'order_by':          lambda X: sel(['column', ['col', 'c']], ['from', ['t', 't']], ['order_by', ['col', X], 'Desc']),
 'order_by_nulls':    lambda X: sel(['column', ['col', 'c']], ['from', ['t', 't']], ['order_by_nulls', ['col', X], 'Asc', 'Last']),
 'order_field_col':   lambda X: sel(['column', ['col', 'c']], ['from', ['t', 't']], ['order_field', ['col', X], [V('Int', 1), V('Int', 2)]]),
 'union_member':      lambda X: sel(['column', ['col', 'c']], ['from', ['t', 't']], ['union', 'All', sel(['column', ['col', X]], ['from', ['t', 'u']])]),
 'in_subquery':       lambda X: sel(['column', ['col', 'c']], ['from', ['t', 't']], ['and_where', ['m', 'in_subquery', ['col', 'a'], sel(['column', ['col', X]], ['from', ['t', 'u']])]]),
 'case_column':       lambda X: sel(['expr', ['case', [[['all', False, [['bin', 'Equal', ['col', X], ONE]]], ONE]], None]], ['from', ['t', 't']]),
 'enum_type_name':    lambda X: sel(['expr', ['asenum', X, ['val', V('String', 'a')]]]),
 'cast_as_enum':      lambda X: sel(['expr', ['m', 'as_enum', ['col', 'c'], X]], ['from', ['t', 't']]),
}
def ins(*calls): return {'k': 'insert', 'calls': list(calls)}
def upd(*calls): return {'k': 'update', 'calls': list(calls)}
def dele(*calls): return {'k': 'delete', 'calls': list(calls)}
def ddl(k, *calls): return {'k': k, 'calls': [list(c) for c in calls]}
def cdef(name, ty='Integer', *specs): return {'name': name, 'type': ty, 'specs': list(specs)}
WIN = lambda X: {'calls': [['partition_by', ['col', X]]]}
POSITIONS.update({
 # ---- data-changing statements, CTEs, windows
 'insert_table':      lambda X: ins(['into_table', ['t', X]], ['columns', ['a']], ['values_panic', [ONE]]),
 'insert_column':     lambda X: ins(['into_table', ['t', 't']], ['columns', ['a', X]], ['values_panic', [ONE, ONE]]),
 'insert_returning':  lambda X: ins(['into_table', ['t', 't']], ['columns', ['a']], ['values_panic', [ONE]], ['returning_col', ['col', X]]),
 'conflict_target':   lambda X: ins(['into_table', ['t', 't']], ['columns', ['a']], ['values_panic', [ONE]], ['on_conflict', {'target': ['cols', [X]], 'calls': [['update_column', 'a']]}]),
 'conflict_update':   lambda X: ins(['into_table', ['t', 't']], ['columns', ['a']], ['values_panic', [ONE]], ['on_conflict', {'target': ['cols', ['a']], 'calls': [['update_column', X]]}]),
 'conflict_value':    lambda X: ins(['into_table', ['t', 't']], ['columns', ['a']], ['values_panic', [ONE]], ['on_conflict', {'target': ['cols', ['a']], 'calls': [['value', X, ONE]]}]),
 'update_table':      lambda X: upd(['table', ['t', X]], ['value', 'a', ONE]),
 'update_set_column': lambda X: upd(['table', ['t', 't']], ['value', X, ONE]),
 'update_where':      lambda X: upd(['table', ['t', 't']], ['value', 'a', ONE], ['and_where', ['bin', 'Equal', ['tcol', 't', X], ONE]]),
 'delete_table':      lambda X: dele(['from_table', ['st', 's', X]]),
 'delete_order':      lambda X: dele(['from_table', ['t', 't']], ['order_by', ['col', X], 'Asc']),
 'cte_name':          lambda X: {'k': 'with', 'with': {'ctes': [{'name': X, 'cols': ['a'], 'query': sel(['column', ['col', 'c']], ['from', ['t', 't']])}]}, 'query': sel(['column', ['col', 'a']], ['from', ['t', 'u']])},
 'cte_column':        lambda X: {'k': 'with', 'with': {'ctes': [{'name': 'w', 'cols': ['a', X], 'query': sel(['column', ['col', 'c']], ['column', ['col', 'd']], ['from', ['t', 't']])}]}, 'query': sel(['column', ['col', 'a']], ['from', ['t', 'w']])},
 'window_partition':  lambda X: sel(['expr_window_as', ['func', 'sum', [['col', 'b']]], WIN(X), 'w'], ['from', ['t', 't']]),
 'window_alias':      lambda X: sel(['expr_window_as', ['func', 'sum', [['col', 'b']]], WIN('p'), X], ['from', ['t', 't']]),
 'window_name_ref':   lambda X: sel(['expr_window_name', ['func', 'sum', [['col', 'b']]], X], ['from', ['t', 't']]),
 'window_name_def':   lambda X: sel(['column', ['col', 'c']], ['from', ['t', 't']], ['window', X, WIN('p')]),
 # ---- schema statements
 'create_table':      lambda X: ddl('table_create', ['table', ['t', X]], ['col', cdef('id')]),
 'create_table_schema': lambda X: ddl('table_create', ['table', ['st', X, 't']], ['col', cdef('id')]),
 'create_column':     lambda X: ddl('table_create', ['table', ['t', 't']], ['col', cdef(X)]),
 'create_pk_name':    lambda X: ddl('table_create', ['table', ['t', 't']], ['col', cdef('id')], ['primary_key', ddl('index_create', ['name', X], ['col', 'id'])]),
 'create_pk_column':  lambda X: ddl('table_create', ['table', ['t', 't']], ['col', cdef('id')], ['primary_key', ddl('index_create', ['col', X])]),
 'create_unique_name': lambda X: ddl('table_create', ['table', ['t', 't']], ['col', cdef('id')], ['index', ddl('index_create', ['name', X], ['col', 'id'], ['unique'])]),
 'create_fk_name':    lambda X: ddl('table_create', ['table', ['t', 't']], ['col', cdef('id')], ['foreign_key', ddl('fk_create', ['name', X], ['from_tbl', ['t', 't']], ['from_col', 'id'], ['to_tbl', ['t', 'u']], ['to_col', 'id'])]),
 'create_fk_column':  lambda X: ddl('table_create', ['table', ['t', 't']], ['col', cdef('id')], ['foreign_key', ddl('fk_create', ['name', 'fk'], ['from_tbl', ['t', 't']], ['from_col', X], ['to_tbl', ['t', 'u']], ['to_col', 'id'])]),
 'create_fk_ref_table': lambda X: ddl('table_create', ['table', ['t', 't']], ['col', cdef('id')], ['foreign_key', ddl('fk_create', ['name', 'fk'], ['from_tbl', ['t', 't']], ['from_col', 'id'], ['to_tbl', ['t', X]], ['to_col', 'id'])]),
 'create_fk_ref_column': lambda X: ddl('table_create', ['table', ['t', 't']], ['col', cdef('id')], ['foreign_key', ddl('fk_create', ['name', 'fk'], ['from_tbl', ['t', 't']], ['from_col', 'id'], ['to_tbl', ['t', 'u']], ['to_col', X])]),
 'alter_table':       lambda X: ddl('table_alter', ['table', ['t', X]], ['add_column', cdef('c')]),
 'alter_add_column':  lambda X: ddl('table_alter', ['table', ['t', 't']], ['add_column', cdef(X)]),
 'alter_modify_column': lambda X: ddl('table_alter', ['table', ['t', 't']], ['modify_column', cdef(X, 'BigInteger', 'NotNull')]),
 'alter_rename_from': lambda X: ddl('table_alter', ['table', ['t', 't']], ['rename_column', X, 'b']),
 'alter_rename_to':   lambda X: ddl('table_alter', ['table', ['t', 't']], ['rename_column', 'a', X]),
 'alter_drop_column': lambda X: ddl('table_alter', ['table', ['t', 't']], ['drop_column', X]),
 'alter_add_fk_name': lambda X: ddl('table_alter', ['table', ['t', 't']], ['add_foreign_key', ddl('fk_create', ['name', X], ['from_tbl', ['t', 't']], ['from_col', 'a'], ['to_tbl', ['t', 'u']], ['to_col', 'id'])]),
 'alter_drop_fk':     lambda X: ddl('table_alter', ['table', ['t', 't']], ['drop_foreign_key', X]),
 'drop_table':        lambda X: ddl('table_drop', ['table', ['t', 'a']], ['table', ['t', X]]),
 'rename_table_from': lambda X: ddl('table_rename', ['table', ['t', X], ['t', 'n']]),
 'rename_table_to':   lambda X: ddl('table_rename', ['table', ['t', 'o'], ['t', X]]),
 'truncate_table':    lambda X: ddl('table_truncate', ['table', ['t', X]]),
 'index_name':        lambda X: ddl('index_create', ['name', X], ['table', ['t', 't']], ['col', 'c']),
 'index_table':       lambda X: ddl('index_create', ['name', 'i'], ['table', ['t', X]], ['col', 'c']),
 'index_column':      lambda X: ddl('index_create', ['name', 'i'], ['table', ['t', 't']], ['col', 'c'], ['col', X, 'Desc']),
 'index_include':     lambda X: ddl('index_create', ['name', 'i'], ['table', ['t', 't']], ['col', 'c'], ['include', X]),
 'index_drop_name':   lambda X: ddl('index_drop', ['name', X], ['table', ['t', 't']]),
 'index_drop_table':  lambda X: ddl('index_drop', ['name', 'i'], ['table', ['t', X]]),
 'fk_create_name':    lambda X: ddl('fk_create', ['name', X], ['from_tbl', ['t', 't']], ['from_col', 'a'], ['to_tbl', ['t', 'u']], ['to_col', 'id']),
 'fk_create_table':   lambda X: ddl('fk_create', ['name', 'fk'], ['from_tbl', ['t', X]], ['from_col', 'a'], ['to_tbl', ['t', 'u']], ['to_col', 'id']),
 'fk_drop_name':      lambda X: ddl('fk_drop', ['name', X], ['table', ['t', 't']]),
 'type_create_name':  lambda X: ddl('type_create', ['as_enum', X], ['values', ['a']]),
 'type_drop_name':    lambda X: ddl('type_drop', ['name', X]),
 'type_alter_name':   lambda X: ddl('type_alter', ['name', X], ['add_value', 'v']),
 'type_rename_to':    lambda X: ddl('type_alter', ['name', 'ty'], ['rename_to', X]),
 'enum_column_type':  lambda X: ddl('table_create', ['table', ['t', 't']], ['col', cdef('c', ['Enum', X, ['a']])]),
})
def arr(X):
    """the name X followed by [] (Postgres: array of the enum type); the suffix is not part of the identifier"""
    if isinstance(X, Sym): return Sym(list(X.chars) + [0x5b, 0x5d])
    if isinstance(X, dict): return {'cps': list(X['cps']) + [0x5b, 0x5d]}
    return X + '[]'
POSITIONS.update({
 'enum_array_type_name': lambda X: sel(['expr', ['asenum', arr(X), ['val', V('String', 'a')]]]),
 'cast_as_enum_array':   lambda X: sel(['expr', ['m', 'as_enum', ['col', 'c'], arr(X)]], ['from', ['t', 't']]),
})
PG_ONLY = {'enum_array_type_name', 'cast_as_enum_array', 'enum_type_name', 'cast_as_enum', 'index_include', 'type_create_name', 'type_drop_name', 'type_alter_name', 'type_rename_to', 'enum_column_type'}
# positions a dialect does not have (the builder panics or documents that it writes nothing there)
NOT_ON = {'sqlite': {'alter_modify_column', 'alter_add_fk_name', 'alter_drop_fk', 'fk_create_name', 'fk_create_table', 'fk_drop_name', 'delete_order', 'truncate_table', 'create_fk_name', 'index_drop_table'},
          'mysql': {'conflict_target', 'insert_returning'}, 'postgres': {'index_drop_table'}}
QUERY_KINDS = ('select', 'insert', 'update', 'delete', 'with')
def render_any(sq, st, backend):
    if st['k'] in QUERY_KINDS:
        txt, _ = sqstmt.render(sq, st['k'], sq.stmt(st), backend); return list(txt)
    from props import sqddl
    return list(sqddl.render(sq, st, backend))
MARK = 'MARKERX'

def entry_for(item, syms, vc, sampler, out, check=True):
    pos, backend, L = item
    def entry(e):
        for c in vc: e.add(c)
        sq = SQ(e)
        st = POSITIONS[pos](Sym(syms))
        txt = render_any(sq, st, backend)
        if not check:
            out.append({'item': item, 'input': list(syms), 'sql': txt}); return
        rs = POSITIONS[pos](MARK)
        ref = render_any(sq, rs, backend)
        q = lexers.IDQUOTE[backend]
        mt = [q] + [ord(c) for c in MARK] + [q]
        segs = split_on(ref, mt)
        info = {}
        if len(segs) < 2:
            e.check(False, 'the name is not written as a quoted identifier at all (%s)' % text(ref), info); return
        p = 0
        for si, seg in enumerate(segs):
            e.check(len(txt) - p >= len(seg), 'statement ends inside its fixed text (segment %d)' % si, info)
            for a, b in zip(txt[p:p+len(seg)], seg):
                e.check(ch_eq(a, b), 'fixed statement text around the identifier differs (segment %d): the identifier closed its own quotes or was not quoted' % si, info)
            p += len(seg)
            if si == len(segs) - 1: break
            try:
                end, dec = lexers.quoted_identifier(e, txt, p, q)
            except LexFail as ex:
                e.check(False, 'not a well-formed quoted identifier: %s' % ex, info)
            e.check(len(dec) == len(syms), 'decoded identifier has %d characters, the name has %d' % (len(dec), len(syms)), info)
            for i, (a, b) in enumerate(zip(dec, syms)): e.check(ch_eq(a, b), 'decoded identifier differs from the name at char %d' % i, info)
            p = end
        e.check(p == len(txt), 'text follows the end of the statement: %d extra characters' % (len(txt) - p), info)
        if sampler.want():
            m = e.model()
            if m is not None: out.append({'item': item, 'input': conc(m, syms), 'sql': conc(m, txt)})
    return entry

def split_on(hay, needle):
    out = []; i = 0; n = len(needle); start = 0
    while i <= len(hay) - n:
        if hay[i:i+n] == needle: out.append(hay[start:i]); i += n; start = i
        else: i += 1
    out.append(hay[start:])
    return out

def find_sub(hay, needle):
    n = len(needle)
    for i in range(len(hay) - n + 1):
        if hay[i:i+n] == needle: return i
    raise Unsupported('marker not found in %r' % (text(hay),))

def make_syms(item):
    syms, vc = sym_chars(item[2], 'i')
    vc = vc + [c != 0 for c in syms]
    if item[0] in ('enum_type_name', 'cast_as_enum', 'enum_array_type_name', 'cast_as_enum_array') and len(syms) >= 2:
        vc.append(z3.Not(z3.And(syms[-2] == 0x5b, syms[-1] == 0x5d)))      # a trailing [] designates an array of the type (documented)
    return syms, vc      # NUL cannot occur in an identifier of any of the three engines

def native_req(item, inp):
    st = POSITIONS[item[0]]({'cps': inp})
    if st['k'] not in QUERY_KINDS: return {'op': 'render_ddl', 'backend': item[1], 'stmt': to_json(st)}
    return {'op': 'render', 'backend': item[1], 'entry': 'to_string', 'stmt': to_json(st)}

def work(w):
    item, prefix, seed = w
    eng = ENG; reset_stats(eng); eng.solver = z3.Solver()
    syms, vc = make_syms(item)
    eng.prefer = [z3.ULT(c, 0x80) for c in syms]
    samples = []; sampler = Sampler(seed, first=2, every=40)
    viol = eng.run_all(entry_for(item, syms, vc, sampler, samples), prefix=prefix)
    vs = [{'kind': k, 'msg': msg, 'item': item, 'input': conc(m, syms) if m is not None else None} for k, msg, m, info in viol]
    return {'stats': eng.stats, 'executed': eng.executed, 'models_used': eng.models_used, 'violations': vs, 'samples': samples, 'item': list(item)}

class ConcE:
    def branch(self, c): return bool(c)

def native_verdict(nat, item, inp, r):
    pos, backend, L = item
    if r.get('panic') is not None: return 'panic: ' + r['panic']
    sql = r['sql']
    ref = nat.ask(native_req(item, [ord(c) for c in MARK]))['sql']
    q = lexers.IDQUOTE[backend]
    mt = [q] + [ord(c) for c in MARK] + [q]
    segs = split_on(ref, mt)
    if len(segs) < 2: return 'the name is not written as a quoted identifier at all'
    p = 0
    for si, seg in enumerate(segs):
        if sql[p:p+len(seg)] != seg: return 'fixed statement text around the identifier differs (it closes its own quotes or is not quoted)'
        p += len(seg)
        if si == len(segs) - 1: break
        try: end, dec = lexers.quoted_identifier(ConcE(), sql, p, q)
        except LexFail as ex: return 'not a well-formed quoted identifier: %s' % ex
        if dec != inp: return 'decoded %r, supplied %r' % (dec, inp)
        p = end
    if p != len(sql): return 'text follows the end of the statement'
    return None

def run(ctx):
    global ENG
    quick = ctx.tier == 'quick'
    ENG = eng = ctx.engine()
    nat = ctx.nat()
    maxL = 3 if quick else 5
    items = []
    for pos in POSITIONS:
        for b in BACKENDS:
            if (pos in PG_ONLY and b != 'postgres') or pos in NOT_ON.get(b, ()): continue
            for L in range(1, maxL + 1):
                if L > 3 and pos not in ('column', 'from_table', 'select_alias', 'enum_type_name', 'index_name', 'create_table', 'cte_name', 'fk_create_name'): continue
                items.append((pos, b, L))
    ctx.bounds = {'identifier': 'L <= %d arbitrary Unicode scalar values (non-NUL) at one position; in the thorough tier L <= 3 at every position and L <= 5 at column / from_table / select_alias / enum_type_name / index_name / create_table / cte_name / fk_create_name' % maxL,
                  'positions': sorted(POSITIONS), 'backends': list(BACKENDS)}
    ctx.assumptions += ['NUL excluded (no engine accepts it inside an identifier)', 'other identifiers of the statement are concrete ASCII names',
                        'reference lexer: back-tick (MySQL) / double-quote (PostgreSQL, SQLite) identifiers with doubling of the quote character']
    corpus = ['a', 'My Col', 'a`b', 'a"b', '``', '"', "it's", 'é表', 'a.b', 'x;--']
    for b in BACKENDS:
        for s in corpus:
            for pos in ('column', 'from_table', 'select_alias', 'join_table', 'order_by'):
                cps = [ord(c) for c in s]; item = (pos, b, len(cps)); out = []
                v = eng.run_all(entry_for(item, cps, [], Sampler(0), out, check=False))
                r = nat.ask(native_req(item, cps))
                if out and out[0]['sql'] == r.get('sql'): ctx.validated += 1
                else: ctx.inconclusive.append('translator validation: %r %r engine %r native %r %r' % (item, s, out and text(out[0]['sql']), r, v[:1]))
    ctx.absorb(eng)
    ctx.families = ['%s/%s' % (p, b) for p in POSITIONS for b in BACKENDS if not ((p in PG_ONLY and b != 'postgres') or p in NOT_ON.get(b, ()))]
    for res in ctx.pmap(work, [(it, [], ctx.seed) for it in items]):
        if not merge_worker(ctx, res): continue
        for s in res['samples']:
            r = nat.ask(native_req(tuple(s['item']), s['input']))
            if r.get('sql') == s['sql']:
                ctx.validated += 1
                if len(ctx.samples) < 12: ctx.samples.append({'position': s['item'][0], 'backend': s['item'][1], 'name': text(s['input']), 'sql': text(s['sql'])})
            else: ctx.inconclusive.append('passing path does not agree with the native build: %r -> %r' % (s, r))
        for v in res['violations']:
            item = tuple(v['item'])
            if v['input'] is None: ctx.inconclusive.append('violation without model: %r' % (v,)); continue
            req = native_req(item, v['input'])
            r = nat.ask(req)
            why = native_verdict(nat, item, v['input'], r)
            if why:
                ctx.violations.append({'key': '%s:%s' % (item[0], item[1]), 'msg': v['msg'] + ' / native: ' + why, 'input': v['input'], 'input_text': text(v['input']),
                                       'native_dev': r, 'native_sql': text(r.get('sql') or []), 'replay': req, 'item': list(item)})
            else:
                ctx.inconclusive.append('counterexample does not reproduce natively: %r -> %r' % (v, r))

def replay(ctx, data):
    nat = ctx.nat()
    r = nat.ask(data['replay'])
    why = native_verdict(nat, tuple(data['item']), data['input'], r)
    print('native dev:', text(r.get('sql') or []), r.get('panic'), '->', why)
    return 1 if why else 0
