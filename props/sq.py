"""Script trees -> sea-query values inside the MIR engine (builder API run from its MIR) and -> JSON for native replay.

A *script tree* is nested python lists/dicts (see replay/src/script.rs for the same grammar on the native side).
Payloads (numbers, characters) may be z3 terms on the engine side; `to_json(tree, model)` concretises them."""
import z3
from interp import Cell, Ref, Adt, Str, VecV, UNIT, SymEnum, is_sym, Unsupported
from models import as_str, some, none, mkstr, unref
from framework import model_int

BACKENDS = {'mysql': 'MysqlQueryBuilder', 'postgres': 'PostgresQueryBuilder', 'sqlite': 'SqliteQueryBuilder'}
INT_VARIANTS = {'TinyInt': 8, 'SmallInt': 16, 'Int': 32, 'BigInt': 64, 'TinyUnsigned': 8, 'SmallUnsigned': 16, 'Unsigned': 32, 'BigUnsigned': 64}

def chars_of(s):
    if isinstance(s, str): return [ord(c) for c in s]
    if isinstance(s, dict): return list(s['cps'])
    return list(s)

def jstr(s, m=None):
    """JSON form of a name/string: plain str when printable ASCII, else {"cps": [...]}"""
    cs = [model_int(m, c) if is_sym(c) else c for c in chars_of(s)]
    if all(isinstance(c, int) and 32 <= c < 127 for c in cs): return ''.join(chr(c) for c in cs)
    return {'cps': cs}

def to_json(t, m=None):
    """concretise a script tree under a model"""
    if is_sym(t): return model_int(m, t)
    if isinstance(t, Sym): return jstr(t.chars, m)
    if isinstance(t, (list, tuple)): return [to_json(x, m) for x in t]
    if isinstance(t, dict): return {k: to_json(v, m) for k, v in t.items()}
    return t

class Sym:
    """a string (name / text) with possibly symbolic characters inside a script tree"""
    def __init__(self, chars): self.chars = list(chars)
    def __repr__(self): return 'Sym(%d)' % len(self.chars)

def schars(s):
    if isinstance(s, Sym): return s.chars
    return chars_of(s)

class SQ:
    def __init__(self, e): self.e = e

    # ---- primitives
    def string(self, s): return Str(schars(s))
    def strref(self, s): return Ref(Cell(Str(schars(s))))
    def backend(self, name): return Ref(Cell(Adt(BACKENDS[name], None, [])))
    def iden(self, name):
        """DynIden = SeaRc<dyn Iden> holding an Alias"""
        a = Adt('Alias', None, [Cell(self.string(name))])
        return self.e.call('types::SeaRc::<dyn types::Iden>::new::<types::Alias>', [a])
    def alias(self, name):
        return Adt('Alias', None, [Cell(self.string(name))])

    def value(self, v):
        """v = {"t": Variant, "v": payload|None}"""
        t = v['t']; p = v.get('v')
        if p is None: return Adt('Value', t, [Cell(none())])
        if t == 'String': inner = Ref(Cell(self.string(p)), True, 'box')
        elif t == 'Bytes': inner = Ref(Cell(VecV([Cell(b) for b in p])), True, 'box')
        elif t in ('Float', 'Double'): inner = ('float', p, 'f32' if t == 'Float' else 'f64') if not isinstance(p, tuple) else p
        else: inner = p
        return Adt('Value', t, [Cell(some(inner))])

    def binoper(self, name):
        if isinstance(name, SymEnum): return name
        if name.startswith('pg:'): return Adt('BinOper', 'PgOperator', [Cell(Adt('PgBinOper', name[3:], []))])
        if name.startswith('sqlite:'): return Adt('BinOper', 'SqliteOperator', [Cell(Adt('SqliteBinOper', name[7:], []))])
        if name.startswith('custom:'): return Adt('BinOper', 'Custom', [Cell(self.strref(name[7:]))])
        return Adt('BinOper', name, [])

    def colref(self, c):
        k = c[0]
        if k == 'col': return Adt('ColumnRef', 'Column', [Cell(self.iden(c[1]))])
        if k == 'tcol': return Adt('ColumnRef', 'TableColumn', [Cell(self.iden(c[1])), Cell(self.iden(c[2]))])
        if k == 'stcol': return Adt('ColumnRef', 'SchemaTableColumn', [Cell(self.iden(c[1])), Cell(self.iden(c[2])), Cell(self.iden(c[3]))])
        if k == 'aster': return Adt('ColumnRef', 'Asterisk', [])
        if k == 'taster': return Adt('ColumnRef', 'TableAsterisk', [Cell(self.iden(c[1]))])
        raise Unsupported('colref %r' % (c,))

    def box(self, v): return Ref(Cell(v), True, 'box')

    # ---- expressions
    def expr(self, t):
        e = self.e; k = t[0]
        if k in ('col', 'tcol', 'stcol', 'aster', 'taster'): return Adt('SimpleExpr', 'Column', [Cell(self.colref(t))])
        if k == 'val': return Adt('SimpleExpr', 'Value', [Cell(self.value(t[1]))])
        if k == 'const': return Adt('SimpleExpr', 'Constant', [Cell(self.value(t[1]))])
        if k == 'vals': return Adt('SimpleExpr', 'Values', [Cell(VecV([Cell(self.value(v)) for v in t[1]]))])
        if k == 'kw': return Adt('SimpleExpr', 'Keyword', [Cell(Adt('Keyword', t[1], []))])
        if k == 'ckw': return Adt('SimpleExpr', 'Keyword', [Cell(Adt('Keyword', 'Custom', [Cell(self.iden(t[1]))]))])
        if k == 'bin': return Adt('SimpleExpr', 'Binary', [Cell(self.box(self.expr(t[2]))), Cell(self.binoper(t[1])), Cell(self.box(self.expr(t[3])))])
        if k == 'un': return Adt('SimpleExpr', 'Unary', [Cell(Adt('UnOper', t[1], [])), Cell(self.box(self.expr(t[2])))])
        if k == 'cust': return Adt('SimpleExpr', 'Custom', [Cell(self.string(t[1]))])
        if k == 'custv':
            vals = VecV([Cell(self.value(v)) for v in t[2]])
            return e.call('expr::Expr::cust_with_values::<std::string::String, value::Value, Vec<value::Value>>', [self.string(t[1]), vals])
        if k == 'custe':
            xs = VecV([Cell(self.expr(x)) for x in t[2]])
            return e.call('expr::Expr::cust_with_exprs::<std::string::String, Vec<expr::SimpleExpr>>', [self.string(t[1]), xs])
        if k == 'tuple': return Adt('SimpleExpr', 'Tuple', [Cell(VecV([Cell(self.expr(x)) for x in t[1]]))])
        if k == 'asenum': return Adt('SimpleExpr', 'AsEnum', [Cell(self.iden(t[1])), Cell(self.box(self.expr(t[2])))])
        if k == 'func': return Adt('SimpleExpr', 'FunctionCall', [Cell(self.func(t[1], t[2]))])
        if k == 'case':
            cs = e.call('query::case::CaseStatement::new', [])
            for cond, then in t[1]:
                cs = e.call('query::case::CaseStatement::case::<query::condition::Condition, expr::SimpleExpr>', [cs, self.cond(cond), self.expr(then)])
            if len(t) > 2 and t[2] is not None:
                cs = e.call('query::case::CaseStatement::finally::<expr::SimpleExpr>', [cs, self.expr(t[2])])
            return e.call('<query::case::CaseStatement as Into<expr::SimpleExpr>>::into', [cs])
        if k == 'subq':
            op = none() if t[1] is None else some(Adt('SubQueryOper', t[1], []))
            sub = Adt('SubQueryStatement', 'SelectStatement', [Cell(self.stmt(t[2]))])
            return Adt('SimpleExpr', 'SubQuery', [Cell(op), Cell(self.box(sub))])
        if k == 'm': return self.method(t)
        raise Unsupported('script expr %r' % (k,))

    def func(self, name, args):
        e = self.e
        xs = [self.expr(a) for a in args]
        S = 'expr::SimpleExpr'
        one = {'max': 'max', 'min': 'min', 'sum': 'sum', 'avg': 'avg', 'abs': 'abs', 'count': 'count', 'count_distinct': 'count_distinct',
               'char_length': 'char_length', 'lower': 'lower', 'upper': 'upper', 'bit_and': 'bit_and', 'bit_or': 'bit_or', 'round': 'round', 'md5': 'md5'}
        if name in one: return e.call('func::Func::%s::<%s>' % (one[name], S), [xs[0]])
        if name in ('greatest', 'least', 'coalesce'):
            return e.call('func::Func::%s::<Vec<%s>>' % (name, S), [VecV([Cell(x) for x in xs])])
        if name == 'if_null': return e.call('func::Func::if_null::<%s, %s>' % (S, S), xs)
        if name == 'random': return e.call('func::Func::random', [])
        if name.startswith('cust:'):
            fc = e.call('func::Func::cust::<types::Alias>', [self.alias(name[5:])])
            return e.call('func::FunctionCall::args::<Vec<%s>>' % S, [fc, VecV([Cell(x) for x in xs])])
        raise Unsupported('script func ' + name)

    def method(self, t):
        """["m", method, receiver E, args...] - ExprTrait sugar run from the crate's MIR"""
        e = self.e; meth = t[1]; recv = self.expr(t[2]); a = t[3:]
        S = 'expr::SimpleExpr'
        T = '<%s as expr::ExprTrait>::' % S
        if meth in ('between', 'not_between'):
            return e.call(T + '%s::<%s, %s>' % (meth, S, S), [recv, self.expr(a[0]), self.expr(a[1])])
        if meth in ('like', 'not_like'):
            le = Adt('LikeExpr', None, [Cell(self.string(a[0])), Cell(none() if len(a) < 2 or a[1] is None else some(a[1]))])
            return e.call(T + '%s::<types::LikeExpr>' % meth, [recv, le])
        if meth in ('is_in', 'is_not_in'):
            return e.call(T + '%s::<%s, Vec<%s>>' % (meth, S, S), [recv, VecV([Cell(self.expr(x)) for x in a[0]])])
        if meth == 'in_tuples':
            raise Unsupported('in_tuples')
        if meth in ('in_subquery', 'not_in_subquery'):
            return e.call(T + meth, [recv, self.stmt(a[0])])
        if meth == 'cast_as':
            return e.call(T + 'cast_as::<types::Alias>', [recv, self.alias(a[0])])
        if meth == 'as_enum':
            return e.call(T + 'as_enum::<types::Alias>', [recv, self.alias(a[0])])
        if meth in ('not', 'is_null', 'is_not_null'):
            return e.call(T + meth, [recv])
        if meth in ('eq', 'ne', 'gt', 'gte', 'lt', 'lte', 'add', 'sub', 'mul', 'div', 'modulo', 'left_shift', 'right_shift', 'and', 'or', 'is', 'is_not',
                    'bit_and', 'bit_or'):
            return e.call(T + '%s::<%s>' % (meth, S), [recv, self.expr(a[0])])
        if meth == 'binary':
            return e.call(T + 'binary::<types::BinOper, %s>' % S, [recv, self.binoper(a[0]), self.expr(a[1])])
        if meth in ('equals', 'not_equals'):
            return e.call(T + '%s::<types::ColumnRef>' % meth, [recv, self.colref(a[0])])
        raise Unsupported('script method ' + meth)

    # ---- conditions
    def cond(self, t):
        e = self.e; k = t[0]
        if k in ('any', 'all'):
            c = e.call('query::condition::Condition::%s' % k, [])
            for m in t[2]:
                if m is None:
                    c = e.call('query::condition::Condition::add_option::<expr::SimpleExpr>', [c, none()])
                elif m[0] in ('any', 'all'):
                    c = e.call('query::condition::Condition::add::<query::condition::Condition>', [c, self.cond(m)])
                elif m[0] == 'opt':
                    c = e.call('query::condition::Condition::add_option::<expr::SimpleExpr>', [c, some(self.expr(m[1]))])
                elif m[0] == 'optg':
                    c = e.call('query::condition::Condition::add_option::<query::condition::Condition>', [c, some(self.cond(m[1]))])
                else:
                    c = e.call('query::condition::Condition::add::<expr::SimpleExpr>', [c, self.expr(m)])
            if t[1]: c = e.call('query::condition::Condition::not', [c])
            return c
        # a bare expression used as a condition
        return e.call('<expr::SimpleExpr as query::condition::IntoCondition>::into_condition', [self.expr(t)])

    def stmt(self, t):
        from props import sqstmt
        return sqstmt.build(self, t)

    # ---- rendering
    def render_expr(self, backend, expr_v, mode='inline'):
        """returns (sql chars, values list | None)"""
        e = self.e
        b = self.backend(backend)
        if mode == 'inline':
            out = Str([])
            e.call('<Self as backend::QueryBuilder>::prepare_simple_expr', [b, Ref(Cell(expr_v)), Ref(Cell(out), True)])
            return out.chars, None
        w = e.call('prepare::SqlWriterValues::new::<&str>', [self.strref(PLACEHOLDER[backend][0]), PLACEHOLDER[backend][1]])
        wc = Cell(w)
        e.call('<Self as backend::QueryBuilder>::prepare_simple_expr', [b, Ref(Cell(expr_v)), Ref(wc, True)])
        r = e.call('prepare::SqlWriterValues::into_parts', [wc.v])
        return as_str(r.fields[0].v).chars, values_list(r.fields[1].v)

    def value_to_string(self, backend, value_v):
        r = self.e.call('<Self as backend::QueryBuilder>::value_to_string', [self.backend(backend), Ref(Cell(value_v))])
        return as_str(r).chars

PLACEHOLDER = {'mysql': ('?', False), 'sqlite': ('?', False), 'postgres': ('$', True)}

def values_list(v):
    """Values(Vec<Value>) -> python list of Value Adts"""
    v = unref(v)
    if isinstance(v, Adt) and v.ty == 'Values': v = unref(v.fields[0].v)
    return [c.v for c in v.items]

def value_json(v, m=None):
    """engine Value Adt -> JSON (same form as the script's V)"""
    opt = v.fields[0].v
    if opt.variant == 'None': return {'t': v.variant, 'v': None}
    p = opt.fields[0].v
    while isinstance(p, Ref): p = p.cell.v
    if isinstance(p, Str): p = [model_int(m, c) if is_sym(c) else c for c in p.chars]
    elif isinstance(p, VecV): p = [model_int(m, c.v) if is_sym(c.v) else c.v for c in p.items]
    elif is_sym(p): p = model_int(m, p)
    elif isinstance(p, tuple) and p[0] == 'float': p = model_int(m, p[1]) if is_sym(p[1]) else p[1]
    return {'t': v.variant, 'v': p}
