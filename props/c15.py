"""C15 - take, clone and clear / reset behave as value operations on builders (SelectStatement, WindowStatement, and the schema statement builders).

Exec (MIR of the current tree): SelectStatement::{new, take, clear_selects, from_clear, reset_limit, reset_offset}, clear_order_by, the derived Clone and
PartialEq of SelectStatement and of everything it contains, SeaRc::clone / eq, WindowStatement::take, the builder calls that populate every field
(including the Postgres table_sample and MySQL index-hint extensions), and the three renderers.
Sym: which fields are populated, which operation is applied and which later change is made are chosen by the engine; LIMIT / OFFSET / predicate values are symbolic."""
import z3
from interp import Cell, Ref, Str, Adt, VecV, Budget, Unsupported, PathEnd, Panic, is_sym
from models import struct_eq
from props.common import *
from props.sq import SQ, to_json
from props import sqstmt

ENG = None
def V(t, v): return {'t': t, 'v': v}
C = lambda n: ['col', n]
SUBSEL = {'k': 'select', 'calls': [['column', C('u1')], ['from', ['t', 'u']]]}

def fields(vals):
    """(field name, calls) for every field of SelectStatement; vals: dict of symbolic payloads"""
    return [
        ('distinct', [['distinct']]),
        ('selects', [['column', C('a')], ['expr_as', ['func', 'max', [C('b')]], 'mx']]),
        ('from', [['from', ['t', 't']]]),
        ('join', [['join', 'LeftJoin', ['t', 'j'], ['all', False, [['bin', 'Equal', ['tcol', 't', 'id'], ['tcol', 'j', 'id']]]]]]),
        ('where', [['and_where', ['bin', 'Equal', C('w'), ['val', V('Int', vals['w'])]]]]),
        ('groups', [['group_by', C('g')]]),
        ('having', [['and_having', ['bin', 'GreaterThan', ['func', 'count', [C('h')]], ['val', V('Int', vals['h'])]]]]),
        ('unions', [['union', 'All', SUBSEL]]),
        ('orders', [['order_by', C('o'), 'Desc']]),
        ('limit', [['limit', vals['limit']]]),
        ('offset', [['offset', vals['offset']]]),
        ('lock', [['lock', 'Update']]),
        ('window', [['window', 'win', {'calls': [['partition_by', C('p')]]}]]),
        ('with', [['with_cte', {'ctes': [{'name': 'cte', 'query': SUBSEL}]}]]),
        ('table_sample', [['table_sample', 'SYSTEM', 0x4045000000000000, None]]),
        ('index_hints', [['index_hint', 'force', 'idx', 'All']]),
    ]
NF = 16
CLEARS = {'clear_selects': 'selects', 'from_clear': 'from', 'reset_limit': 'limit', 'reset_offset': 'offset', 'clear_order_by': 'orders'}
OPS = ['take', 'clone_then_source', 'clone_then_copy'] + list(CLEARS)
EXTRAS = [['column', C('x')], ['from', ['t', 'x']], ['and_where', ['bin', 'Equal', C('x'), ['val', V('Int', 7)]]], ['limit', 3], ['order_by', C('x'), 'Asc'], ['distinct']]

def choose_subset(e, n, kmax):
    """a subset of range(n) with at most kmax elements (all of them when kmax >= n: one binary choice per element)"""
    if kmax >= n: return [i for i in range(n) if e.choose(2, 'f%d' % i)]
    k = e.choose(kmax + 1, 'k'); out = []; lo = 0
    for j in range(k):
        i = lo + e.choose(n - lo - (k - j - 1), 'idx'); out.append(i); lo = i + 1
    return out

def render3(sq, stmt_v):
    return [list(sqstmt.render(sq, 'select', stmt_v, b)[0]) for b in BACKENDS]

def same_text(e, a, b, msg, info):
    e.check(len(a) == len(b), msg, info)
    for x, y in zip(a, b):
        e.check(len(x) == len(y), msg, info)
        for p, q in zip(x, y):
            if isinstance(p, tuple) or isinstance(q, tuple): e.check(p == q if not (isinstance(p, tuple) and isinstance(q, tuple)) else tok_same(p, q), msg, info)
            else: e.check(p == q, msg, info)

def tok_same(p, q):
    if p[0] != q[0] or len(p) != len(q): return False
    a, b = p[1], q[1]
    if is_sym(a) or is_sym(b): return a == b
    return a == b

def entry_for(item, sampler, out):
    kmax, ops = item
    def entry(e):
        sq = SQ(e)
        vals = {'w': z3.BitVec('vw', 32), 'h': z3.BitVec('vh', 32), 'limit': z3.BitVec('vl', 64), 'offset': z3.BitVec('vo', 64)}
        F = fields(vals)
        op = ops[e.choose(len(ops), 'op')]
        sub = choose_subset(e, NF, kmax)
        if op in CLEARS:
            tgt = [i for i, (n, _) in enumerate(F) if n == CLEARS[op]][0]
            if tgt not in sub: sub = sorted(sub + [tgt])
        calls = [c for i in sub for c in F[i][1]]
        base = {'k': 'select', 'calls': calls}
        info = {'base': base, 'op': op, 'extra': None, 'expected': None}
        q = Cell(sqstmt.select(sq, base)); pre = sqstmt.select(sq, base)
        new = e.call('query::select::SelectStatement::new', [])
        if op == 'take':
            t = e.call('query::select::SelectStatement::take', [Ref(q, True)])
            e.check(struct_eq(e, t, pre), 'the taken statement is not equal to the statement before take()', info)
            same_text(e, render3(sq, t), render3(sq, pre), 'the taken statement renders differently from the statement before take()', info)
            e.check(struct_eq(e, q.v, new), 'take() leaves behind a statement that is not equal to a newly constructed one', info)
            same_text(e, render3(sq, q.v), render3(sq, new), 'the statement left behind by take() renders differently from a new one', info)
        elif op.startswith('clone'):
            c = Cell(e.call('<query::select::SelectStatement as Clone>::clone', [Ref(q)]))
            e.check(struct_eq(e, c.v, pre), 'the clone is not equal to its source', info)
            same_text(e, render3(sq, c.v), render3(sq, pre), 'the clone renders differently from its source', info)
            extra = EXTRAS[e.choose(len(EXTRAS), 'extra')]; info['extra'] = extra
            with_extra = sqstmt.select(sq, {'k': 'select', 'calls': calls + [extra]})
            changed, kept = (q, c) if op == 'clone_then_source' else (c, q)
            sqstmt.select_call(sq, changed, extra)
            e.check(struct_eq(e, kept.v, pre), 'a later change to one copy shows in the other', info)
            same_text(e, render3(sq, kept.v), render3(sq, pre), 'a later change to one copy changes how the other renders', info)
            e.check(struct_eq(e, changed.v, with_extra), 'the changed copy differs from the statement built with the extra call', info)
        else:
            sqstmt.select_call(sq, q, [op])
            exp_calls = [c for i in sub if F[i][0] != CLEARS[op] for c in F[i][1]]
            info['expected'] = {'k': 'select', 'calls': exp_calls}
            expected = sqstmt.select(sq, info['expected'])
            e.check(struct_eq(e, q.v, expected), '%s did not remove exactly its clause (statement differs from the one built without it)' % op, info)
            same_text(e, render3(sq, q.v), render3(sq, expected), '%s: the statement renders differently from the one built without that clause' % op, info)
        if sampler.want():
            m = e.ensure_model()
            out.append({'base': to_json(base, m), 'op': op, 'extra': to_json(info['extra'], m), 'expected': to_json(info['expected'], m)})
    return entry

def window_entry(sampler, out):
    def entry(e):
        sq = SQ(e)
        W = [['partition_by', C('p')], ['order_by', C('o'), 'Asc'], ['frame', 'Rows', 'UnboundedPreceding', 'CurrentRow']]
        sub = [i for i in range(3) if e.choose(2, 'w%d' % i)]
        base = {'calls': [W[i] for i in sub]}
        info = {'base': base, 'op': 'window_take'}
        w = Cell(sqstmt.window(sq, base)); pre = sqstmt.window(sq, base)
        t = e.call('query::window::WindowStatement::take', [Ref(w, True)])
        e.check(struct_eq(e, t, pre), 'the taken window is not equal to the window before take()', info)
        e.check(struct_eq(e, w.v, e.call('query::window::WindowStatement::new', [])), 'WindowStatement::take() leaves behind a non-empty window', info)
        c = e.call('<query::window::WindowStatement as Clone>::clone', [Ref(Cell(pre))])
        e.check(struct_eq(e, c, pre), 'the window clone is not equal to its source', info)
        if sampler.want(): out.append({'base': base, 'op': 'window_take'})
    return entry

# ------------------------------------------------------------------ schema statements (Clone, take(); no PartialEq: compared through the renderers)
def cdef(name, ty='Integer', *specs): return {'name': name, 'type': ty, 'specs': list(specs)}
def IDXS(*calls): return {'k': 'index_create', 'calls': [list(c) for c in calls]}
def FKS(*calls): return {'k': 'fk_create', 'calls': [list(c) for c in calls]}
T = ['t', 'glyph']
FK0 = [['name', 'fk'], ['from_tbl', T], ['from_col', 'font_id'], ['to_tbl', ['t', 'font']], ['to_col', 'id']]
def ddl_families(vals):
    """kind -> (base calls, toggles, extras, take path, clone type, backends)"""
    return {
     'table_create': ([['table', T], ['col', cdef('id', 'Integer', 'NotNull')]],
                      [[['if_not_exists']], [['temporary']], [['col', cdef('n', ['String', ['N', vals['len']]], ['Default', ['val', V('Int', vals['d'])]])]],
                       [['index', IDXS(['name', 'ix'], ['col', 'n'], ['unique'])]], [['primary_key', IDXS(['col', 'id'])]], [['foreign_key', FKS(*FK0)]],
                       [['check', ['bin', 'GreaterThan', C('id'), ['val', V('Int', vals['d'])]]]], [['comment', "c'm"]], [['engine', 'InnoDB']], [['collate', 'utf8mb4_bin']], [['character_set', 'utf8mb4']], [['extra', 'WITHOUT ROWID']]],
                      [['col', cdef('zz', 'Text')], ['if_not_exists'], ['comment', 'later'], ['check', ['bin', 'Equal', C('id'), ['val', V('Int', 1)]]], ['index', IDXS(['name', 'iz'], ['col', 'id'], ['unique'])]],
                      'table::create::TableCreateStatement', BACKENDS),
     'table_alter': ([['table', T]],
                     [[['add_column', cdef('a', 'Integer', ['Default', ['val', V('Int', vals['d'])]])]], [['modify_column', cdef('m', 'BigInteger', 'NotNull')]], [['rename_column', 'o', 'n']], [['drop_column', 'dc']],
                      [['add_foreign_key', FKS(*FK0)]], [['drop_foreign_key', 'fk_old']]],
                     [['add_column', cdef('zz', 'Text')], ['drop_column', 'zz']],
                     'table::alter::TableAlterStatement', ('mysql', 'postgres', 'sqlite')),
     'table_drop': ([['table', T]], [[['table', ['t', 'font']]], [['if_exists']], [['restrict']], [['cascade']]], [['table', ['t', 'zz']], ['if_exists']],
                    'table::drop::TableDropStatement', BACKENDS),
     'table_rename': ([], [[['table', T, ['t', 'glyph2']]]], [['table', ['t', 'zz'], ['t', 'yy']]], 'table::rename::TableRenameStatement', BACKENDS),
     'table_truncate': ([], [[['table', T]]], [['table', ['t', 'zz']]], 'table::truncate::TableTruncateStatement', ('mysql', 'postgres')),
     'index_create': ([['table', T], ['col', 'aspect']],
                      [[['name', 'idx']], [['col', 'image', 'Desc', 16]], [['unique']], [['primary']], [['full_text']], [['nulls_not_distinct']], [['if_not_exists']], [['index_type', 'Hash']], [['include', 'inc']],
                       [['and_where', ['bin', 'GreaterThan', C('aspect'), ['val', V('Int', vals['d'])]]]]],
                      [['col', 'zz'], ['unique'], ['name', 'later'], ['include', 'zz'], ['and_where', ['bin', 'Equal', C('zz'), ['val', V('Int', 1)]]]],
                      'index::create::IndexCreateStatement', BACKENDS),
     'fk_create': (FK0, [[['on_delete', 'Cascade']], [['on_update', 'SetNull']], [['from_col', 'c2'], ['to_col', 'd2']]], [['on_delete', 'Restrict'], ['from_col', 'zz'], ['name', 'later']],
                   'foreign_key::create::ForeignKeyCreateStatement', ('mysql', 'postgres')),
    }
DDL_KINDS = ['table_create', 'table_alter', 'table_drop', 'table_rename', 'table_truncate', 'index_create', 'fk_create']
DDL_OPS = ['take', 'clone_then_source', 'clone_then_copy']

def ddl_outcomes(sq, v, trait, meth, backends):
    from props.sq import BACKENDS as BK
    e = sq.e; outs = []
    for b in backends:
        out = Str([])
        try:
            e.call('<Self as backend::%s>::%s' % (trait, meth), [Ref(Cell(Adt(BK[b], None, []))), Ref(Cell(v)), Ref(Cell(out), True)])
            outs.append(list(out.chars))
        except Panic:
            outs.append(['<panic>'])
    return outs

def ddl_apply(sq, kind, cell, call):
    """apply one more builder call to the statement in `cell` (rebuild-free: uses the same script layer with a pre-existing statement)"""
    from props import sqddl
    sqddl.apply_calls(sq, kind, cell, [call])

def ddl_entry(item, sampler, out):
    kind, kmax = item
    def entry(e):
        from props import sqddl
        sq = SQ(e)
        vals = {'d': z3.BitVec('vd', 32), 'len': z3.BitVec('vlen', 32)}
        base_calls, toggles, extras, path, backends = ddl_families(vals)[kind]
        op = DDL_OPS[e.choose(len(DDL_OPS), 'op')]
        sub = choose_subset(e, len(toggles), kmax)
        if not base_calls and not sub: sub = [0]
        calls = list(base_calls) + [c for i in sub for c in toggles[i]]
        base = {'k': kind, 'calls': calls}
        info = {'base': base, 'op': op, 'extra': None, 'backends': list(backends)}
        qv, trait, meth = sqddl.build(sq, base); q = Cell(qv)
        pre, _, _ = sqddl.build(sq, base)
        R = lambda v: ddl_outcomes(sq, v, trait, meth, backends)
        if op == 'take':
            t = e.call(path + '::take', [Ref(q, True)])
            same_text(e, R(t), R(pre), 'the taken %s statement renders differently from the statement before take()' % kind, info)
        else:
            c = Cell(e.call('<%s as Clone>::clone' % path, [Ref(q)]))
            same_text(e, R(c.v), R(pre), 'the clone of a %s statement renders differently from its source' % kind, info)
            extra = extras[e.choose(len(extras), 'extra')]; info['extra'] = extra
            with_extra, _, _ = sqddl.build(sq, {'k': kind, 'calls': calls + [extra]})
            changed, kept = (q, c) if op == 'clone_then_source' else (c, q)
            sqddl.apply_calls(sq, kind, changed, [extra])
            same_text(e, R(kept.v), R(pre), 'a later change to one copy of a %s statement changes how the other renders' % kind, info)
            same_text(e, R(changed.v), R(with_extra), 'the changed copy of a %s statement renders differently from the statement built with the extra call' % kind, info)
        if sampler.want():
            m = e.ensure_model()
            out.append({'ddl': True, 'base': to_json(base, m), 'op': op, 'extra': to_json(info['extra'], m), 'backends': list(backends)})
    return entry

# ------------------------------------------------------------------ INSERT / UPDATE / DELETE (Clone + PartialEq, no take())
I1 = ['val', V('Int', 1)]
def dml_families(vals):
    W = lambda n: ['bin', 'Equal', C(n), ['val', V('Int', vals['w'])]]
    return {
     'insert': ([['into_table', ['t', 'glyph']], ['columns', ['a', 'b']]],
                [[['values_panic', [['val', V('Int', vals['w'])], I1]]], [['values_panic', [I1, ['val', V('Int', vals['h'])]]]], [['replace']], [['returning_col', C('id')]],
                 [['on_conflict', {'target': ['cols', ['a']], 'calls': [['update_column', 'b']]}]], [['with_cte', {'ctes': [{'name': 'cte', 'query': SUBSEL}]}]]],
                [['values_panic', [I1, I1]], ['returning_all'], ['replace']]),
     'update': ([['table', ['t', 'glyph']], ['value', 'a', ['val', V('Int', vals['w'])]]],
                [[['value', 'b', ['val', V('Int', vals['h'])]]], [['and_where', W('id')]], [['order_by', C('o'), 'Desc']], [['limit', vals['limit']]], [['returning_all']], [['from', ['t', 'other']]],
                 [['with_cte', {'ctes': [{'name': 'cte', 'query': SUBSEL}]}]]],
                [['value', 'zz', I1], ['and_where', ['bin', 'Equal', C('zz'), I1]], ['limit', 3], ['order_by', C('zz'), 'Asc']]),
     'delete': ([['from_table', ['t', 'glyph']]],
                [[['and_where', W('id')]], [['order_by', C('o'), 'Desc']], [['limit', vals['limit']]], [['returning_col', C('id')]], [['with_cte', {'ctes': [{'name': 'cte', 'query': SUBSEL}]}]]],
                [['and_where', ['bin', 'Equal', C('zz'), I1]], ['limit', 3], ['order_by', C('zz'), 'Asc'], ['returning_all']]),
    }
DML_KINDS = ['insert', 'update', 'delete']
DML_TY = {'insert': 'query::insert::InsertStatement', 'update': 'query::update::UpdateStatement', 'delete': 'query::delete::DeleteStatement'}

def dml_build(sq, kind, st):
    return sqstmt.insert(sq, st)[0] if kind == 'insert' else (sqstmt.update(sq, st) if kind == 'update' else sqstmt.delete(sq, st))
def dml_call(sq, kind, cell, call):
    if kind == 'insert': sqstmt.insert_call(sq, cell, call, [])
    elif kind == 'update': sqstmt.update_call(sq, cell, call)
    else: sqstmt.delete_call(sq, cell, call)

def dml_entry(item, sampler, out):
    kind, kmax = item
    def entry(e):
        sq = SQ(e)
        vals = {'w': z3.BitVec('vw', 32), 'h': z3.BitVec('vh', 32), 'limit': z3.BitVec('vl', 64)}
        base_calls, toggles, extras = dml_families(vals)[kind]
        op = ['clone_then_source', 'clone_then_copy'][e.choose(2, 'op')]
        sub = choose_subset(e, len(toggles), kmax)
        calls = list(base_calls) + [c for i in sub for c in toggles[i]]
        base = {'k': kind, 'calls': calls}
        info = {'base': base, 'op': op, 'extra': None, 'dml': True}
        q = Cell(dml_build(sq, kind, base)); pre = dml_build(sq, kind, base)
        R = lambda v: [list(sqstmt.render(sq, kind, v, b)[0]) for b in BACKENDS]
        c = Cell(e.call('<%s as Clone>::clone' % DML_TY[kind], [Ref(q)]))
        e.check(struct_eq(e, c.v, pre), 'the clone of an %s statement is not equal to its source' % kind, info)
        same_text(e, R(c.v), R(pre), 'the clone of an %s statement renders differently from its source' % kind, info)
        extra = extras[e.choose(len(extras), 'extra')]; info['extra'] = extra
        with_extra = dml_build(sq, kind, {'k': kind, 'calls': calls + [extra]})
        changed, kept = (q, c) if op == 'clone_then_source' else (c, q)
        dml_call(sq, kind, changed, extra)
        e.check(struct_eq(e, kept.v, pre), 'a later change to one copy of an %s statement shows in the other' % kind, info)
        same_text(e, R(kept.v), R(pre), 'a later change to one copy of an %s statement changes how the other renders' % kind, info)
        e.check(struct_eq(e, changed.v, with_extra), 'the changed copy of an %s statement differs from the statement built with the extra call' % kind, info)
        if sampler.want():
            m = e.ensure_model()
            out.append({'dml': True, 'base': to_json(base, m), 'op': op, 'extra': to_json(info['extra'], m)})
    return entry

def work(w):
    item, prefix, seed = w
    eng = ENG; reset_stats(eng); eng.solver = z3.Solver()
    samples = []; sampler = Sampler(seed, first=1, every=100)
    try:
        ent = window_entry(sampler, samples) if item == 'window' else (ddl_entry(item, sampler, samples) if item[0] in DDL_KINDS else (dml_entry(item, sampler, samples) if item[0] in DML_KINDS else entry_for(item, sampler, samples)))
        viol = eng.run_all(ent, prefix=prefix)
    except (Budget, Unsupported) as ex:
        return {'inconclusive': '%s: %s' % (type(ex).__name__, ex), 'item': repr(item)}
    vs = []
    for k, msg, m, info in viol:
        case = None if info is None else {'base': to_json(info['base'], m), 'op': info['op'], 'extra': to_json(info.get('extra'), m), 'expected': to_json(info.get('expected'), m)}
        if case is not None and 'backends' in info: case['ddl'] = True; case['backends'] = info['backends']
        if case is not None and info.get('dml'): case['dml'] = True
        vs.append({'kind': k, 'msg': msg, 'case': case})
    return {'stats': eng.stats, 'executed': eng.executed, 'models_used': eng.models_used, 'violations': vs, 'samples': samples, 'item': repr(item)}

def native_req(case):
    if case['op'] == 'window_take': return {'op': 'c15_window', 'base': case['base']}
    if case.get('dml'): return {'op': 'c15_dml', 'base': case['base'], 'c15': case['op'], 'extra': case.get('extra')}
    if case.get('ddl'): return {'op': 'c15_ddl', 'stmt': case['base'], 'c15': case['op'], 'extra': case.get('extra'), 'backends': case['backends']}
    return {'op': 'c15_select', 'base': case['base'], 'c15': case['op'], 'extra': case.get('extra'), 'expected': case.get('expected')}

def run(ctx):
    global ENG
    quick = ctx.tier == 'quick'
    ENG = eng = ctx.engine()
    nat = ctx.nat()
    items = [(2, OPS)] if quick else [(3, OPS), (NF, ['take'])]
    ctx.bounds = {'select': ['subsets of at most %s of the 16 SelectStatement fields populated x operations %s' % ('all' if k >= NF else k, ops) for k, ops in items],
                  'later_change': '%d different follow-up calls after clone' % len(EXTRAS), 'window': 'all subsets of the 3 WindowStatement fields',
                  'payloads': 'LIMIT / OFFSET / predicate values symbolic', 'renderers': list(BACKENDS)}
    ctx.assumptions += ['equality is the crate own PartialEq (executed from its MIR); "the statement before the call" is an independently rebuilt copy, not a clone',
                        'schema statements have no PartialEq: their equality is observed through the three renderers (a renderer panic is an outcome that must be the same on both sides)']
    work_items = []
    for it in items:
        for p in eng.frontier(entry_for(it, Sampler(0, first=0, every=10**9), []), ctx.workers * 3): work_items.append((it, p, ctx.seed))
    work_items.append(('window', [], ctx.seed))
    ddl_items = [(k, 2 if quick else 12) for k in DDL_KINDS]
    for it in ddl_items:
        for p in eng.frontier(ddl_entry(it, Sampler(0, first=0, every=10**9), []), ctx.workers): work_items.append((it, p, ctx.seed))
    dml_items = [(k, 2 if quick else 8) for k in DML_KINDS]
    for it in dml_items:
        for p in eng.frontier(dml_entry(it, Sampler(0, first=0, every=10**9), []), ctx.workers): work_items.append((it, p, ctx.seed))
    ctx.bounds['insert_update_delete'] = ['%s: base + subsets of at most %d optional calls x {clone then change source, clone then change copy}' % it for it in dml_items]
    ctx.bounds['schema'] = ['%s: base + subsets of at most %d of its optional builder calls x {take, clone then change source, clone then change copy}; rendered on every backend that has the statement' % it for it in ddl_items]
    ctx.families = ['select k<=%s ops=%d' % (k, len(o)) for k, o in items] + ['window'] + ['%s k<=%d' % it for it in ddl_items + dml_items]
    for res in ctx.pmap(work, work_items):
        if not merge_worker(ctx, res): continue
        for s in res['samples']:
            r = nat.ask(native_req(s))
            if r.get('holds'):
                ctx.validated += 1
                if len(ctx.samples) < 16: ctx.samples.append({'op': s['op'], 'kind': s['base'].get('k', 'select'), 'fields': [c[0] for c in s['base']['calls']]})
            else: ctx.inconclusive.append('passing path fails natively: %r -> %r' % (s, r))
        for v in res['violations']:
            if v['case'] is None: ctx.inconclusive.append('violation without case: %r' % (v,)); continue
            req = native_req(v['case'])
            r = nat.ask(req)
            if r.get('holds') is False or r.get('panic') is not None:
                calls = sorted(set(c[0] for c in v['case']['base']['calls']))
                ctx.violations.append({'key': '%s:%s' % (v['case']['op'], '+'.join(calls)), 'msg': v['msg'] + ' / native: ' + '; '.join(r.get('fails', [r.get('panic', '')])), 'case': v['case'], 'replay': req})
            else:
                ctx.inconclusive.append('counterexample does not reproduce natively: %r -> %r' % (v, r))

def replay(ctx, data):
    r = ctx.nat().ask(data['replay'])
    print('native dev:', r)
    return 0 if r.get('holds') else 1
