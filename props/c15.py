"""C15 - take, clone and clear / reset behave as value operations on builders (query statements: SelectStatement, WindowStatement).

Exec (MIR of the current tree): SelectStatement::{new, take, clear_selects, from_clear, reset_limit, reset_offset}, clear_order_by, the derived Clone and
PartialEq of SelectStatement and of everything it contains, SeaRc::clone / eq, WindowStatement::take, the builder calls that populate every field
(including the Postgres table_sample and MySQL index-hint extensions), and the three renderers.
Sym: which fields are populated, which operation is applied and which later change is made are chosen by the engine; LIMIT / OFFSET / predicate values are symbolic."""
import z3
from interp import Cell, Ref, Str, Adt, VecV, Budget, Unsupported, PathEnd, Panic, is_sym
from models import struct_eq
from props.common import *
from props.sq import SQ, to_json
from props import sqstmt

ENG = None
def V(t, v): return {'t': t, 'v': v}
C = lambda n: ['col', n]
SUBSEL = {'k': 'select', 'calls': [['column', C('u1')], ['from', ['t', 'u']]]}

def fields(vals):
    """(field name, calls) for every field of SelectStatement; vals: dict of symbolic payloads"""
    return [
        ('distinct', [['distinct']]),
        ('selects', [['column', C('a')], ['expr_as', ['func', 'max', [C('b')]], 'mx']]),
        ('from', [['from', ['t', 't']]]),
        ('join', [['join', 'LeftJoin', ['t', 'j'], ['all', False, [['bin', 'Equal', ['tcol', 't', 'id'], ['tcol', 'j', 'id']]]]]]),
        ('where', [['and_where', ['bin', 'Equal', C('w'), ['val', V('Int', vals['w'])]]]]),
        ('groups', [['group_by', C('g')]]),
        ('having', [['and_having', ['bin', 'GreaterThan', ['func', 'count', [C('h')]], ['val', V('Int', vals['h'])]]]]),
        ('unions', [['union', 'All', SUBSEL]]),
        ('orders', [['order_by', C('o'), 'Desc']]),
        ('limit', [['limit', vals['limit']]]),
        ('offset', [['offset', vals['offset']]]),
        ('lock', [['lock', 'Update']]),
        ('window', [['window', 'win', {'calls': [['partition_by', C('p')]]}]]),
        ('with', [['with_cte', {'ctes': [{'name': 'cte', 'query': SUBSEL}]}]]),
        ('table_sample', [['table_sample', 'SYSTEM', 0x4045000000000000, None]]),
        ('index_hints', [['index_hint', 'force', 'idx', 'All']]),
    ]
NF = 16
CLEARS = {'clear_selects': 'selects', 'from_clear': 'from', 'reset_limit': 'limit', 'reset_offset': 'offset', 'clear_order_by': 'orders'}
OPS = ['take', 'clone_then_source', 'clone_then_copy'] + list(CLEARS)
EXTRAS = [['column', C('x')], ['from', ['t', 'x']], ['and_where', ['bin', 'Equal', C('x'), ['val', V('Int', 7)]]], ['limit', 3], ['order_by', C('x'), 'Asc'], ['distinct']]

def choose_subset(e, n, kmax):
    """a subset of range(n) with at most kmax elements (all of them when kmax >= n: one binary choice per element)"""
    if kmax >= n: return [i for i in range(n) if e.choose(2, 'f%d' % i)]
    k = e.choose(kmax + 1, 'k'); out = []; lo = 0
    for j in range(k):
        i = lo + e.choose(n - lo - (k - j - 1), 'idx'); out.append(i); lo = i + 1
    return out

def render3(sq, stmt_v):
    return [list(sqstmt.render(sq, 'select', stmt_v, b)[0]) for b in BACKENDS]

def same_text(e, a, b, msg, info):
    e.check(len(a) == len(b), msg, info)
    for x, y in zip(a, b):
        e.check(len(x) == len(y), msg, info)
        for p, q in zip(x, y):
            if isinstance(p, tuple) or isinstance(q, tuple): e.check(p == q if not (isinstance(p, tuple) and isinstance(q, tuple)) else tok_same(p, q), msg, info)
            else: e.check(p == q, msg, info)

def tok_same(p, q):
    if p[0] != q[0] or len(p) != len(q): return False
    a, b = p[1], q[1]
    if is_sym(a) or is_sym(b): return a == b
    return a == b

def entry_for(item, sampler, out):
    kmax, ops = item
    def entry(e):
        sq = SQ(e)
        vals = {'w': z3.BitVec('vw', 32), 'h': z3.BitVec('vh', 32), 'limit': z3.BitVec('vl', 64), 'offset': z3.BitVec('vo', 64)}
        F = fields(vals)
        op = ops[e.choose(len(ops), 'op')]
        sub = choose_subset(e, NF, kmax)
        if op in CLEARS:
            tgt = [i for i, (n, _) in enumerate(F) if n == CLEARS[op]][0]
            if tgt not in sub: sub = sorted(sub + [tgt])
        calls = [c for i in sub for c in F[i][1]]
        base = {'k': 'select', 'calls': calls}
        info = {'base': base, 'op': op, 'extra': None, 'expected': None}
        q = Cell(sqstmt.select(sq, base)); pre = sqstmt.select(sq, base)
        new = e.call('query::select::SelectStatement::new', [])
        if op == 'take':
            t = e.call('query::select::SelectStatement::take', [Ref(q, True)])
            e.check(struct_eq(e, t, pre), 'the taken statement is not equal to the statement before take()', info)
            same_text(e, render3(sq, t), render3(sq, pre), 'the taken statement renders differently from the statement before take()', info)
            e.check(struct_eq(e, q.v, new), 'take() leaves behind a statement that is not equal to a newly constructed one', info)
            same_text(e, render3(sq, q.v), render3(sq, new), 'the statement left behind by take() renders differently from a new one', info)
        elif op.startswith('clone'):
            c = Cell(e.call('<query::select::SelectStatement as Clone>::clone', [Ref(q)]))
            e.check(struct_eq(e, c.v, pre), 'the clone is not equal to its source', info)
            same_text(e, render3(sq, c.v), render3(sq, pre), 'the clone renders differently from its source', info)
            extra = EXTRAS[e.choose(len(EXTRAS), 'extra')]; info['extra'] = extra
            with_extra = sqstmt.select(sq, {'k': 'select', 'calls': calls + [extra]})
            changed, kept = (q, c) if op == 'clone_then_source' else (c, q)
            sqstmt.select_call(sq, changed, extra)
            e.check(struct_eq(e, kept.v, pre), 'a later change to one copy shows in the other', info)
            same_text(e, render3(sq, kept.v), render3(sq, pre), 'a later change to one copy changes how the other renders', info)
            e.check(struct_eq(e, changed.v, with_extra), 'the changed copy differs from the statement built with the extra call', info)
        else:
            sqstmt.select_call(sq, q, [op])
            exp_calls = [c for i in sub if F[i][0] != CLEARS[op] for c in F[i][1]]
            info['expected'] = {'k': 'select', 'calls': exp_calls}
            expected = sqstmt.select(sq, info['expected'])
            e.check(struct_eq(e, q.v, expected), '%s did not remove exactly its clause (statement differs from the one built without it)' % op, info)
            same_text(e, render3(sq, q.v), render3(sq, expected), '%s: the statement renders differently from the one built without that clause' % op, info)
        if sampler.want():
            m = e.ensure_model()
            out.append({'base': to_json(base, m), 'op': op, 'extra': to_json(info['extra'], m), 'expected': to_json(info['expected'], m)})
    return entry

def window_entry(sampler, out):
    def entry(e):
        sq = SQ(e)
        W = [['partition_by', C('p')], ['order_by', C('o'), 'Asc'], ['frame', 'Rows', 'UnboundedPreceding', 'CurrentRow']]
        sub = [i for i in range(3) if e.choose(2, 'w%d' % i)]
        base = {'calls': [W[i] for i in sub]}
        info = {'base': base, 'op': 'window_take'}
        w = Cell(sqstmt.window(sq, base)); pre = sqstmt.window(sq, base)
        t = e.call('query::window::WindowStatement::take', [Ref(w, True)])
        e.check(struct_eq(e, t, pre), 'the taken window is not equal to the window before take()', info)
        e.check(struct_eq(e, w.v, e.call('query::window::WindowStatement::new', [])), 'WindowStatement::take() leaves behind a non-empty window', info)
        c = e.call('<query::window::WindowStatement as Clone>::clone', [Ref(Cell(pre))])
        e.check(struct_eq(e, c, pre), 'the window clone is not equal to its source', info)
        if sampler.want(): out.append({'base': base, 'op': 'window_take'})
    return entry

def work(w):
    item, prefix, seed = w
    eng = ENG; reset_stats(eng); eng.solver = z3.Solver()
    samples = []; sampler = Sampler(seed, first=1, every=100)
    try:
        ent = window_entry(sampler, samples) if item == 'window' else entry_for(item, sampler, samples)
        viol = eng.run_all(ent, prefix=prefix)
    except (Budget, Unsupported) as ex:
        return {'inconclusive': '%s: %s' % (type(ex).__name__, ex), 'item': repr(item)}
    vs = []
    for k, msg, m, info in viol:
        vs.append({'kind': k, 'msg': msg, 'case': None if info is None else {'base': to_json(info['base'], m), 'op': info['op'], 'extra': to_json(info.get('extra'), m), 'expected': to_json(info.get('expected'), m)}})
    return {'stats': eng.stats, 'executed': eng.executed, 'models_used': eng.models_used, 'violations': vs, 'samples': samples, 'item': repr(item)}

def native_req(case):
    if case['op'] == 'window_take': return {'op': 'c15_window', 'base': case['base']}
    return {'op': 'c15_select', 'base': case['base'], 'c15': case['op'], 'extra': case.get('extra'), 'expected': case.get('expected')}

def run(ctx):
    global ENG
    quick = ctx.tier == 'quick'
    ENG = eng = ctx.engine()
    nat = ctx.nat()
    items = [(2, OPS)] if quick else [(3, OPS), (NF, ['take'])]
    ctx.bounds = {'select': ['subsets of at most %s of the 16 SelectStatement fields populated x operations %s' % ('all' if k >= NF else k, ops) for k, ops in items],
                  'later_change': '%d different follow-up calls after clone' % len(EXTRAS), 'window': 'all subsets of the 3 WindowStatement fields',
                  'payloads': 'LIMIT / OFFSET / predicate values symbolic', 'renderers': list(BACKENDS)}
    ctx.assumptions += ['equality is the crate own PartialEq (executed from its MIR); "the statement before the call" is an independently rebuilt copy, not a clone',
                        'schema statement builders (tables, indexes, foreign keys) are not covered by this harness']
    work_items = []
    for it in items:
        for p in eng.frontier(entry_for(it, Sampler(0, first=0, every=10**9), []), ctx.workers * 3): work_items.append((it, p, ctx.seed))
    work_items.append(('window', [], ctx.seed))
    ctx.families = ['select k<=%s ops=%d' % (k, len(o)) for k, o in items] + ['window']
    for res in ctx.pmap(work, work_items):
        if not merge_worker(ctx, res): continue
        for s in res['samples']:
            r = nat.ask(native_req(s))
            if r.get('holds'):
                ctx.validated += 1
                if len(ctx.samples) < 12: ctx.samples.append({'op': s['op'], 'fields': [c[0] for c in s['base']['calls']]})
            else: ctx.inconclusive.append('passing path fails natively: %r -> %r' % (s, r))
        for v in res['violations']:
            if v['case'] is None: ctx.inconclusive.append('violation without case: %r' % (v,)); continue
            req = native_req(v['case'])
            r = nat.ask(req)
            if r.get('holds') is False or r.get('panic') is not None:
                calls = sorted(set(c[0] for c in v['case']['base']['calls']))
                ctx.violations.append({'key': '%s:%s' % (v['case']['op'], '+'.join(calls)), 'msg': v['msg'] + ' / native: ' + '; '.join(r.get('fails', [r.get('panic', '')])), 'case': v['case'], 'replay': req})
            else:
                ctx.inconclusive.append('counterexample does not reproduce natively: %r -> %r' % (v, r))

def replay(ctx, data):
    r = ctx.nat().ask(data['replay'])
    print('native dev:', r)
    return 0 if r.get('holds') else 1
