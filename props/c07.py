"""C07 (structural part) - on SQLite, a built statement is accepted by a recogniser of SQLite's statement grammar and carries exactly the clauses the
builder calls gave, in SQLite's order, items in call order, nothing dropped - in inline and parameterised form.
Executing on a real SQLite engine (same rows / same table contents) is outside solver-based checking and is NOT claimed.
The harness is the C08 one (props/c08.py) run with the SQLite dialect of props/sqlskel.py."""
from props import c08

def run(ctx):
    c08.run(ctx, dialects=['sqlite'], deep=True)   # one dialect only: the thorough toggle groups fit the quick budget (about a minute)
    ctx.assumptions.append('NOT decided here: acceptance and row / table-content equality on a running SQLite engine; the claim is grammar conformance and clause recovery against my reading of the SQLite grammar')

def replay(ctx, data):
    return c08.replay(ctx, data)
