"""statement scripts -> sea-query statements inside the MIR engine (builder API run from its MIR).
Mirror of /verif/replay/src/stmt.rs."""
from interp import Cell, Ref, Adt, Str, VecV, UNIT, Unsupported
from models import some, none, as_str, unref

SEL = 'query::select::SelectStatement::'
INS = 'query::insert::InsertStatement::'
UPD = 'query::update::UpdateStatement::'
DEL = 'query::delete::DeleteStatement::'
S = 'expr::SimpleExpr'
DI = 'types::SeaRc<dyn types::Iden>'

def vec(xs): return VecV([Cell(x) for x in xs])

def value_tuple(sq, row):
    vs = [sq.value(v) for v in row]
    n = len(vs)
    if n == 1: return Adt('ValueTuple', 'One', [Cell(vs[0])])
    if n == 2: return Adt('ValueTuple', 'Two', [Cell(vs[0]), Cell(vs[1])])
    if n == 3: return Adt('ValueTuple', 'Three', [Cell(v) for v in vs])
    return Adt('ValueTuple', 'Many', [Cell(vec(vs))])

def tableref(sq, t):
    k = t[0]
    if k == 't': return Adt('TableRef', 'Table', [Cell(sq.iden(t[1]))])
    if k == 'st': return Adt('TableRef', 'SchemaTable', [Cell(sq.iden(t[1])), Cell(sq.iden(t[2]))])
    if k == 'dst': return Adt('TableRef', 'DatabaseSchemaTable', [Cell(sq.iden(t[1])), Cell(sq.iden(t[2])), Cell(sq.iden(t[3]))])
    if k == 'ta': return Adt('TableRef', 'TableAlias', [Cell(sq.iden(t[1])), Cell(sq.iden(t[2]))])
    if k == 'sta': return Adt('TableRef', 'SchemaTableAlias', [Cell(sq.iden(t[1])), Cell(sq.iden(t[2])), Cell(sq.iden(t[3]))])
    if k == 'subq': return Adt('TableRef', 'SubQuery', [Cell(build(sq, t[1])), Cell(sq.iden(t[2]))])
    if k == 'vals': return Adt('TableRef', 'ValuesList', [Cell(vec([value_tuple(sq, r) for r in t[1]])), Cell(sq.iden(t[2]))])
    if k == 'fn': return Adt('TableRef', 'FunctionCall', [Cell(sq.func(t[1], t[2])), Cell(sq.iden(t[3]))])
    raise Unsupported('tableref %r' % (k,))

def order(o): return Adt('Order', o, [])
def field_order(sq, vals): return Adt('Order', 'Field', [Cell(Adt('Values', None, [Cell(vec([sq.value(v) for v in vals]))]))])

def frame(f):
    if isinstance(f, str): return Adt('Frame', f, [])
    return Adt('Frame', f[0], [Cell(f[1])])

def window(sq, t):
    e = sq.e
    w = e.call('query::window::WindowStatement::new', [])
    wc = Cell(w); r = Ref(wc, True)
    WS = 'query::window::WindowStatement::'
    for c in t['calls']:
        k = c[0]
        if k == 'partition_by': e.call(WS + 'add_partition_by::<%s>' % S, [r, sq.expr(c[1])])
        elif k == 'order_by': e.call('<query::window::WindowStatement as query::ordered::OrderedStatement>::order_by::<types::ColumnRef>', [r, sq.colref(c[1]), order(c[2])])
        elif k == 'frame':
            end = none() if len(c) < 4 or c[3] is None else some(frame(c[3]))
            e.call(WS + 'frame', [r, Adt('FrameType', c[1], []), frame(c[2]), end])
        else: raise Unsupported('window call ' + k)
    return wc.v

def build(sq, t):
    k = t['k']
    if k == 'select': return select(sq, t)
    if k == 'insert': return insert(sq, t)[0]
    if k == 'update': return update(sq, t)
    if k == 'delete': return delete(sq, t)
    if k == 'with': return with_query(sq, t)
    raise Unsupported('statement kind ' + k)

def select(sq, t):
    e = sq.e
    qc = Cell(e.call(SEL + 'new', []))
    for c in t['calls']: select_call(sq, qc, c)
    return qc.v

def cond_stmt(ty): return '<%s as query::condition::ConditionalStatement>::' % ty
def ord_stmt(ty): return '<%s as query::ordered::OrderedStatement>::' % ty

def ordered_call(sq, ty, r, c):
    e = sq.e; k = c[0]; OS = ord_stmt(ty)
    if k == 'order_by': e.call(OS + 'order_by::<types::ColumnRef>', [r, sq.colref(c[1]), order(c[2])])
    elif k == 'order_by_expr': e.call(OS + 'order_by_expr', [r, sq.expr(c[1]), order(c[2])])
    elif k == 'order_by_nulls': e.call(OS + 'order_by_with_nulls::<types::ColumnRef>', [r, sq.colref(c[1]), order(c[2]), Adt('NullOrdering', c[3], [])])
    elif k == 'order_by_expr_nulls': e.call(OS + 'order_by_expr_with_nulls', [r, sq.expr(c[1]), order(c[2]), Adt('NullOrdering', c[3], [])])
    elif k == 'order_field': e.call(OS + 'order_by::<types::ColumnRef>', [r, sq.colref(c[1]), field_order(sq, c[2])])
    elif k == 'order_field_expr': e.call(OS + 'order_by_expr', [r, sq.expr(c[1]), field_order(sq, c[2])])
    elif k == 'order_field_nulls': e.call(OS + 'order_by_with_nulls::<types::ColumnRef>', [r, sq.colref(c[1]), field_order(sq, c[2]), Adt('NullOrdering', c[3], [])])
    elif k == 'clear_order_by': e.call(OS + 'clear_order_by', [r])
    else: return False
    return True

def cond_call(sq, ty, r, c):
    e = sq.e; k = c[0]; CS = cond_stmt(ty)
    if k == 'and_where': e.call(CS + 'and_where', [r, sq.expr(c[1])])
    elif k == 'cond_where': e.call(CS + 'cond_where::<query::condition::Condition>', [r, sq.cond(c[1])])
    else: return False
    return True

def returning_clause(sq, c):
    e = sq.e; k = c[0]
    ret = e.call('query::returning::Returning::new', [])
    if k == 'returning_all': return e.call('query::returning::Returning::all', [Ref(Cell(ret))])
    if k == 'returning_col': return e.call('query::returning::Returning::column::<types::ColumnRef>', [Ref(Cell(ret)), sq.colref(c[1])])
    if k == 'returning_cols': return e.call('query::returning::Returning::columns::<types::ColumnRef, Vec<types::ColumnRef>>', [ret, vec([sq.colref(x) for x in c[1]])])
    if k == 'returning_exprs': return e.call('query::returning::Returning::exprs::<%s, Vec<%s>>' % (S, S), [ret, vec([sq.expr(x) for x in c[1]])])
    raise Unsupported('returning ' + k)

def select_call(sq, qc, c):
    e = sq.e; r = Ref(qc, True); k = c[0]
    ty = 'query::select::SelectStatement'
    if cond_call(sq, ty, r, c) or ordered_call(sq, ty, r, c): return
    if k == 'distinct': e.call(SEL + 'distinct', [r])
    elif k == 'distinct_on': e.call(SEL + 'distinct_on::<types::ColumnRef, Vec<types::ColumnRef>>', [r, vec([sq.colref(x) for x in c[1]])])
    elif k == 'column': e.call(SEL + 'column::<types::ColumnRef>', [r, sq.colref(c[1])])
    elif k == 'expr': e.call(SEL + 'expr::<%s>' % S, [r, sq.expr(c[1])])
    elif k == 'expr_as': e.call(SEL + 'expr_as::<%s, %s>' % (S, DI), [r, sq.expr(c[1]), sq.iden(c[2])])
    elif k == 'expr_window': e.call(SEL + 'expr_window::<%s>' % S, [r, sq.expr(c[1]), window(sq, c[2])])
    elif k == 'expr_window_as': e.call(SEL + 'expr_window_as::<%s, %s>' % (S, DI), [r, sq.expr(c[1]), window(sq, c[2]), sq.iden(c[3])])
    elif k == 'expr_window_name': e.call(SEL + 'expr_window_name::<%s, %s>' % (S, DI), [r, sq.expr(c[1]), sq.iden(c[2])])
    elif k == 'window': e.call(SEL + 'window::<%s>' % DI, [r, sq.iden(c[1]), window(sq, c[2])])
    elif k == 'from': e.call(SEL + 'from::<types::TableRef>', [r, tableref(sq, c[1])])
    elif k == 'from_subquery': e.call(SEL + 'from_subquery::<%s>' % DI, [r, build(sq, c[1]), sq.iden(c[2])])
    elif k == 'from_values': e.call(SEL + 'from_values::<Vec<value::ValueTuple>, value::ValueTuple, %s>' % DI, [r, vec([value_tuple(sq, row) for row in c[1]]), sq.iden(c[2])])
    elif k == 'join': e.call(SEL + 'join::<types::TableRef, query::condition::Condition>', [r, Adt('JoinType', c[1], []), tableref(sq, c[2]), sq.cond(c[3])])
    elif k == 'join_subquery': e.call(SEL + 'join_subquery::<%s, query::condition::Condition>' % DI, [r, Adt('JoinType', c[1], []), build(sq, c[2]), sq.iden(c[3]), sq.cond(c[4])])
    elif k == 'group_by': e.call(SEL + 'group_by_col::<types::ColumnRef>', [r, sq.colref(c[1])])
    elif k == 'add_group_by': e.call(SEL + 'add_group_by::<Vec<%s>>' % S, [r, vec([sq.expr(c[1])])])
    elif k == 'and_having': e.call(SEL + 'and_having', [r, sq.expr(c[1])])
    elif k == 'cond_having': e.call(SEL + 'cond_having::<query::condition::Condition>', [r, sq.cond(c[1])])
    elif k == 'limit': e.call(SEL + 'limit', [r, c[1]])
    elif k == 'offset': e.call(SEL + 'offset', [r, c[1]])
    elif k == 'union': e.call(SEL + 'union', [r, Adt('UnionType', c[1], []), build(sq, c[2])])
    elif k == 'lock': e.call(SEL + 'lock', [r, Adt('LockType', c[1], [])])
    elif k == 'lock_with_behavior': e.call(SEL + 'lock_with_behavior', [r, Adt('LockType', c[1], []), Adt('LockBehavior', c[2], [])])
    elif k == 'lock_with_tables': e.call(SEL + 'lock_with_tables::<types::TableRef, Vec<types::TableRef>>', [r, Adt('LockType', c[1], []), vec([tableref(sq, x) for x in c[2]])])
    elif k == 'with_cte': e.call(SEL + 'with_cte::<query::with::WithClause>', [r, with_clause(sq, c[1])])
    elif k == 'table_sample':
        rep = none() if len(c) < 4 or c[3] is None else some(('float', c[3], 'f64'))
        e.call('<query::select::SelectStatement as extension::postgres::select::PostgresSelectStatementExt>::table_sample', [r, Adt('SampleMethod', c[1], []), ('float', c[2], 'f64'), rep])
    elif k == 'index_hint':
        meth = {'use': 'use_index', 'force': 'force_index', 'ignore': 'ignore_index'}[c[1]]
        e.call('<query::select::SelectStatement as extension::mysql::select::MySqlSelectStatementExt>::%s::<%s>' % (meth, DI), [r, sq.iden(c[2]), Adt('IndexHintScope', c[3], [])])
    elif k in ('clear_selects', 'from_clear', 'reset_limit', 'reset_offset'): e.call(SEL + k, [r])
    else: raise Unsupported('select call ' + k)

def on_conflict(sq, t):
    e = sq.e
    OC = 'query::on_conflict::OnConflict::'
    tg = t.get('target')
    if tg is None: oc = e.call(OC + 'new', [])
    elif tg[0] == 'cols': oc = e.call(OC + 'columns::<Vec<%s>, %s>' % (DI, DI), [vec([sq.iden(x) for x in tg[1]])])
    elif tg[0] == 'exprs':
        oc = e.call(OC + 'new', []); c0 = Cell(oc)
        e.call(OC + 'exprs::<Vec<%s>, %s>' % (S, S), [Ref(c0, True), vec([sq.expr(x) for x in tg[1]])]); oc = c0.v
    else: raise Unsupported('on conflict target')
    oc_c = Cell(oc); r = Ref(oc_c, True)
    for c in t['calls']:
        k = c[0]
        if k == 'do_nothing': e.call(OC + 'do_nothing', [r])
        elif k == 'do_nothing_on': e.call(OC + 'do_nothing_on::<%s, Vec<%s>>' % (DI, DI), [r, vec([sq.iden(x) for x in c[1]])])
        elif k == 'update_column': e.call(OC + 'update_column::<%s>' % DI, [r, sq.iden(c[1])])
        elif k == 'update_columns': e.call(OC + 'update_columns::<%s, Vec<%s>>' % (DI, DI), [r, vec([sq.iden(x) for x in c[1]])])
        elif k == 'value': e.call(OC + 'value::<%s, %s>' % (DI, S), [r, sq.iden(c[1]), sq.expr(c[2])])
        elif k == 'target_and_where': e.call(OC + 'target_and_where', [r, sq.expr(c[1])])
        elif k == 'action_and_where': e.call(OC + 'action_and_where', [r, sq.expr(c[1])])
        elif k == 'target_cond_where': e.call(OC + 'target_cond_where::<query::condition::Condition>', [r, sq.cond(c[1])])
        elif k == 'action_cond_where': e.call(OC + 'action_cond_where::<query::condition::Condition>', [r, sq.cond(c[1])])
        else: raise Unsupported('on conflict call ' + k)
    return oc_c.v

def insert(sq, t, hook=None):
    """returns (statement, log) where log records the outcome of fallible calls"""
    e = sq.e
    qc = Cell(e.call(INS + 'new', [])); log = []
    for i, c in enumerate(t['calls']):
        insert_call(sq, qc, c, log)
        if hook: hook(i, qc)
    return qc.v, log

def result_json(r):
    if r.variant == 'Ok': return 'ok'
    er = r.fields[0].v
    if er.variant == 'ColValNumMismatch': return {'err': 'ColValNumMismatch', 'col_len': er.fields[0].v, 'val_len': er.fields[1].v}
    return {'err': 'other'}

def insert_call(sq, qc, c, log):
    e = sq.e; r = Ref(qc, True); k = c[0]
    if k == 'into_table': e.call(INS + 'into_table::<types::TableRef>', [r, tableref(sq, c[1])])
    elif k == 'columns': e.call(INS + 'columns::<%s, Vec<%s>>' % (DI, DI), [r, vec([sq.iden(x) for x in c[1]])])
    elif k == 'values':
        before = e.call('<query::insert::InsertStatement as Clone>::clone', [Ref(qc)])
        res = e.call(INS + 'values::<Vec<%s>>' % S, [r, vec([sq.expr(x) for x in c[1]])])
        j = result_json(res)
        if j != 'ok':
            from models import struct_eq
            j['unchanged'] = struct_eq(e, qc.v, before)
        log.append(j)
    elif k == 'values_panic': e.call(INS + 'values_panic::<Vec<%s>>' % S, [r, vec([sq.expr(x) for x in c[1]])])
    elif k == 'values_from_panic': e.call(INS + 'values_from_panic::<Vec<%s>>' % S, [r, vec([vec([sq.expr(x) for x in row]) for row in c[1]])])
    elif k == 'select_from':
        before = e.call('<query::insert::InsertStatement as Clone>::clone', [Ref(qc)])
        res = e.call(INS + 'select_from::<query::select::SelectStatement>', [r, build(sq, c[1])])
        j = result_json(res)
        if j != 'ok':
            from models import struct_eq
            j['unchanged'] = struct_eq(e, qc.v, before)
        log.append(j)
    elif k == 'on_conflict': e.call(INS + 'on_conflict', [r, on_conflict(sq, c[1])])
    elif k.startswith('returning'): e.call(INS + 'returning', [r, returning_clause(sq, c)])
    elif k == 'or_default_values': e.call(INS + 'or_default_values', [r])
    elif k == 'or_default_values_many': e.call(INS + 'or_default_values_many', [r, c[1]])
    elif k == 'replace': e.call(INS + 'replace', [r])
    elif k == 'with_cte': e.call(INS + 'with_cte::<query::with::WithClause>', [r, with_clause(sq, c[1])])
    else: raise Unsupported('insert call ' + k)

def update(sq, t):
    qc = Cell(sq.e.call(UPD + 'new', []))
    for c in t['calls']: update_call(sq, qc, c)
    return qc.v

def update_call(sq, qc, c):
    e = sq.e; r = Ref(qc, True)
    ty = 'query::update::UpdateStatement'
    for c in [c]:
        k = c[0]
        if cond_call(sq, ty, r, c) or ordered_call(sq, ty, r, c): continue
        if k == 'table': e.call(UPD + 'table::<types::TableRef>', [r, tableref(sq, c[1])])
        elif k == 'from': e.call(UPD + 'from::<types::TableRef>', [r, tableref(sq, c[1])])
        elif k == 'value': e.call(UPD + 'value::<%s, %s>' % (DI, S), [r, sq.iden(c[1]), sq.expr(c[2])])
        elif k == 'limit': e.call(UPD + 'limit', [r, c[1]])
        elif k.startswith('returning'): e.call(UPD + 'returning', [r, returning_clause(sq, c)])
        elif k == 'with_cte': e.call(UPD + 'with_cte::<query::with::WithClause>', [r, with_clause(sq, c[1])])
        else: raise Unsupported('update call ' + k)

def delete(sq, t):
    qc = Cell(sq.e.call(DEL + 'new', []))
    for c in t['calls']: delete_call(sq, qc, c)
    return qc.v

def delete_call(sq, qc, c):
    e = sq.e; r = Ref(qc, True)
    ty = 'query::delete::DeleteStatement'
    for c in [c]:
        k = c[0]
        if cond_call(sq, ty, r, c) or ordered_call(sq, ty, r, c): continue
        if k == 'from_table': e.call(DEL + 'from_table::<types::TableRef>', [r, tableref(sq, c[1])])
        elif k == 'limit': e.call(DEL + 'limit', [r, c[1]])
        elif k.startswith('returning'): e.call(DEL + 'returning', [r, returning_clause(sq, c)])
        elif k == 'with_cte': e.call(DEL + 'with_cte::<query::with::WithClause>', [r, with_clause(sq, c[1])])
        else: raise Unsupported('delete call ' + k)

def with_clause(sq, t):
    e = sq.e
    WC = 'query::with::WithClause::'; CTE = 'query::with::CommonTableExpression::'
    wc = Cell(e.call(WC + 'new', [])); r = Ref(wc, True)
    if t.get('recursive'): e.call(WC + 'recursive', [r, True])
    for c in t['ctes']:
        cc = Cell(e.call(CTE + 'new', [])); cr = Ref(cc, True)
        e.call(CTE + 'table_name::<%s>' % DI, [cr, sq.iden(c['name'])])
        if c.get('cols') is not None: e.call(CTE + 'columns::<%s, Vec<%s>>' % (DI, DI), [cr, vec([sq.iden(x) for x in c['cols']])])
        if c.get('materialized') is not None: e.call(CTE + 'materialized', [cr, bool(c['materialized'])])
        q = c['query']
        qty = KIND_TY[q['k']]
        e.call(CTE + 'query::<%s>' % qty, [cr, build(sq, q)])
        e.call(WC + 'cte', [r, cc.v])
    if t.get('search') is not None:
        s = t['search']
        se = Adt('SelectExpr', None, [Cell(sq.expr(s['expr'])), Cell(some(sq.iden(s['alias']))), Cell(none())])
        srch = e.call('query::with::Search::new_from_order_and_expr::<query::select::SelectExpr>', [Adt('SearchOrder', s['order'], []), se])
        e.call(WC + 'search', [r, srch])
    if t.get('cycle') is not None:
        c = t['cycle']
        cy = e.call('query::with::Cycle::new_from_expr_set_using::<%s, %s, %s>' % (S, DI, DI), [sq.expr(c['expr']), sq.iden(c['set']), sq.iden(c['using'])])
        e.call(WC + 'cycle', [r, cy])
    return wc.v

def with_query(sq, t):
    e = sq.e
    w = with_clause(sq, t['with'])
    q = t['query']
    return e.call('query::with::WithClause::query::<%s>' % KIND_TY[q['k']], [w, build(sq, q)])

BTYPE = {'mysql': 'backend::mysql::MysqlQueryBuilder', 'postgres': 'backend::postgres::PostgresQueryBuilder', 'sqlite': 'backend::sqlite::SqliteQueryBuilder'}
KIND_TY = {'select': 'query::select::SelectStatement', 'insert': 'query::insert::InsertStatement', 'update': 'query::update::UpdateStatement',
           'delete': 'query::delete::DeleteStatement', 'with': 'query::with::WithQuery'}
ENTRIES = ['to_string', 'build', 'build_any', 'build_collect', 'build_collect_any', 'build_collect_into', 'build_collect_any_into']

def render(sq, kind, stmt_v, backend, entry='to_string'):
    """-> (sql chars, list of Value Adts | None)"""
    from props.sq import BACKENDS, values_list, PLACEHOLDER
    e = sq.e
    ty = KIND_TY[kind]
    b = Adt(BACKENDS[backend], None, [])
    W = '<%s as query::traits::QueryStatementWriter>::' % ty
    B = '<%s as query::traits::QueryStatementBuilder>::' % ty
    sr = Ref(Cell(stmt_v))
    if entry == 'to_string':
        r = e.call(W + 'to_string::<%s>' % BTYPE[backend], [sr, b])
        return as_str(r).chars, None
    if entry == 'build':
        r = e.call(W + 'build::<%s>' % BTYPE[backend], [sr, b])
        return as_str(r.fields[0].v).chars, values_list(r.fields[1].v)
    if entry == 'build_any':
        r = e.call(B + 'build_any', [sr, Ref(Cell(b))])
        return as_str(r.fields[0].v).chars, values_list(r.fields[1].v)
    ph = PLACEHOLDER[backend]
    wc = Cell(e.call('prepare::SqlWriterValues::new::<&str>', [sq.strref(ph[0]), ph[1]]))
    if entry == 'build_collect':
        s = e.call(W + 'build_collect::<%s>' % BTYPE[backend], [sr, b, Ref(wc, True)])
        parts = e.call('prepare::SqlWriterValues::into_parts', [wc.v])
        return as_str(s).chars, values_list(parts.fields[1].v)
    if entry == 'build_collect_any':
        s = e.call(B + 'build_collect_any', [sr, Ref(Cell(b)), Ref(wc, True)])
        parts = e.call('prepare::SqlWriterValues::into_parts', [wc.v])
        return as_str(s).chars, values_list(parts.fields[1].v)
    if entry == 'build_collect_into':
        e.call(W + 'build_collect_into::<%s>' % BTYPE[backend], [sr, b, Ref(wc, True)])
    elif entry == 'build_collect_any_into':
        e.call(B + 'build_collect_any_into', [sr, Ref(Cell(b)), Ref(wc, True)])
    else: raise Unsupported('entry ' + entry)
    parts = e.call('prepare::SqlWriterValues::into_parts', [wc.v])
    return as_str(parts.fields[0].v).chars, values_list(parts.fields[1].v)
