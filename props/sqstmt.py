"""statement scripts -> sea-query statements inside the MIR engine (builder API run from its MIR)"""
from interp import Cell, Ref, Adt, Str, VecV, UNIT, Unsupported
from models import some, none, as_str, unref

SEL = 'query::select::SelectStatement::'
S = 'expr::SimpleExpr'

def tableref(sq, t):
    k = t[0]
    if k == 't': return Adt('TableRef', 'Table', [Cell(sq.iden(t[1]))])
    if k == 'st': return Adt('TableRef', 'SchemaTable', [Cell(sq.iden(t[1])), Cell(sq.iden(t[2]))])
    if k == 'dst': return Adt('TableRef', 'DatabaseSchemaTable', [Cell(sq.iden(t[1])), Cell(sq.iden(t[2])), Cell(sq.iden(t[3]))])
    if k == 'ta': return Adt('TableRef', 'TableAlias', [Cell(sq.iden(t[1])), Cell(sq.iden(t[2]))])
    if k == 'sta': return Adt('TableRef', 'SchemaTableAlias', [Cell(sq.iden(t[1])), Cell(sq.iden(t[2])), Cell(sq.iden(t[3]))])
    if k == 'subq': return Adt('TableRef', 'SubQuery', [Cell(build(sq, t[1])), Cell(sq.iden(t[2]))])
    raise Unsupported('tableref %r' % (k,))

def order(o): return Adt('Order', o, [])

def build(sq, t):
    k = t['k']
    if k == 'select': return select(sq, t)
    raise Unsupported('statement kind ' + k)

def select(sq, t):
    e = sq.e
    q = e.call(SEL + 'new', [])
    qc = Cell(q)
    for c in t['calls']: select_call(sq, qc, c)
    return qc.v

def select_call(sq, qc, c):
    e = sq.e; r = Ref(qc, True); k = c[0]
    CS = '<query::select::SelectStatement as query::condition::ConditionalStatement>::'
    OS = '<query::select::SelectStatement as query::ordered::OrderedStatement>::'
    if k == 'distinct': e.call(SEL + 'distinct', [r])
    elif k == 'column': e.call(SEL + 'column::<types::ColumnRef>', [r, sq.colref(c[1])])
    elif k == 'expr': e.call(SEL + 'expr::<%s>' % S, [r, sq.expr(c[1])])
    elif k == 'expr_as': e.call(SEL + 'expr_as::<%s, types::SeaRc<dyn types::Iden>>' % S, [r, sq.expr(c[1]), sq.iden(c[2])])
    elif k == 'from': e.call(SEL + 'from::<types::TableRef>', [r, tableref(sq, c[1])])
    elif k == 'from_subquery': e.call(SEL + 'from_subquery::<types::SeaRc<dyn types::Iden>>', [r, build(sq, c[1]), sq.iden(c[2])])
    elif k == 'join': e.call(SEL + 'join::<types::TableRef, query::condition::Condition>', [r, Adt('JoinType', c[1], []), tableref(sq, c[2]), sq.cond(c[3])])
    elif k == 'and_where': e.call(CS + 'and_where', [r, sq.expr(c[1])])
    elif k == 'cond_where': e.call(CS + 'cond_where::<query::condition::Condition>', [r, sq.cond(c[1])])
    elif k == 'group_by': e.call(SEL + 'group_by_col::<types::ColumnRef>', [r, sq.colref(c[1])])
    elif k == 'add_group_by': e.call(SEL + 'add_group_by::<Vec<%s>>' % S, [r, VecV([Cell(sq.expr(c[1]))])])
    elif k == 'and_having': e.call(SEL + 'and_having', [r, sq.expr(c[1])])
    elif k == 'cond_having': e.call(SEL + 'cond_having::<query::condition::Condition>', [r, sq.cond(c[1])])
    elif k == 'order_by': e.call(OS + 'order_by::<types::ColumnRef>', [r, sq.colref(c[1]), order(c[2])])
    elif k == 'order_by_expr': e.call(OS + 'order_by_expr', [r, sq.expr(c[1]), order(c[2])])
    elif k == 'order_by_nulls': e.call(OS + 'order_by_with_nulls::<types::ColumnRef>', [r, sq.colref(c[1]), order(c[2]), Adt('NullOrdering', c[3], [])])
    elif k == 'order_field':
        o = Adt('Order', 'Field', [Cell(Adt('Values', None, [Cell(VecV([Cell(sq.value(v)) for v in c[2]]))]))])
        e.call(OS + 'order_by::<types::ColumnRef>', [r, sq.colref(c[1]), o])
    elif k == 'limit': e.call(SEL + 'limit', [r, c[1]])
    elif k == 'offset': e.call(SEL + 'offset', [r, c[1]])
    elif k == 'union': e.call(SEL + 'union', [r, Adt('UnionType', c[1], []), build(sq, c[2])])
    elif k in ('clear_selects', 'from_clear', 'reset_limit', 'reset_offset'): e.call(SEL + k, [r])
    elif k == 'clear_order_by': e.call(OS + 'clear_order_by', [r])
    else: raise Unsupported('select call ' + k)

BTYPE = {'mysql': 'backend::mysql::MysqlQueryBuilder', 'postgres': 'backend::postgres::PostgresQueryBuilder', 'sqlite': 'backend::sqlite::SqliteQueryBuilder'}
KIND_TY = {'select': 'query::select::SelectStatement', 'insert': 'query::insert::InsertStatement', 'update': 'query::update::UpdateStatement',
           'delete': 'query::delete::DeleteStatement', 'with': 'query::with::WithQuery'}

def render(sq, kind, stmt_v, backend, entry='to_string'):
    """-> (sql chars, list of Value Adts | None)"""
    from props.sq import BACKENDS, values_list
    e = sq.e
    ty = KIND_TY[kind]
    b = Adt(BACKENDS[backend], None, [])
    if entry == 'to_string':
        r = e.call('<%s as query::traits::QueryStatementWriter>::to_string::<%s>' % (ty, BTYPE[backend]), [Ref(Cell(stmt_v)), b])
        return as_str(r).chars, None
    if entry == 'build':
        r = e.call('<%s as query::traits::QueryStatementWriter>::build::<%s>' % (ty, BTYPE[backend]), [Ref(Cell(stmt_v)), b])
    elif entry == 'build_any':
        r = e.call('<%s as query::traits::QueryStatementBuilder>::build_any' % ty, [Ref(Cell(stmt_v)), Ref(Cell(b))])
    else: raise Unsupported('entry ' + entry)
    return as_str(r.fields[0].v).chars, values_list(r.fields[1].v)
