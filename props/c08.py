"""C08 - MySQL / Postgres statements carry every clause the builder was given, once, in the position the grammar requires, with items in call order;
dialect-specific constructs appear only in their own dialect and form.

Exec (MIR of the current tree): the whole prepare_* tree of query_builder.rs with the MySQL and Postgres overrides, both writers.
Sym: the statement families of props/families.py (clauses chosen by the engine, incl. the dialect-specific toggles).
Oracle: clause-skeleton recognisers (props/sqlskel.py) written from the MySQL 8.0 / PostgreSQL 16 synopses."""
import z3
from interp import Cell, Ref, Str, Adt, VecV, Budget, Unsupported, PathEnd, Panic, is_sym
from props.common import *
from props.sq import SQ, to_json, value_json
from props import sqstmt
from props.families import FAMILIES, build_family, DIALECT_TOGGLES
from props.sqlskel import recognise, expected, norm, SkelError
from props.c01 import subst_tags

ENG = None
DIALECTS = ['mysql', 'postgres']

def conc_text(chars):
    """inline text with every opaque number token replaced by the digit 7 (the skeleton does not depend on values)"""
    return ''.join(chr(c) if isinstance(c, int) else '7' for c in chars)

def verdict(st, backend, sql):
    try: got = norm(recognise(sql, backend))
    except SkelError as ex: return 'not accepted by the %s statement grammar: %s' % (backend, ex)
    want = norm(expected(st, backend))
    if got != want:
        for g, w in zip(got, want):
            if g != w: return 'clause %s recovered as %r, the builder was given %r' % (w[0], g, w)
        return 'recovered clauses %r, the builder was given %r' % ([c[0] for c in got], [c[0] for c in want])
    return None

def roles(st):
    """roles of recorded findings present in a statement script"""
    out = []
    def walk(s):
        if s['k'] == 'with':
            for c in s['with']['ctes']: walk(c['query'])
            walk(s['query']); return
        for c in s['calls']:
            if c[0] == 'window': out.append('named-window-clause')
            if c[0] == 'union' and any(x[0] == 'limit' for x in c[2]['calls']): out.append('compound-member-with-limit')
            if c[0] == 'on_conflict' and any(x[0] == 'do_nothing' for x in c[1]['calls']): out.append('upsert-do-nothing-without-keys')
            if c[0] in ('from_subquery', 'union', 'select_from'): walk(c[1] if c[0] != 'union' else c[2])
        if s['k'] == 'select' and any(c[0] == 'offset' for c in s['calls']) and not any(c[0] == 'limit' for c in s['calls']): out.append('offset-without-limit')
        if s['k'] == 'update' and len([c for c in s['calls'] if c[0] == 'from']) > 1: out.append('update-multiple-from')
    walk(st)
    return out

def entry_for(item, sampler, out):
    fam, backend, toggles = item
    def entry(e):
        sq = SQ(e)
        st, f = build_family(e, fam, backend, toggles)
        if fam == 'update' and backend == 'mysql' and 'upjoin2' in toggles and e.choose(2, 'upjoin2'):
            st['calls'].insert(2, ['from', ['t', 'o1']]); st['calls'].insert(3, ['from', ['t', 'o2']]); f.chosen.append('upjoin2')
        info = {'stmt': st, 'fam': f}
        stmt_v = sq.stmt(st)
        sql, values = sqstmt.render(sq, st['k'], stmt_v, backend, 'build')
        s = conc_text(sql)
        why = verdict(st, backend, s)
        e.check(why is None, 'parameterised rendering: %s   [%s]' % (why, s), info)
        inl, _ = sqstmt.render(sq, st['k'], stmt_v, backend, 'to_string')
        s2 = conc_text(inl)
        why = verdict(st, backend, s2)
        e.check(why is None, 'inline rendering: %s   [%s]' % (why, s2), info)
        if sampler.want(): out.append({'stmt': subst_tags(st, f, e.ensure_model()), 'backend': backend, 'sql': s})
    return entry

def work(w):
    item, prefix, seed = w
    eng = ENG; reset_stats(eng); eng.solver = z3.Solver()
    from props.c01 import PREFER
    eng.prefer = PREFER
    samples = []; sampler = Sampler(seed, first=1, every=60)
    try:
        viol = eng.run_all(entry_for(item, sampler, samples), prefix=prefix)
    except (Budget, Unsupported) as ex:
        return {'inconclusive': '%s: %s' % (type(ex).__name__, ex), 'item': repr(item)}
    vs = []
    for k, msg, m, info in viol:
        vs.append({'kind': k, 'msg': msg, 'item': [item[0], item[1]], 'stmt': subst_tags(info['stmt'], info['fam'], m) if info else None, 'chosen': info and info['fam'].chosen})
    return {'stats': eng.stats, 'executed': eng.executed, 'models_used': eng.models_used, 'violations': vs, 'samples': samples, 'item': repr(item)}

def native_verdict(nat, backend, st):
    for entry in ('build', 'to_string'):
        r = nat.ask({'op': 'render', 'backend': backend, 'entry': entry, 'stmt': st})
        if r.get('panic') is not None: return 'panic: ' + r['panic']
        s = ''.join(chr(c) for c in r['sql'])
        why = verdict(st, backend, s)
        if why: return '%s: %s [%s]' % (entry, why, s)
    return None

def items_for(quick, dialects=DIALECTS):
    items = []
    extra = {'select': [['from', 'hint', 'sample', 'distinct_on', 'lock', 'lockkind', 'namedwin', 'w1', 'limit'], ['union', 'utype', 'ulimit', 'order', 'ordnulls', 'ordfunc'], ['window', 'frame', 'order', 'limit']], 'insert': [['cols', 'conflict', 'donothing', 'dokeys', 'cwhere', 'returning']],
             'update': [['upjoin', 'upjoin2', 'where', 'set2']], 'with': [['recursive', 'search', 'cycle', 'materialized', 'cte2']], 'delete': []}
    for fam, (gen, qgroups, tgroups) in FAMILIES.items():
        for b in dialects:
            for g in (qgroups if quick else tgroups) + extra[fam]: items.append((fam, b, tuple(g)))
    return items

def run(ctx, dialects=DIALECTS, deep=False):
    global ENG
    quick = ctx.tier == 'quick' and not deep
    ENG = eng = ctx.engine()
    nat = ctx.nat()
    items = items_for(quick, dialects)
    ctx.bounds = {'families': sorted(set('%s: optional clauses %s' % (i[0], list(i[2])) for i in items)), 'dialects': dialects, 'modes': ['build', 'to_string'],
                  'nesting': 'sub-selects in FROM / IN / UNION / INSERT..SELECT / CTE queries are recognised recursively'}
    ctx.assumptions += ['clause grammars in props/sqlskel.py (written from the manuals synopses); the content of predicates is compared by the identifiers they mention, in order (their logic is C05 / C06)',
                        'clauses a dialect does not have (UPDATE/DELETE .. ORDER BY / LIMIT and REPLACE on Postgres, RETURNING on MySQL, ...) are not requested from that dialect']
    work_items = []
    for it in items:
        for p in eng.frontier(entry_for(it, Sampler(0, first=0, every=10**9), []), 6): work_items.append((it, p, ctx.seed))
    ctx.families = ['%s/%s %s' % (i[0], i[1], '+'.join(i[2])) for i in items]
    for res in ctx.pmap(work, work_items):
        if not merge_worker(ctx, res): continue
        for s in res['samples']:
            why = native_verdict(nat, s['backend'], s['stmt'])
            if why is None:
                ctx.validated += 1
                if len(ctx.samples) < 12: ctx.samples.append({'backend': s['backend'], 'sql': s['sql']})
            elif not [r for r in roles(s['stmt']) if (r != 'offset-without-limit' or s['backend'] == 'mysql') and (r != 'compound-member-with-limit' or s['backend'] == 'sqlite')]: ctx.inconclusive.append('passing path fails natively: %r -> %s' % (s, why))
        for v in res['violations']:
            if v['stmt'] is None: ctx.inconclusive.append('violation without statement: %r' % (v,)); continue
            why = native_verdict(nat, v['item'][1], v['stmt'])
            if why:
                rs = [r for r in roles(v['stmt']) if (r != 'offset-without-limit' or v['item'][1] == 'mysql') and (r != 'compound-member-with-limit' or v['item'][1] == 'sqlite')]
                key = '%s:%s:%s' % (v['item'][0], v['item'][1], rs[0] if rs else 'other:' + '+'.join(v['chosen'] or []))
                ctx.violations.append({'key': key, 'msg': v['msg'] + ' / native: ' + why, 'stmt': v['stmt'], 'backend': v['item'][1], 'replay': {'backend': v['item'][1], 'stmt': v['stmt']}})
            else:
                ctx.inconclusive.append('counterexample does not reproduce natively: %r' % (v,))

def replay(ctx, data):
    why = native_verdict(ctx.nat(), data['replay']['backend'], data['replay']['stmt'])
    print('native dev ->', why)
    return 1 if why else 0
