"""Statement families for the value / clause properties (C01, C02, C08, C09, C07).

A family is a statement script whose optional clauses are chosen by the engine (e.choose: explored exhaustively) and whose values are distinct symbolic
Ints, each *tagged*: value k_n always sits next to a marker in the SQL text (`"k_n" = ?`, `? AS "k_n"`, SET "k_n" = ?) or at a position that
identifies it (LIMIT / OFFSET / frame bound / a cell of a VALUES list), so an oracle can tell which value a placeholder stands for without trusting
the renderer's own clause order."""
import z3
from interp import Unsupported

def V(t, v): return {'t': t, 'v': v}
C = lambda n: ['col', n]

class Fam:
    def __init__(self, e, backend, toggles):
        self.e = e; self.b = backend; self.on = set(toggles)
        self.n = 0; self.tags = {}; self.pos = []      # pos: positional expectations [(kind, [tags...])]
        self.chosen = []; self.dup_ok = set()      # tags that a documented emulation renders twice (MySQL NULLS FIRST/LAST)
    def opt(self, name):
        if name not in self.on: return False
        r = bool(self.e.choose(2, name))
        if r: self.chosen.append(name)
        return r
    def pick(self, name, n):
        if name not in self.on: return 0
        r = self.e.choose(n, name)
        if r: self.chosen.append('%s=%d' % (name, r))
        return r
    def val(self, width=32, vt='Int'):
        self.n += 1
        t = z3.BitVec('k%d' % self.n, width); self.tags[self.n] = t
        return self.n, V(vt, t)
    def cmp(self):
        n, v = self.val()
        return ['bin', 'Equal', C('k_%d' % n), ['val', v]]
    def small_select(self, tbl, with_limit=False):
        calls = [['column', C('s')], ['from', ['t', tbl]], ['and_where', self.cmp()]]
        if with_limit:
            n, v = self.val(64, 'BigUnsigned'); self.pos.append(('limit', n)); calls.append(['limit', v['v']])
        return {'k': 'select', 'calls': calls}

EXTRA_TOGGLES = ['ulimit', 'utype', 'ordnulls', 'ordfunc', 'frame', 'jkind', 'jsub', 'lockkind', 'funcs']
DIALECT_TOGGLES = ['hint', 'sample', 'distinct_on', 'lock', 'namedwin', 'search', 'cycle', 'materialized', 'upjoin', 'dokeys', 'donothing']
SELECT_TOGGLES = ['distinct', 'valitem', 'case', 'cust', 'from', 'arity', 'vrows', 'join', 'w1', 'w2', 'insub', 'group', 'having', 'union', 'order', 'limit', 'offset', 'window', 'cte']

def select_family(f):
    calls = []
    if f.opt('cte'):
        calls.append(['with_cte', {'ctes': [{'name': 'cte', 'query': f.small_select('ctesrc')}]}])
    if f.opt('distinct'): calls.append(['distinct'])
    elif f.b == 'postgres' and f.opt('distinct_on'): calls.append(['distinct_on', [C('d1'), C('d2')]])
    calls.append(['column', C('c')])
    if f.opt('valitem'):
        n, v = f.val(); calls.append(['expr_as', ['val', v], 'k_%d' % n])
    if f.opt('case'):
        n, v = f.val()
        calls.append(['expr_as', ['case', [[['all', False, [f.cmp()]], C('x')]], ['val', v]], 'k_%d' % n])
    if f.opt('cust'):
        a, va = f.val(); b, vb = f.val()
        if f.b == 'postgres': calls.append(['expr', ['custv', 'k_%d = $2 AND k_%d = $1' % (a, b), [vb, va]]])
        else: calls.append(['expr', ['custv', 'k_%d = ? AND k_%d = ?' % (a, b), [va, vb]]])
    if f.opt('funcs'):
        # functions whose name differs between the dialects (CHAR_LENGTH / LENGTH, GREATEST / MAX, LEAST / MIN, RAND / RANDOM) and one that does not
        calls += [['expr_as', ['func', 'char_length', [C('fa')]], 'f1'], ['expr_as', ['func', 'greatest', [C('fa'), C('fb')]], 'f2'], ['expr_as', ['func', 'least', [C('fa'), C('fb')]], 'f3'],
                  ['expr_as', ['func', 'random', []], 'f4'], ['expr_as', ['func', 'coalesce', [C('fa'), C('fb')]], 'f5']]
    fk = f.pick('from', 3)
    if fk == 0: calls.append(['from', ['t', 't']])
    elif fk == 1: calls.append(['from_subquery', f.small_select('inner'), 'sub'])
    else:
        arity = 1 + f.pick('arity', 4); nrows = 1 + f.pick('vrows', 2)
        rows = []; tags = []
        for r in range(nrows):
            row = []
            for c in range(arity):
                n, v = f.val(); tags.append(n); row.append(v)
            rows.append(row)
        f.pos.append(('values', tags))
        calls.append(['from_values', rows, 'vl'])
    if fk == 0 and f.b == 'mysql' and f.opt('hint'): calls.append(['index_hint', 'force', 'idx1', 'Join']); calls.append(['index_hint', 'ignore', 'idx2', 'All'])
    if fk == 0 and f.b == 'postgres' and f.opt('sample'): calls.append(['table_sample', 'SYSTEM', 0x4045000000000000, None])
    if f.opt('join'):
        jk = ['LeftJoin', 'InnerJoin', 'RightJoin', 'Join', 'FullOuterJoin'][f.pick('jkind', 4 if f.b == 'mysql' else 5)]      # MySQL has no FULL OUTER JOIN
        if f.opt('jsub'): calls.append(['join_subquery', jk, f.small_select('js'), 'jsa', ['all', False, [f.cmp()]]])
        else: calls.append(['join', jk, ['t', 'j'], ['all', False, [f.cmp()]]])
    if f.opt('w1'): calls.append(['and_where', f.cmp()])
    if f.opt('w2'): calls.append(['cond_where', ['any', False, [f.cmp(), f.cmp()]]])
    if f.opt('insub'): calls.append(['and_where', ['m', 'in_subquery', C('q'), f.small_select('insub')]])
    if f.opt('group'): calls.append(['group_by', C('g')])
    if f.opt('having'): calls.append(['and_having', f.cmp()])      # HAVING without GROUP BY is valid in the three dialects (the whole result is one group)
    if f.opt('union'):
        ut = ['All', 'Distinct', 'Intersect', 'Except'][f.pick('utype', 4)]
        calls.append(['union', ut, f.small_select('u', with_limit=('ulimit' not in f.on) or f.opt('ulimit'))])
    ok = f.pick('order', 6)
    if ok == 1: calls.append(['order_by', C('o'), 'Asc'])
    elif ok == 2: calls.append(['order_field', C('o'), [V('Int', 3), V('String', 'x')]])       # inlined by design: must not be bound
    elif ok == 5: calls.append(['order_field_nulls', C('o'), [V('Int', 3), V('Int', 9)], 'First'])
    elif ok == 4:
        # ORDER BY FIELD on an expression that binds a value: CASE WHEN <expr>=v1 .. WHEN <expr>=v2 .. repeats the expression once per field value
        calls.append(['order_field_expr', f.cmp(), [V('Int', 4), V('Int', 5), V('Int', 1)]])
        f.dup_ok.add(f.n)
    elif ok == 3:
        direction, nl = [('Desc', 'Last'), ('Asc', 'Last'), ('Desc', 'First'), ('Asc', 'First')][f.pick('ordnulls', 4)]
        if f.opt('ordfunc'):
            n, v = f.val(); ex = ['func', 'if_null', [C('k_%d' % n), ['val', v]]]
        else: ex = f.cmp()
        calls.append(['order_by_expr_nulls', ex, direction, nl])
        if f.b == 'mysql': f.dup_ok.add(f.n)          # `expr IS NULL ASC, expr DESC`: the expression (and its value) is written twice
    if f.opt('window'):
        n = f.n = f.n + 1
        t = z3.BitVec('k%d' % n, 32); f.tags[n] = t; f.pos.append(('frame', n))
        fk2 = f.pick('frame', 3)
        if fk2 == 0: fr = ['frame', 'Rows', ['Preceding', t], 'CurrentRow']
        else:
            del f.tags[n]; f.pos.pop(); f.n -= 1
            fr = ['frame', 'Rows', 'UnboundedPreceding', 'CurrentRow'] if fk2 == 1 else ['frame', 'Range', 'UnboundedPreceding', None]
        calls.append(['expr_window_as', ['func', 'sum', [C('wv')]], {'calls': [['partition_by', C('wp')], ['order_by', C('wo'), 'Asc'], fr]}, 'wa'])
    if f.opt('namedwin'):
        calls.append(['expr_window_name', ['func', 'max', [C('nv')]], 'nw'])
        calls.append(['window', 'nw', {'calls': [['partition_by', C('np')], ['order_by', C('no'), 'Desc']]}])
    if f.opt('limit'):
        n, v = f.val(64, 'BigUnsigned'); f.pos.append(('limit', n)); calls.append(['limit', v['v']])
    if f.opt('offset'):
        n, v = f.val(64, 'BigUnsigned'); f.pos.append(('offset', n)); calls.append(['offset', v['v']])
    if f.b != 'sqlite' and f.opt('lock'):
        lk = f.pick('lockkind', 4)
        calls.append([['lock', 'Update'], ['lock_with_behavior', 'Share', 'SkipLocked'], ['lock_with_tables', 'Update', [['t', 't']]], ['lock_with_behavior', 'Update', 'Nowait']][lk])
    return {'k': 'select', 'calls': calls}

INSERT_TOGGLES = ['rows', 'cols', 'select', 'conflict', 'cwhere', 'twhere', 'returning', 'cte', 'defaults', 'dnfirst']

def insert_family(f):
    calls = [['into_table', ['t', 't']]]
    ncols = 1 + f.pick('cols', 2)
    cols = ['c%d' % i for i in range(ncols)]
    dk = f.pick('defaults', 3)
    if dk:
        # the default-values form: no column list, no source
        calls.append(['or_default_values'] if dk == 1 else ['or_default_values_many', 2])
    else: calls.append(['columns', cols])
    if dk: pass
    elif f.opt('select'):
        sel = {'k': 'select', 'calls': [['column', C('s%d' % i)] for i in range(ncols)] + [['from', ['t', 'src']], ['and_where', f.cmp()]]}
        calls.append(['select_from', sel])
    else:
        nrows = 1 + f.pick('rows', 2); tags = []
        for r in range(nrows):
            row = []
            for c in range(ncols):
                n, v = f.val(); tags.append(n); row.append(['val', v])
            calls.append(['values_panic', row])
        f.pos.append(('values', tags))
    if f.opt('donothing'):
        calls.append(['on_conflict', {'target': ['cols', [cols[0]]], 'calls': [['do_nothing_on', [cols[0]]] if f.opt('dokeys') else ['do_nothing']]}])
    elif f.opt('conflict'):
        n, v = f.val()
        # a DO NOTHING requested first is replaced by the later update calls (the last action wins)
        first = [['do_nothing']] if f.opt('dnfirst') else []
        oc = {'target': ['cols', [cols[0]]], 'calls': first + [['update_column', cols[-1]], ['value', 'k_%d' % n, ['val', v]]]}
        if f.b != 'mysql' and f.opt('twhere'): oc['calls'].append(['target_and_where', f.cmp()])      # ON CONFLICT (..) WHERE <partial-index predicate>
        if f.b != 'mysql' and f.opt('cwhere'): oc['calls'].append(['action_and_where', f.cmp()])
        calls.append(['on_conflict', oc])
    if f.b != 'mysql' and f.opt('returning'): calls.append(['returning_exprs', [f.cmp()]])
    return {'k': 'insert', 'calls': calls}

UPDATE_TOGGLES = ['set2', 'from', 'where', 'order', 'limit', 'returning']

def update_family(f):
    calls = [['table', ['t', 't']]]
    n, v = f.val(); calls.append(['value', 'k_%d' % n, ['val', v]])
    if f.opt('set2'):
        n, v = f.val(); calls.append(['value', 'k_%d' % n, ['bin', 'Add', C('z'), ['val', v]]])
    if f.b != 'mysql' and f.opt('from'): calls.append(['from', ['t', 'o']])
    if f.b == 'mysql' and f.opt('upjoin'): calls.append(['from', ['t', 'o']])
    if f.opt('where'): calls.append(['and_where', f.cmp()])
    if f.b != 'postgres':
        if f.opt('order'): calls.append(['order_by', C('o'), 'Asc'])
        if f.opt('limit'):
            n, v = f.val(64, 'BigUnsigned'); f.pos.append(('limit', n)); calls.append(['limit', v['v']])
    if f.b != 'mysql' and f.opt('returning'): calls.append(['returning_exprs', [f.cmp()]])
    return {'k': 'update', 'calls': calls}

DELETE_TOGGLES = ['where', 'where2', 'order', 'limit', 'returning']

def delete_family(f):
    calls = [['from_table', ['t', 't']]]
    if f.opt('where'): calls.append(['and_where', f.cmp()])
    if f.opt('where2'): calls.append(['cond_where', ['any', True, [f.cmp(), f.cmp()]]])
    if f.b != 'postgres':
        if f.opt('order'): calls.append(['order_by', C('o'), 'Desc'])
        if f.opt('limit'):
            n, v = f.val(64, 'BigUnsigned'); f.pos.append(('limit', n)); calls.append(['limit', v['v']])
    if f.b != 'mysql' and f.opt('returning'): calls.append(['returning_exprs', [f.cmp()]])
    return {'k': 'delete', 'calls': calls}

WITH_TOGGLES = ['cte2', 'nested', 'recursive', 'kind', 'limit']

def with_family(f):
    c1 = f.small_select('a')
    if f.opt('nested'): c1['calls'].insert(0, ['with_cte', {'ctes': [{'name': 'deep', 'query': f.small_select('d')}]}])
    ctes = [{'name': 'cte1', 'query': c1}]
    if f.b != 'mysql':
        mk = f.pick('materialized', 3)
        if mk: ctes[0]['materialized'] = (mk == 1)      # MATERIALIZED / NOT MATERIALIZED
    if f.opt('cte2'): ctes.append({'name': 'cte2', 'cols': ['x'], 'query': f.small_select('b')})
    kind = f.pick('kind', 3)
    if kind == 0:
        q = {'k': 'select', 'calls': [['column', C('c')], ['from', ['t', 'cte1']], ['and_where', f.cmp()]]}
        if f.opt('limit'):
            n, v = f.val(64, 'BigUnsigned'); f.pos.append(('limit', n)); q['calls'].append(['limit', v['v']])
    elif kind == 1:
        n, v = f.val()
        q = {'k': 'update', 'calls': [['table', ['t', 't']], ['value', 'k_%d' % n, ['val', v]], ['and_where', ['m', 'in_subquery', C('id'), {'k': 'select', 'calls': [['column', C('s')], ['from', ['t', 'cte1']]]}]]]}
    else:
        q = {'k': 'delete', 'calls': [['from_table', ['t', 't']], ['and_where', f.cmp()]]}
    w = {'ctes': ctes, 'recursive': bool(f.opt('recursive'))}
    if f.b == 'postgres' and w['recursive']:
        if f.opt('search'): w['search'] = {'order': 'BREADTH', 'expr': C('sid'), 'alias': 'ordcol'}
        if f.opt('cycle'): w['cycle'] = {'expr': C('cid'), 'set': 'is_cycle', 'using': 'path'}
    return {'k': 'with', 'with': w, 'query': q}

FAMILIES = {
    # name: (generator, toggle groups for the quick tier, toggles of the thorough tier)
    'select': (select_family, [['distinct', 'valitem', 'case', 'cust', 'from', 'cte', 'funcs'], ['from', 'arity', 'vrows', 'join', 'w1', 'insub'], ['w2', 'group', 'having', 'join', 'jkind', 'jsub', 'w1'], ['w1', 'union', 'order', 'limit', 'offset', 'window'],
                               ['union', 'utype', 'ulimit', 'order', 'ordnulls', 'ordfunc', 'window', 'frame']],
               [SELECT_TOGGLES[:10], SELECT_TOGGLES[5:15], SELECT_TOGGLES[9:], ['valitem', 'cust', 'from', 'arity', 'w1', 'union', 'order', 'limit', 'offset', 'window'],
                ['from', 'union', 'utype', 'ulimit', 'order', 'ordnulls', 'ordfunc', 'window', 'frame', 'limit', 'offset'], ['cte', 'distinct', 'case', 'insub', 'group', 'having', 'union', 'utype', 'window', 'frame']]),
    'insert': (insert_family, [INSERT_TOGGLES], [INSERT_TOGGLES]),
    'update': (update_family, [UPDATE_TOGGLES], [UPDATE_TOGGLES]),
    'delete': (delete_family, [DELETE_TOGGLES], [DELETE_TOGGLES]),
    'with': (with_family, [WITH_TOGGLES], [WITH_TOGGLES]),
}

def build_family(e, name, backend, toggles):
    f = Fam(e, backend, toggles)
    st = FAMILIES[name][0](f)
    return st, f

# ---------------------------------------------------------------- reference scanners over built SQL text (concrete code points)
def scan_placeholders(sql, backend):
    """positions of placeholders outside quoted text: list of (start, end, number|None)"""
    out = []; i = 0; n = len(sql)
    s = sql
    while i < n:
        c = s[i]
        if c in (0x27, 0x22, 0x60):
            j = i + 1
            # backslash escapes inside string literals: MySQL always, PostgreSQL in E'..' strings
            bs = c == 0x27 and (backend == 'mysql' or (backend == 'postgres' and i > 0 and s[i-1] == 0x45))
            while j < n:
                if s[j] == 0x5c and bs: j += 2; continue
                if s[j] == c:
                    if j + 1 < n and s[j+1] == c: j += 2; continue
                    break
                j += 1
            i = j + 1; continue
        if backend == 'postgres':
            if c == 0x24 and i + 1 < n and 0x30 <= s[i+1] <= 0x39:
                j = i + 1; num = 0
                while j < n and 0x30 <= s[j] <= 0x39: num = num * 10 + s[j] - 0x30; j += 1
                out.append((i, j, num)); i = j; continue
        elif c == 0x3f:
            out.append((i, i + 1, None)); i += 1; continue
        i += 1
    return out

import re
def marker_of(text, start, end):
    """which value a placeholder at text[start:end] stands for: ('tag', n) | ('limit',) | ('offset',) | ('frame',) | ('values',) | None"""
    before = text[:start]; after = text[end:]
    m = re.search(r'[`"]?k_(\d+)[`"]? = $', before)
    if m: return ('tag', int(m.group(1)))
    m = re.match(r'( END\))? AS [`"]k_(\d+)[`"]', after)
    if m: return ('tag', int(m.group(2)))
    m = re.search(r'[`"]?k_(\d+)[`"]? = [`"]z[`"] \+ $', before)
    if m: return ('tag', int(m.group(1)))
    m = re.search(r'(?:IFNULL|COALESCE)\([`"]k_(\d+)[`"], $', before)
    if m: return ('tag', int(m.group(1)))
    if before.endswith('LIMIT '): return ('limit',)
    if before.endswith('OFFSET '): return ('offset',)
    if re.match(r' ?(PRECEDING|FOLLOWING)', after): return ('frame',)
    if re.search(r'(VALUES (ROW)?\(|, (ROW)?\(|\(|, )$', before) and re.match(r'(, |\))', after): return ('values',)
    return None
