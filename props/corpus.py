"""Concrete statement scripts used for translator validation (engine vs native build) - modelled on tests/*/query.rs"""
def V(t, v): return {'t': t, 'v': v}
def I(n): return ['val', V('Int', n)]
def S_(s): return ['val', V('String', s)]
def sel(*calls): return {'k': 'select', 'calls': [list(c) for c in calls]}
EQ = lambda a, b: ['bin', 'Equal', a, b]
C = lambda n: ['col', n]
ALL = lambda *m: ['all', False, list(m)]
ANY = lambda *m: ['any', False, list(m)]

STATEMENTS = [
 sel(['column', C('character')], ['column', C('size_w')], ['from', ['t', 'character']], ['limit', 10], ['offset', 100]),
 sel(['distinct'], ['column', ['tcol', 'glyph', 'image']], ['from', ['st', 's', 'glyph']], ['and_where', EQ(C('id'), I(1))], ['and_where', ['m', 'like', C('image'), 'A%', None]]),
 sel(['expr', ['func', 'max', [C('id')]]], ['expr_as', ['func', 'count', [['aster']]], 'n'], ['from', ['ta', 'character', 'c']], ['group_by', C('font_id')],
     ['and_having', ['bin', 'GreaterThan', ['func', 'max', [C('id')]], I(3)]], ['order_by', C('font_id'), 'Desc']),
 sel(['column', C('a')], ['from', ['t', 't']], ['join', 'LeftJoin', ['t', 'font'], ALL(EQ(['tcol', 't', 'font_id'], ['tcol', 'font', 'id']))],
     ['join', 'InnerJoin', ['ta', 'glyph', 'g'], ANY(EQ(['tcol', 'g', 'id'], I(2)), ['m', 'is_null', ['tcol', 'g', 'id']])]),
 sel(['column', C('a')], ['from', ['t', 't']], ['cond_where', ANY(EQ(C('x'), I(1)), ALL(EQ(C('y'), I(2)), ['m', 'is_in', C('z'), [I(3), I(4)]]))],
     ['cond_where', ['all', True, [EQ(C('w'), S_('q'))]]]),
 sel(['column', C('a')], ['from', ['t', 't']], ['order_by_nulls', C('a'), 'Asc', 'Last'], ['order_by_nulls', C('b'), 'Desc', 'First'], ['order_field', C('c'), [V('Int', 3), V('String', 'x')]]),
 sel(['column', C('a')], ['from', ['t', 't']], ['union', 'All', sel(['column', C('b')], ['from', ['t', 'u']], ['and_where', EQ(C('k'), I(5))])],
     ['union', 'Distinct', sel(['column', C('c')], ['from', ['t', 'v']], ['limit', 2])], ['limit', 7]),
 sel(['column', C('a')], ['from_subquery', sel(['column', C('a')], ['from', ['t', 'inner']], ['and_where', EQ(C('z'), I(9))]), 'sub'], ['and_where', ['m', 'in_subquery', C('a'), sel(['column', C('id')], ['from', ['t', 'ids']])]]),
 sel(['column', C('a')], ['from_values', [[V('Int', 1), V('String', 'x')], [V('Int', 2), V('String', 'y')]], 'v']),
 sel(['expr', ['case', [[ALL(EQ(C('a'), I(1))), S_('one')], [ANY(EQ(C('a'), I(2)), EQ(C('a'), I(3))), S_('few')]], S_('many')]], ['from', ['t', 't']]),
 sel(['expr', ['custv', 'a + ? * ?', [V('Int', 2), V('Int', 3)]]], ['expr', ['custe', '? || ?', [C('x'), S_('s')]]], ['from', ['t', 't']], ['and_where', ['cust', '1 = 1']]),
 sel(['column', C('a')], ['expr_window_as', ['func', 'sum', [C('b')]], {'calls': [['partition_by', C('c')], ['order_by', C('d'), 'Asc'], ['frame', 'Rows', 'UnboundedPreceding', 'CurrentRow']]}, 'w'], ['from', ['t', 't']]),
 sel(['column', C('a')], ['from', ['t', 't']], ['lock', 'Update']),
 sel(['column', C('a')], ['from', ['t', 't']], ['and_where', ['m', 'between', C('a'), I(1), ['bin', 'Add', C('b'), I(2)]]], ['and_where', ['m', 'not', ['subq', 'Exists', sel(['column', C('x')], ['from', ['t', 'u']])]]]),
 sel(['column', C('a')], ['from', ['t', 't']], ['with_cte', {'ctes': [{'name': 'cte', 'cols': ['x'], 'query': sel(['column', C('x')], ['from', ['t', 'src']], ['and_where', EQ(C('k'), I(1))])}]}]),
 {'k': 'insert', 'calls': [['into_table', ['t', 'glyph']], ['columns', ['aspect', 'image']], ['values_panic', [['val', V('Double', 0x4009_1EB8_51EB_851F)], S_('abc')]], ['values_panic', [I(2), ['kw', 'Null']]]]},
 {'k': 'insert', 'calls': [['into_table', ['t', 'glyph']], ['columns', ['aspect', 'image']], ['values', [I(1), S_('x')]], ['values', [I(1)]], ['returning_col', C('id')]]},
 {'k': 'insert', 'calls': [['into_table', ['t', 'glyph']], ['columns', ['a', 'b']], ['select_from', sel(['column', C('x')], ['column', C('y')], ['from', ['t', 'src']], ['and_where', EQ(C('k'), I(1))])]]},
 {'k': 'insert', 'calls': [['into_table', ['t', 'glyph']], ['columns', ['id', 'image']], ['values_panic', [I(1), S_('x')]],
                           ['on_conflict', {'target': ['cols', ['id']], 'calls': [['update_column', 'image'], ['value', 'n', ['bin', 'Add', C('n'), I(1)]], ['action_and_where', ['bin', 'GreaterThan', C('n'), I(0)]]]}], ['returning_all']]},
 {'k': 'insert', 'calls': [['into_table', ['t', 'glyph']], ['columns', ['id']], ['values_panic', [I(1)]], ['on_conflict', {'target': ['cols', ['id']], 'calls': [['do_nothing']]}]]},
 {'k': 'insert', 'calls': [['into_table', ['t', 'glyph']], ['or_default_values']]},
 {'k': 'insert', 'calls': [['replace'], ['into_table', ['t', 'glyph']], ['columns', ['id']], ['values_panic', [I(1)]]]},
 {'k': 'update', 'calls': [['table', ['t', 'glyph']], ['value', 'aspect', ['val', V('Int', 2)]], ['value', 'image', S_('x')], ['and_where', EQ(C('id'), I(1))], ['order_by', C('id'), 'Asc'], ['limit', 1]]},
 {'k': 'update', 'calls': [['table', ['t', 'glyph']], ['from', ['t', 'other']], ['value', 'aspect', ['tcol', 'other', 'aspect']], ['cond_where', ANY(EQ(['tcol', 'glyph', 'id'], ['tcol', 'other', 'id']), EQ(C('z'), I(3)))], ['returning_cols', [C('id'), C('aspect')]]]},
 {'k': 'delete', 'calls': [['from_table', ['t', 'glyph']], ['and_where', EQ(C('id'), I(1))], ['cond_where', ['any', True, [EQ(C('a'), I(2)), EQ(C('b'), I(3))]]], ['order_by', C('id'), 'Asc'], ['limit', 1], ['returning_all']]},
 {'k': 'with', 'with': {'recursive': True, 'ctes': [{'name': 'cte', 'cols': ['id', 'depth'], 'query': sel(['column', C('id')], ['expr', I(1)], ['from', ['t', 'table']],
        ['union', 'All', sel(['column', C('id')], ['expr', ['bin', 'Add', C('depth'), I(1)]], ['from', ['t', 'cte']], ['and_where', ['bin', 'SmallerThan', C('depth'), I(10)]])])}]},
  'query': sel(['column', ['aster']], ['from', ['t', 'cte']], ['and_where', ['bin', 'GreaterThan', C('depth'), I(2)]], ['limit', 5])},
 {'k': 'with', 'with': {'ctes': [{'name': 'a', 'query': sel(['column', C('x')], ['from', ['t', 't']]), 'materialized': True}, {'name': 'b', 'cols': ['y'], 'query': sel(['expr', I(7)])}]},
  'query': {'k': 'delete', 'calls': [['from_table', ['t', 'glyph']], ['and_where', ['m', 'in_subquery', C('id'), sel(['column', C('x')], ['from', ['t', 'a']])]]]}},
]
