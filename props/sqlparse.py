"""Reference expression parsers for MySQL 8.0, PostgreSQL 16 and SQLite 3.45 (operator precedence / associativity only).

Written from: MySQL 8.0 Reference Manual 14.4.1 "Operator Precedence" and the expr / bool_pri / predicate / bit_expr / simple_expr productions of
sql_yacc.yy; PostgreSQL 16 documentation table 4.2 and the a_expr / b_expr productions of gram.y; SQLite "SQL Language Expressions" (operator list) and
the %left/%right declarations of parse.y.  The parser is a precedence climber over a small token language - the subset the harnesses render."""
import re

class ParseError(Exception):
    pass

SYMS = ['<<<->', '<<->', '<->', '<<%', '<%', '->>', '->', '<=>', '<=', '>=', '<>', '!=', '==', '<<', '>>', '||', '&&', '@>', '<@', '@@', '~*', '!~*', '!~',
        '::', '=', '<', '>', '+', '-', '*', '/', '%', '&', '|', '~', '^', '(', ')', ',', '.']
OPCHARS = set('+-*/<>=~!@#%^&|')

def tokenize(s, dialect):
    toks = []; i = 0; n = len(s)
    idq = '`' if dialect == 'mysql' else '"'
    while i < n:
        c = s[i]
        if c in ' \t\n\r': i += 1; continue
        if c == idq or (dialect == 'sqlite' and c == '`'):
            j = i + 1; name = []
            while True:
                if j >= n: raise ParseError('unterminated identifier')
                if s[j] == c:
                    if j + 1 < n and s[j+1] == c: name.append(c); j += 2; continue
                    break
                name.append(s[j]); j += 1
            toks.append(('id', ''.join(name))); i = j + 1; continue
        if c == "'" or (c in 'Ee' and i + 1 < n and s[i+1] == "'" and dialect == 'postgres') or (c in 'xX' and i + 1 < n and s[i+1] == "'"):
            j = i + (2 if c != "'" else 1); esc = (dialect == 'mysql') or (c in 'Ee')
            while True:
                if j >= n: raise ParseError('unterminated string')
                if esc and s[j] == '\\': j += 2; continue
                if s[j] == "'":
                    if j + 1 < n and s[j+1] == "'": j += 2; continue
                    break
                j += 1
            toks.append(('str', s[i:j+1])); i = j + 1; continue
        if c == '"' and dialect == 'mysql':
            raise ParseError('double-quoted text in MySQL')
        if c.isdigit():
            m = re.compile(r'\d+(\.\d+)?([eE][+-]?\d+)?').match(s, i)
            toks.append(('num', m.group(0))); i = m.end(); continue
        if c == '?': toks.append(('ph', '?')); i += 1; continue
        if c == '$' and i + 1 < n and s[i+1].isdigit():
            m = re.compile(r'\$\d+').match(s, i); toks.append(('ph', m.group(0))); i = m.end(); continue
        if c.isalpha() or c == '_':
            m = re.compile(r'[A-Za-z_][A-Za-z0-9_]*').match(s, i)
            toks.append(('word', m.group(0).upper())); i = m.end(); continue
        for sym in SYMS:
            if s.startswith(sym, i):
                # a longer run of operator characters that is not a known symbol is a custom operator
                j = i
                while j < n and s[j] in OPCHARS: j += 1
                run = s[i:j]
                if run != sym and run not in SYMS and sym not in '(),.' and len(run) > len(sym):
                    toks.append(('sym', run)); i = j
                else:
                    toks.append(('sym', sym)); i += len(sym)
                break
        else:
            j = i
            while j < n and s[j] in OPCHARS: j += 1
            if j == i: raise ParseError('unexpected character %r' % c)
            toks.append(('sym', s[i:j])); i = j
    return toks

# binary operator tables: spelling -> (level, assoc)   assoc: 'L' left, 'N' non-associative
def table(dialect):
    if dialect == 'mysql':
        t = {'OR': (1, 'L'), '||': (1, 'L'), 'XOR': (2, 'L'), 'AND': (3, 'L'), '&&': (3, 'L'),
             '=': (6, 'L'), '<=>': (6, 'L'), '>=': (6, 'L'), '>': (6, 'L'), '<=': (6, 'L'), '<': (6, 'L'), '<>': (6, 'L'), '!=': (6, 'L'),
             'REGEXP': (7, 'N'), 'RLIKE': (7, 'N'),
             '|': (8, 'L'), '&': (9, 'L'), '<<': (10, 'L'), '>>': (10, 'L'), '+': (11, 'L'), '-': (11, 'L'),
             '*': (12, 'L'), '/': (12, 'L'), '%': (12, 'L'), 'DIV': (12, 'L'), 'MOD': (12, 'L'), '^': (13, 'L'), '->': (15, 'L'), '->>': (15, 'L')}
        return dict(bin=t, NOT=4, IS=6, PRED=7, UNARY=14)
    if dialect == 'postgres':
        t = {'OR': (1, 'L'), 'AND': (2, 'L'),
             '<': (5, 'N'), '>': (5, 'N'), '=': (5, 'N'), '<=': (5, 'N'), '>=': (5, 'N'), '<>': (5, 'N'), '!=': (5, 'N'),
             '+': (8, 'L'), '-': (8, 'L'), '*': (9, 'L'), '/': (9, 'L'), '%': (9, 'L'), '^': (10, 'L')}
        return dict(bin=t, NOT=3, IS=4, PRED=6, OTHER=7, UNARY=11)
    t = {'OR': (1, 'L'), 'AND': (2, 'L'),
         '=': (4, 'L'), '==': (4, 'L'), '<>': (4, 'L'), '!=': (4, 'L'), 'MATCH': (4, 'L'), 'REGEXP': (4, 'L'), 'GLOB': (4, 'L'),
         '<': (5, 'L'), '>': (5, 'L'), '<=': (5, 'L'), '>=': (5, 'L'),
         '&': (7, 'L'), '|': (7, 'L'), '<<': (7, 'L'), '>>': (7, 'L'), '+': (8, 'L'), '-': (8, 'L'), '*': (9, 'L'), '/': (9, 'L'), '%': (9, 'L'),
         '||': (10, 'L'), '->': (10, 'L'), '->>': (10, 'L')}
    return dict(bin=t, NOT=3, IS=4, PRED=4, UNARY=12)

LIKE_WORDS = {'mysql': {'LIKE'}, 'postgres': {'LIKE', 'ILIKE'}, 'sqlite': {'LIKE', 'GLOB_'}}
CANON = {'!=': '<>', '==': '='}

class Parser:
    def __init__(self, text, dialect):
        self.d = dialect; self.t = tokenize(text, dialect); self.i = 0; self.tab = table(dialect)
    def peek(self, k=0): return self.t[self.i + k] if self.i + k < len(self.t) else ('eof', '')
    def take(self):
        tk = self.peek(); self.i += 1; return tk
    def expect(self, kind, val=None):
        tk = self.take()
        if tk[0] != kind or (val is not None and tk[1] != val): raise ParseError('expected %s %s, found %r' % (kind, val or '', tk))
        return tk
    def at_word(self, w, k=0):
        tk = self.peek(k); return tk[0] == 'word' and tk[1] == w
    def at_sym(self, sy, k=0):
        tk = self.peek(k); return tk[0] == 'sym' and tk[1] == sy

    def parse(self):
        e = self.expr(0)
        if self.peek()[0] != 'eof': raise ParseError('unexpected %r after the expression' % (self.peek(),))
        return e

    # ---- binary operator lookup at the current position: returns (kind, name, level, assoc, ntokens) or None
    def binop(self):
        tk = self.peek(); tab = self.tab
        if tk[0] == 'word':
            w = tk[1]
            if w == 'NOT':
                nx = self.peek(1)
                if nx[0] == 'word' and nx[1] in ('LIKE', 'ILIKE', 'IN', 'BETWEEN', 'GLOB', 'REGEXP', 'MATCH'):
                    return ('pred', 'NOT ' + nx[1], tab['PRED'], 'N' if self.d != 'sqlite' else 'L', 2)
                return None
            if w in ('LIKE', 'ILIKE', 'IN', 'BETWEEN') or (self.d == 'sqlite' and w in ('GLOB', 'MATCH', 'REGEXP')) or (self.d == 'mysql' and w in ('REGEXP', 'RLIKE')):
                return ('pred', w, tab['PRED'], 'N' if self.d != 'sqlite' else 'L', 1)
            if w == 'IS':
                if self.at_word('NOT', 1): return ('is', 'IS NOT', tab['IS'], 'L' if self.d != 'postgres' else 'N', 2)
                return ('is', 'IS', tab['IS'], 'L' if self.d != 'postgres' else 'N', 1)
            if w in tab['bin']: return ('bin', w, tab['bin'][w][0], tab['bin'][w][1], 1)
            return None
        if tk[0] == 'sym':
            sy = tk[1]
            if sy in ('(', ')', ',', '.'): return None
            if sy == '::' and self.d == 'postgres': return ('cast', '::', 13, 'L', 1)
            if sy in tab['bin']: return ('bin', sy, tab['bin'][sy][0], tab['bin'][sy][1], 1)
            if self.d == 'postgres': return ('bin', sy, tab['OTHER'], 'L', 1)      # "any other operator"
            return ('custom', sy, None, None, 1)
        return None

    def expr(self, minlev, noand=False, b_expr=False):
        """parse an expression whose top operator has level >= minlev"""
        tab = self.tab
        tk = self.peek()
        if tk[0] == 'word' and tk[1] == 'NOT':
            if tab['NOT'] < minlev: raise ParseError('NOT is not allowed here without parentheses')
            if b_expr: raise ParseError('NOT is not allowed in this operand without parentheses')
            self.take()
            left = ('not', self.expr(tab['NOT'], noand))
        else:
            i0 = self.i
            left = self.unary()
            left_simple = not (self.t[i0][0] == 'sym' and self.t[i0][1] in ('-', '+', '~'))
        last_nonassoc = None; nops = 0
        while True:
            op = self.binop()
            if op is None: break
            kind, name, lev, assoc, ntok = op
            if kind == 'custom':
                if not (minlev == 0 and nops == 0 and left_simple):
                    raise ParseError('operator %s is unknown to the %s grammar: its operands and the expression itself need parentheses' % (name, self.d))
                self.i += ntok
                right = self.simple()
                if self.binop() is not None:
                    raise ParseError('operator %s is unknown to the %s grammar: its operands and the expression itself need parentheses' % (name, self.d))
                return ('bin', name, left, right)
            nops += 1
            if noand and name == 'AND': break
            if b_expr and (kind in ('pred', 'is') or name in ('AND', 'OR')): break
            if lev < minlev: break
            if assoc == 'N' and last_nonassoc == lev:
                raise ParseError('%s is non-associative in %s: a second operator of the same level needs parentheses' % (name, self.d))
            self.i += ntok
            if kind == 'cast':
                ty = self.take(); left = ('pgcast', left, ty[1]); continue
            if kind == 'is':
                neg = name == 'IS NOT'
                nx = self.peek()
                if nx[0] == 'word' and nx[1] in ('NULL', 'TRUE', 'FALSE', 'UNKNOWN'):
                    self.take(); left = ('is', neg, left, ('kw', nx[1]))
                elif self.d == 'sqlite':
                    right = self.expr(lev + 1); left = ('is', neg, left, right)
                else:
                    raise ParseError('IS must be followed by NULL / TRUE / FALSE / UNKNOWN in %s' % self.d)
                if assoc == 'N': last_nonassoc = lev
                continue
            if kind == 'pred':
                neg = name.startswith('NOT '); base = name[4:] if neg else name
                if base == 'BETWEEN':
                    if self.d == 'mysql':
                        lo = self.expr(lev + 1); self.expect('word', 'AND'); hi = self.expr(lev)
                    elif self.d == 'postgres':
                        lo = self.expr(5, b_expr=True); self.expect('word', 'AND'); hi = self.expr(lev + 1)
                    else:
                        lo = self.expr(3, noand=True); self.expect('word', 'AND'); hi = self.expr(lev + 1)
                    left = ('between', neg, left, lo, hi)
                elif base == 'IN':
                    self.expect('sym', '(')
                    if self.at_word('SELECT') or self.at_word('WITH') or self.at_word('VALUES'):
                        rhs = ('subq', self.raw_until_close())
                    else:
                        items = []
                        if not self.at_sym(')'):
                            items.append(self.expr(0))
                            while self.at_sym(','): self.take(); items.append(self.expr(0))
                        self.expect('sym', ')')
                        rhs = ('tuple', items)
                    left = ('in', neg, left, rhs)
                else:
                    if self.d == 'mysql': pat = self.simple()
                    else: pat = self.expr(lev + 1)
                    esc = None
                    if self.at_word('ESCAPE'):
                        self.take()
                        esc = self.simple() if self.d == 'mysql' else self.expr((lev + 1) if self.d == 'postgres' else 7)
                    left = ('like', base, neg, left, pat, esc)
                if assoc == 'N': last_nonassoc = lev
                continue
            # ordinary binary operator
            if self.d == 'mysql' and lev >= 8:
                right = self.expr(lev + 1)
            else:
                right = self.expr(lev + 1, noand, b_expr)
            left = ('bin', CANON.get(name, name), left, right)
            if assoc == 'N': last_nonassoc = lev
        return left

    def unary(self):
        tk = self.peek()
        if tk[0] == 'sym' and tk[1] in ('-', '+', '~'):
            self.take(); return ('neg', tk[1], self.expr(self.tab['UNARY']))
        return self.postfix(self.simple())

    def postfix(self, e):
        return e

    def raw_until_close(self):
        """raw token text up to the matching ')' (consumed)"""
        depth = 1; out = []
        while True:
            tk = self.take()
            if tk[0] == 'eof': raise ParseError('unbalanced parentheses')
            if tk[0] == 'sym' and tk[1] == '(': depth += 1
            elif tk[0] == 'sym' and tk[1] == ')':
                depth -= 1
                if depth == 0: return ' '.join(out)
            out.append(tk[1] if tk[0] != 'id' else '"%s"' % tk[1])

    def simple(self):
        tk = self.take()
        k, v = tk
        if k == 'id':
            parts = [v]
            while self.at_sym('.'):
                self.take(); nx = self.take()
                if nx[0] == 'id': parts.append(nx[1])
                elif nx[0] == 'sym' and nx[1] == '*': parts.append('*')
                else: raise ParseError('bad qualified name')
            return ('col', '.'.join(parts))
        if k == 'num': return ('num', v)
        if k == 'str': return ('str', v)
        if k == 'ph': return ('ph', v)
        if k == 'sym' and v == '*': return ('col', '*')
        if k == 'sym' and v == '(':
            if self.at_word('SELECT') or self.at_word('WITH') or self.at_word('VALUES'):
                return ('subq', None, self.raw_until_close())
            e = self.expr(0)
            if self.at_sym(','):
                items = [e]
                while self.at_sym(','): self.take(); items.append(self.expr(0))
                self.expect('sym', ')')
                return ('tuple', items)
            self.expect('sym', ')')
            return e
        if k == 'word':
            if v in ('NULL', 'TRUE', 'FALSE', 'CURRENT_DATE', 'CURRENT_TIME', 'CURRENT_TIMESTAMP', 'DEFAULT'): return ('kw', v)
            if v == 'CASE':
                whens = []
                while self.at_word('WHEN'):
                    self.take(); c = self.expr(0); self.expect('word', 'THEN'); t = self.expr(0); whens.append((c, t))
                els = None
                if self.at_word('ELSE'): self.take(); els = self.expr(0)
                self.expect('word', 'END')
                return ('case', whens, els)
            if v == 'CAST':
                self.expect('sym', '('); x = self.expr(0); self.expect('word', 'AS')
                ty = []
                depth = 0
                while not (self.at_sym(')') and depth == 0):
                    tk2 = self.take()
                    if tk2[0] == 'eof': raise ParseError('unterminated CAST')
                    if tk2[0] == 'sym' and tk2[1] == '(': depth += 1
                    if tk2[0] == 'sym' and tk2[1] == ')': depth -= 1
                    ty.append(tk2[1])
                self.expect('sym', ')')
                return ('cast', x, ' '.join(ty))
            if v in ('EXISTS', 'ANY', 'SOME', 'ALL') and self.at_sym('('):
                self.take()
                return ('subq', v, self.raw_until_close())
            if self.at_sym('('):
                self.take(); args = []
                if self.at_word('DISTINCT'): self.take(); args.append(('kw', 'DISTINCT'))
                if not self.at_sym(')'):
                    args.append(self.expr(0))
                    while self.at_sym(','): self.take(); args.append(self.expr(0))
                self.expect('sym', ')')
                return ('func', v, args)
            return ('kw', v)
        raise ParseError('unexpected %r' % (tk,))

def parse(text, dialect):
    return Parser(text, dialect).parse()
