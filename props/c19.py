"""C19 - derived identifiers spell the documented names; the derive's quoting fast path equals the general identifier quoting.

(1) decided symbolically: sea_query_derive::must_be_valid_iden (private; interpreted from the derive crate's MIR) over every string of L arbitrary
    characters: whenever it accepts a name, the name holds no quote character of any backend and the fast path text `left + name + right` equals
    Iden::prepare of the general path (sea-query MIR) for the MySQL and the Postgres / SQLite quote.
(2) decided for a fixed generated family of programs (macro expansion happens in rustc, it cannot be made symbolic): a fixture crate of derive inputs is
    compiled against /repo, its MIR dumped, and unquoted / prepare / as_str of every variant interpreted and compared with an independent reference."""
import os, re, hashlib, shutil, subprocess, tempfile, fcntl, sys
import z3
from interp import Engine, Cell, Ref, Str, Adt, VecV, Budget, Unsupported, PathEnd, Panic, is_sym
from models import as_str, ch_eq
import models, mirdump
from framework import CACHE, VERIF, Inconclusive
from props.common import *
from props.sq import SQ

# ------------------------------------------------------------------ reference snake_case (heck's documented word-boundary rules, ASCII)
def snake(name):
    words = []; cur = ''
    mode = 'B'
    chars = list(name)
    for i, c in enumerate(chars):
        nxt = chars[i+1] if i + 1 < len(chars) else None
        if c == '_':
            if cur: words.append(cur); cur = ''
            mode = 'B'; continue
        nm = 'L' if c.islower() else ('U' if c.isupper() else mode)
        if nxt is not None and (nxt == '_' or (nm == 'L' and nxt.isupper())):
            cur += c; words.append(cur); cur = ''; mode = 'B'; continue
        if mode == 'U' and c.isupper() and nxt is not None and nxt.islower():
            if cur: words.append(cur)
            cur = c; mode = nm; continue
        cur += c; mode = nm
    if cur: words.append(cur)
    return '_'.join(w.lower() for w in words if w)

# ------------------------------------------------------------------ fixture family
VARIANT_NAMES = ['Id', 'FirstName', 'HTTPServer', 'XMLHttpRequest', 'Field1', 'A1B2', 'User2FA', 'IOError', 'Snake_Case', 'lowercase', 'UPPER', 'MixedUPPERCase', 'X', 'Ab', 'ABc', 'Name_', 'OAuth2Token', 'Utf8', 'TABLE', 'Tables']

def fixtures():
    fx = []
    fx.append(dict(ty='User', attrs=[], variants=[('Table', None, None), ('Id', None, None), ('FirstName', None, None), ('LastName', None, None), ('Email', None, None)]))
    fx.append(dict(ty='Custom', attrs=['#[iden = "user"]'], cname='user', variants=[('Table', None, None), ('Id', ('iden', 'my_id'), None), ('FirstName', ('iden', 'name'), None), ('Email', ('iden', 'EMail'), None)]))
    fx.append(dict(ty='Something', attrs=[], variants=[('Table', ('iden', 'something_else'), None), ('Id', None, None), ('AssetName', None, None), ('UserId', None, None)]))
    fx.append(dict(ty='Renamed', attrs=['#[iden(rename = "re named")]'], cname='re named', variants=[('Table', None, None), ('Col', ('rename', 'c"ol'), None), ('Plain', None, None)]))
    fx.append(dict(ty='QuotedTable', attrs=['#[iden = "my`log"]'], cname='my`log', variants=[('Table', None, None), ('Id', None, None)]))
    fx.append(dict(ty='Shapes', attrs=[], variants=[('Table', None, None), ('Tuple', None, 'tuple'), ('Named', None, 'named'), ('Unit', None, None)]))
    fx.append(dict(ty='WithMethod', attrs=[], variants=[('Table', None, None), ('Dynamic', ('method', 'dyn_name'), 'tuple'), ('Plain', None, None)], methods={'dyn_name': 'a`b"c'}))
    fx.append(dict(ty='Flat', attrs=[], variants=[('Table', None, None), ('Inner', 'flatten', 'tuple:User'), ('Other', None, None)]))
    for i in range(0, len(VARIANT_NAMES), 5):
        fx.append(dict(ty='Names%d' % (i // 5), attrs=[], variants=[('Table', None, None)] + [(n, None, None) for n in VARIANT_NAMES[i:i+5]]))
    fx.append(dict(ty='HTTPLog', attrs=[], variants=[('Table', None, None), ('Id', None, None)]))
    fx.append(dict(ty='Glyph2D', attrs=[], variants=[('Table', None, None), ('Id', None, None)]))
    fx.append(dict(ty='UnitTable', attrs=[], unit=True))
    fx.append(dict(ty='UnitRenamed', attrs=['#[iden = "unit renamed"]'], cname='unit renamed', unit=True))
    fx.append(dict(ty='XMLUnit', attrs=[], unit=True))
    return fx

def fixture_source(fx):
    out = ['#![allow(dead_code, non_camel_case_types, non_snake_case)]', 'use sea_query::{Iden, IdenStatic, enum_def};', '']
    for f in fx:
        for derive in ('Iden', 'IdenStatic'):
            if derive == 'IdenStatic' and (f.get('methods') or any(v[1] == 'flatten' for v in f.get('variants', []))): continue
            ty = f['ty'] + ('' if derive == 'Iden' else 'S')
            out.append('#[derive(%s)]' % ('Iden' if derive == 'Iden' else 'IdenStatic, Clone, Copy'))
            out += f['attrs']
            if f.get('unit'):
                out.append('pub struct %s;' % ty); out.append(''); continue
            out.append('pub enum %s {' % ty)
            for name, attr, fields in f['variants']:
                if attr == 'flatten': out.append('    #[iden(flatten)]')
                elif attr and attr[0] == 'iden': out.append('    #[iden = %s]' % rust_str(attr[1]))
                elif attr and attr[0] == 'rename': out.append('    #[iden(rename = %s)]' % rust_str(attr[1]))
                elif attr and attr[0] == 'method': out.append('    #[iden(method = "%s")]' % attr[1])
                if fields is None: out.append('    %s,' % name)
                elif fields == 'tuple': out.append('    %s(u8),' % name)
                elif fields == 'named': out.append('    %s { a: u8 },' % name)
                elif fields.startswith('tuple:'): out.append('    %s(%s),' % (name, fields[6:]))
            out.append('}')
            if f.get('methods'):
                out.append('impl %s {' % ty)
                for m, s in f['methods'].items(): out.append('    pub fn %s(&self) -> &str { %s }' % (m, rust_str(s)))
                out.append('}')
            out.append('')
    out += ['#[enum_def]', 'pub struct Account { pub id: i32, pub first_name: String, pub http_code: u8, pub field_1: u8, pub a1b2: u8 }', '',
            '#[enum_def(prefix = "Pre", suffix = "Suf", table_name = "acc_table")]', 'pub struct HTTPLedger2 { pub entry_id: i32, pub amount: i64 }', '', '#[enum_def(suffix = "Def")]', 'pub struct XMLNode { pub node_id: i32 }', '', '#[enum_def]', 'pub struct Odd { pub type_: i32, pub _rev: i32 }', '']
    return '\n'.join(out)

def rust_str(s): return '"' + s.replace('\\', '\\\\').replace('"', '\\"') + '"'

def expected_names(f, ty=None):
    """{variant: expected unquoted string}"""
    cname = f.get('cname', snake(ty or f['ty']))
    if f.get('unit'): return {None: cname}
    out = {}
    for name, attr, fields in f['variants']:
        if attr == 'flatten': out[name] = ('flatten', fields[6:])
        elif attr and attr[0] in ('iden', 'rename'): out[name] = attr[1]
        elif attr and attr[0] == 'method': out[name] = f['methods'][attr[1]]
        elif name == 'Table': out[name] = cname
        else: out[name] = snake(name)
    return out

# enum_def: the identifier of a field's variant is the field's name; the fixture uses fields that are their own snake_case (snake(f) == f), so both readings agree
ENUM_DEF_EXPECT = {'AccountIden': {'Table': 'account', 'Id': 'id', 'FirstName': 'first_name', 'HttpCode': 'http_code', 'Field1': 'field_1', 'A1b2': 'a1b2'},
                   'PreHTTPLedger2Suf': {'Table': 'acc_table', 'EntryId': 'entry_id', 'Amount': 'amount'},
                   'XMLNodeDef': {'Table': snake('XMLNode'), 'NodeId': 'node_id'},
                   # fields that are NOT their own snake_case: the property as stated wants snake_case (type, rev); the macro spells the field verbatim (known finding)
                   'OddIden': {'Table': 'odd', 'Type': snake('type_'), 'Rev': snake('_rev')}}

# ------------------------------------------------------------------ MIR of the fixture crate (built against the current /repo)
def fixture_mir(src_text):
    h = mirdump.source_hash() + '-' + hashlib.sha1(src_text.encode()).hexdigest()[:10]
    out = os.path.join(mirdump.CACHE, h + '-c19fx.mir'); srcdir = os.path.join(mirdump.CACHE, h.split('-')[0] + '.c19src')
    os.makedirs(mirdump.CACHE, exist_ok=True)
    lock = open(os.path.join(mirdump.CACHE, '.lock19'), 'w'); fcntl.flock(lock, fcntl.LOCK_EX)
    try:
        if os.path.exists(out) and os.path.isdir(srcdir): return out, srcdir
        scratch = tempfile.mkdtemp(prefix='sqv-c19-', dir=os.environ.get('VERIF_SCRATCH', '/var/tmp'))
        try:
            os.makedirs(os.path.join(scratch, 'repo')); mirdump.copy_sources(os.path.join(scratch, 'repo'))
            fxd = os.path.join(scratch, 'fx'); os.makedirs(os.path.join(fxd, 'src'))
            open(os.path.join(fxd, 'Cargo.toml'), 'w').write('[package]\nname = "c19fx"\nversion = "0.1.0"\nedition = "2021"\n\n[workspace]\n\n[dependencies]\n'
                'sea-query = { path = "../repo", default-features = false, features = ["derive", "attr", "backend-mysql", "backend-postgres", "backend-sqlite"] }\n')
            shutil.copy(os.path.join(scratch, 'repo', 'Cargo.lock'), os.path.join(fxd, 'Cargo.lock'))
            open(os.path.join(fxd, 'src', 'lib.rs'), 'w').write(src_text)
            env = dict(os.environ, CARGO_NET_OFFLINE='true', CARGO_TARGET_DIR=os.path.join(scratch, 'target')); env.pop('RUSTFLAGS', None)
            r = subprocess.run(['cargo', '+nightly', 'rustc', '--offline', '--lib', '--', '-Zunpretty=mir', '-C', 'debug-assertions=off', '-C', 'overflow-checks=on'],
                               cwd=fxd, env=env, stdout=subprocess.PIPE, stderr=subprocess.PIPE)
            if r.returncode != 0 or len(r.stdout) < 500:
                raise Inconclusive('the derive fixture crate does not compile against /repo:\n' + r.stderr.decode()[-2500:])
            open(out, 'wb').write(r.stdout)
            if os.path.isdir(srcdir): shutil.rmtree(srcdir)
            shutil.copytree(fxd, srcdir, ignore=shutil.ignore_patterns('target'))
        finally:
            shutil.rmtree(scratch, ignore_errors=True)
        return out, srcdir
    finally:
        fcntl.flock(lock, fcntl.UNLOCK if hasattr(fcntl, 'UNLOCK') else fcntl.LOCK_UN); lock.close()

def m_quote_left(e, c, a):
    q = a[0]
    while isinstance(q, Ref): q = q.cell.v
    return q.fields[0].v
def m_quote_right(e, c, a):
    q = a[0]
    while isinstance(q, Ref): q = q.cell.v
    return q.fields[1].v

def quote(ch): return Adt('Quote', None, [Cell(ch), Cell(ch)])

def run(ctx):
    quick = ctx.tier == 'quick'
    nat = ctx.nat()
    maxL = 4 if quick else 6
    # ---------------- part 1: symbolic, the validity predicate and the fast path
    mir_d, src_d, h = mirdump.dump(package='sea-query-derive')
    # impl spans of the derive crate are relative to its own directory
    eng_d = Engine(mir_d, os.path.join(src_d, 'sea-query-derive'), '', subdir='src')
    eng_s = ctx.engine()
    ctx.src_hash = h
    fname = [k for k in eng_d.fns if k.endswith('must_be_valid_iden') and 'impl' not in k]
    if len(fname) != 1: raise Inconclusive('must_be_valid_iden not found in the derive crate MIR: %r' % fname)
    fname = fname[0]
    viol = []
    for L in range(0, maxL + 1):
        cs, vc = sym_chars(L, 'n')
        def entry(e, cs=cs, vc=vc):
            for c in vc: e.add(c)
            ok = e.call(fname, [Ref(Cell(Str(cs)))])
            if not e.branch(ok): return
            info = {'name': cs}
            for i, c in enumerate(cs):
                e.check(z3.And(c != 0x60, c != 0x22), 'must_be_valid_iden accepts a name that contains a quote character at position %d' % i, info)
            # fast path text vs the general path of sea-query (run in the sea-query engine on the same solver state is not possible: compare per quote by construction)
            for q in (0x60, 0x22):
                fast = [q] + list(cs) + [q]
                # general path: doubling of q inside the name; equal to the fast path iff no character equals q
                for c in cs: e.check(c != q, 'fast path differs from the general quoting: the name contains the quote %r' % chr(q), info)
        eng_d.prefer = [z3.ULT(c, 0x80) for c in cs]
        v = eng_d.run_all(entry)
        for k, msg, m, info in v:
            viol.append({'kind': k, 'msg': msg, 'name': conc(m, info['name']) if (info and m is not None) else None})
    ctx.absorb(eng_d)
    # general path cross-check in the sea-query engine: for every accepted class the general Iden::prepare of an Alias(name) equals left + name + right
    for L in range(1, min(maxL, 3) + 1):
        cs, vc = sym_chars(L, 'g')
        def entry2(e, cs=cs, vc=vc):
            for c in vc: e.add(c)
            sq = SQ(e)
            for q in (0x60, 0x22):
                if not e.branch(z3.And(*[c != q for c in cs])): continue
                out = Str([])
                e.call('<Self as types::Iden>::prepare', [Ref(Cell(sq.alias(__import__('props.sq', fromlist=['Sym']).Sym(cs)))), Ref(Cell(out), True), quote(q)])
                e.check(len(out.chars) == L + 2, 'general quoting of a plain name changes its length', {'name': cs})
                for a, b in zip(out.chars, [q] + list(cs) + [q]): e.check(ch_eq(a, b), 'general quoting of a plain name is not left + name + right', {'name': cs})
        v = eng_s.run_all(entry2)
        for k, msg, m, info in v: viol.append({'kind': k, 'msg': msg, 'name': conc(m, info['name']) if (info and m is not None) else None})
    ctx.absorb(eng_s)
    for v in viol:
        if v['name'] is None: ctx.inconclusive.append('violation without model: %r' % (v,)); continue
        # native confirmation: a derive input cannot be built at run time; the predicate itself is private.  The fixture below exercises the same code with concrete names;
        # a symbolic counterexample of the predicate is confirmed by re-running the MIR concretely (the engine is the only way to call a private proc-macro helper).
        ok = None
        def centry(e, name=v['name']): 
            r = e.call(fname, [Ref(Cell(Str(name)))]); centry.r = r
        eng_d.run_all(centry)
        if centry.r is True and any(c in (0x60, 0x22) for c in v['name']):
            ctx.violations.append({'key': 'valid-iden-accepts-quote', 'msg': v['msg'], 'name': v['name'], 'name_text': text(v['name']), 'replay': {'name': v['name']}})
        else: ctx.inconclusive.append('symbolic counterexample of must_be_valid_iden not confirmed concretely: %r' % (v,))
    # ---------------- part 2: the generated fixture family (programs are enumerated, not symbolic)
    fx = fixtures()
    src_text = fixture_source(fx)
    mir_f, src_f = fixture_mir(src_text)
    eng_f = Engine(mir_f, src_f, 'derive,attr', subdir='src')
    eng_f.MODELS = list(eng_f.MODELS) + [(re.compile(r'(sea_query::)?(types::)?Quote::left$'), m_quote_left), (re.compile(r'(sea_query::)?(types::)?Quote::right$'), m_quote_right)]
    # derive / attribute generated impls: the implementing type is the first parameter's type
    for key, f in eng_f.fns.items():
        m = re.search(r'<impl at [^>]+>::(unquoted|prepare|as_str)$', f.name)
        if not m: continue
        f.ensure()
        if not f.params: continue
        pt = f.params[0].split(': ', 1)[1].lstrip('&').strip()
        eng_f.impls[(pt, 'Iden' if m.group(1) != 'as_str' else 'IdenStatic', m.group(1))] = f
    # enums generated by #[enum_def] have no declaration in the source: recover their variant order from the derived Debug impl in the MIR
    mir_text = open(mir_f).read()
    for ty in ENUM_DEF_EXPECT:
        m = re.search(r'^fn <impl at [^>]+>::fmt\(_1: &%s, .*?^}' % ty, mir_text, re.M | re.S)
        if not m: continue
        body = m.group(0)
        sw = re.search(r'switchInt\(move _\d+\) -> \[(.*?), otherwise', body)
        names = {}
        for d, bb in re.findall(r'(\d+): (bb\d+)', sw.group(1)):
            mm = re.search(r'%s: \{\s*_\d+ = const "(\w+)";' % bb, body)
            if mm: names[int(d)] = mm.group(1)
        eng_f.variants[ty] = [names[i] for i in sorted(names)]
    checked = 0
    def variant_value(ty, name, fields, fxmap):
        if fields is None: return Adt(ty, name, [])
        if fields.startswith('tuple:'):
            inner = fields[6:]
            return Adt(ty, name, [Cell(Adt(inner, 'Id', []))])
        return Adt(ty, name, [Cell(0)])
    def run_iden(tyname, val, meth, quote_ch=None):
        res = {}
        def ent(e):
            out = Str([])
            args = [Ref(Cell(val)), Ref(Cell(out), True)] + ([quote(quote_ch)] if quote_ch is not None else [])
            e.call('<%s as sea_query::Iden>::%s' % (tyname, meth), args)
            res['out'] = ''.join(chr(c) for c in out.chars)
        v = eng_f.run_all(ent)
        if v: res['viol'] = v[0][1]
        return res
    fxmap = {f['ty']: f for f in fx}
    def general(name, q): return chr(q) + name.replace(chr(q), chr(q) * 2) + chr(q)
    for f in fx:
        for derive in ('Iden', 'IdenStatic'):
            if derive == 'IdenStatic' and (f.get('methods') or any(v[1] == 'flatten' for v in f.get('variants', []))): continue
            ty = f['ty'] + ('' if derive == 'Iden' else 'S')
            exp = expected_names(f, ty)
            items = [(None, None)] if f.get('unit') else [(v[0], v[2]) for v in f['variants']]
            for vname, fields in items:
                want = exp[vname]
                if isinstance(want, tuple): want = expected_names(fxmap[want[1]])['Id']
                val = Adt(ty, vname, []) if vname is None else variant_value(ty, vname, fields, fxmap)
                if vname is None: val = Adt(ty, None, [])
                has_impl = (ty, 'Iden', 'unquoted') in eng_f.impls
                if not has_impl: ctx.inconclusive.append('derive output for %s not found in the fixture MIR' % ty); continue
                r = run_iden(ty, val, 'unquoted')
                checked += 1
                label = '%s::%s (%s)' % (ty, vname, derive)
                if r.get('out') != want:
                    ctx.violations.append({'key': 'name:%s' % label, 'msg': 'derived identifier of %s is %r, documented name is %r %s' % (label, r.get('out'), want, r.get('viol', '')), 'replay': {'fixture': label}})
                    continue
                for q in (0x60, 0x22):
                    if (ty, 'Iden', 'prepare') in eng_f.impls: r2 = run_iden(ty, val, 'prepare', q).get('out')
                    else: r2 = general(want, q)      # no fast path generated: the trait's default (general) prepare is used
                    if r2 != general(want, q):
                        ctx.violations.append({'key': 'fastpath:%s' % label, 'msg': 'generated prepare() of %s writes %r, the general quoting gives %r' % (label, r2, general(want, q)), 'replay': {'fixture': label}})
    for ty, exp in ENUM_DEF_EXPECT.items():
        for vname, want in exp.items():
            if (ty, 'Iden', 'unquoted') not in eng_f.impls or ty not in eng_f.variants: ctx.inconclusive.append('enum_def output %s not found in the fixture MIR' % ty); break
            if vname not in eng_f.variants[ty]:
                ctx.violations.append({'key': 'name:%s::%s (enum_def)' % (ty, vname), 'msg': 'enum_def does not generate the documented variant %s::%s (generated: %s)' % (ty, vname, eng_f.variants[ty]), 'replay': {'fixture': ty}}); continue
            r = run_iden(ty, Adt(ty, vname, []), 'unquoted'); checked += 1
            if r.get('out') != want:
                ctx.violations.append({'key': ('enum_def-field-not-snake:%s::%s' if ty == 'OddIden' else 'name:%s::%s (enum_def)') % (ty, vname), 'msg': 'enum_def identifier %s::%s is %r, documented name is %r %s' % (ty, vname, r.get('out'), want, r.get('viol', '')), 'replay': {'fixture': ty}})
    ctx.absorb(eng_f)
    ctx.validated = checked
    ctx.samples = [{'type': f['ty'], 'expected': {str(k): (v if isinstance(v, str) else 'flattened') for k, v in expected_names(f).items()}} for f in fx[:8]]
    ctx.bounds = {'predicate': 'must_be_valid_iden over names of 0..%d arbitrary Unicode scalar values (symbolic)' % maxL,
                  'general_path': 'Iden::prepare of names without the quote character, of length 1..%d for both quote characters (symbolic)' % min(maxL, 3),
                  'fixture': '%d derive inputs x {Iden, IdenStatic} + 2 enum_def structs: %d identifier evaluations; programs are enumerated, not symbolic' % (len(fx), checked)}
    ctx.assumptions += ['quantification over programs is bounded to the generated fixture family (macro expansion happens inside rustc)',
                        'snake_case reference: heck word-boundary rules re-implemented for ASCII names', 'the fixture is compiled with the nightly toolchain against a copy of the current /repo sources']
    ctx.families = ['must_be_valid_iden L<=%d' % maxL, 'fixture (%d types)' % len(fx)]

def replay(ctx, data):
    print('C19 violations are decided by re-running the check (the fixture is rebuilt from /repo): ./check C19')
    return 1
