"""C05 - rendered expressions re-parse (with the target engine's precedence and associativity) to the tree that was built.

Exec (MIR of the current tree): prepare_simple_expr[_common], binary_expr, the precedence / left-associativity deciders of the three backends,
Oper::is_*, prepare_bin_oper[_common], prepare_un_oper, function / tuple / CASE / CAST rendering, and the ExprTrait encodings
(between, like+escape, is_in, cast_as, not, is_null) run from their MIR.
Sym: every plain binary operator is a symbolic discriminant over the 17 field-less arithmetic / comparison / logical / bit operators; tree shapes
are chosen by the harness (e.choose) and explored exhaustively.  Oracle: props/sqlparse.py (reference precedence-climbing parsers)."""
import z3, itertools
from interp import Cell, Ref, Str, Adt, VecV, SymEnum, Budget, Unsupported, PathEnd, is_sym
from models import as_str
from framework import model_int
from props.common import *
from props.sq import SQ, to_json
from props import sqstmt
from props.sqlparse import parse, ParseError

ENG = None
def V(t, v): return {'t': t, 'v': v}
PLAIN = ['And', 'Or', 'Equal', 'NotEqual', 'SmallerThan', 'GreaterThan', 'SmallerThanOrEqual', 'GreaterThanOrEqual', 'Add', 'Sub', 'Mul', 'Div', 'Mod',
         'BitAnd', 'BitOr', 'LShift', 'RShift']
SPELL = {'And': 'AND', 'Or': 'OR', 'Equal': '=', 'NotEqual': '<>', 'SmallerThan': '<', 'GreaterThan': '>', 'SmallerThanOrEqual': '<=', 'GreaterThanOrEqual': '>=',
         'Add': '+', 'Sub': '-', 'Mul': '*', 'Div': '/', 'Mod': '%', 'BitAnd': '&', 'BitOr': '|', 'LShift': '<<', 'RShift': '>>'}
PG = {'pg:Matches': '@@', 'pg:Contains': '@>', 'pg:Contained': '<@', 'pg:Concatenate': '||', 'pg:Overlap': '&&', 'pg:Similarity': '%', 'pg:WordSimilarity': '<%',
      'pg:SimilarityDistance': '<->', 'pg:GetJsonField': '->', 'pg:CastJsonField': '->>', 'pg:Regex': '~', 'pg:RegexCaseInsensitive': '~*', 'pg:ILike': 'ILIKE', 'pg:NotILike': 'NOT ILIKE'}
SQLITE = {'sqlite:Glob': 'GLOB', 'sqlite:Match': 'MATCH', 'sqlite:GetJsonField': '->', 'sqlite:CastJsonField': '->>'}

class SymOp:
    """a plain binary operator whose variant is a solver term"""
    def __init__(self, term, variants): self.term = term; self.variants = variants
    def name(self, m): return self.variants[model_int(m, self.term)]

def leaves():
    n = [0]
    def col():
        n[0] += 1; return ['col', 'c%d' % n[0]]
    return col

# ---- shapes: a shape is a function(col, ops) -> script tree, where ops() yields a fresh symbolic plain operator
KINDS = ['bin', 'between', 'not_between', 'like', 'not_like', 'like_esc', 'is_in', 'is_not_in', 'is_null', 'is_not_null', 'cast_as', 'not', 'func', 'tuple2', 'case',
         'pgop', 'sqliteop', 'custom', 'as_enum']
ARITY = {'bin': 2, 'between': 3, 'not_between': 3, 'like': 1, 'not_like': 1, 'like_esc': 1, 'is_in': 2, 'is_not_in': 2, 'is_null': 1, 'is_not_null': 1, 'cast_as': 1,
         'not': 1, 'func': 1, 'tuple2': 2, 'case': 2, 'pgop': 2, 'sqliteop': 2, 'custom': 2, 'as_enum': 1}

def mk(kind, kids, newop, extra=None):
    if kind == 'bin': return ['bin', newop(), kids[0], kids[1]]
    if kind in ('between', 'not_between'): return ['m', kind, kids[0], kids[1], kids[2]]
    if kind in ('like', 'not_like'): return ['m', kind, kids[0], 'a%', None]
    if kind == 'like_esc': return ['m', 'like', kids[0], 'a!%', 0x21]
    if kind in ('is_in', 'is_not_in'): return ['m', kind, kids[0], [kids[1], ['val', V('Int', 9)]]]
    if kind in ('is_null', 'is_not_null', 'not'): return ['m', kind, kids[0]]
    if kind == 'cast_as': return ['m', 'cast_as', kids[0], 'integer']
    if kind == 'as_enum': return ['m', 'as_enum', kids[0], 'ety']      # Postgres: CAST(x AS "ety"); MySQL / SQLite: the bare operand (the node is transparent)
    if kind == 'func': return ['func', 'max', [kids[0]]]
    if kind == 'tuple2': return ['tuple', [kids[0], kids[1]]]
    if kind == 'case': return ['case', [[kids[0], kids[1]]], ['val', V('Int', 0)]]
    if kind in ('pgop', 'sqliteop'): return ['bin', extra, kids[0], kids[1]]
    if kind == 'custom': return ['bin', 'custom:~~~', kids[0], kids[1]]
    raise Unsupported(kind)

def canon(t, m, dialect):
    """expected parse tree of a script tree (operators concretised under model m)"""
    k = t[0]
    if k == 'col': return ('col', t[1])
    if k == 'val': return ('num', str(t[1]['v']))
    if k == 'bin':
        op = t[1]
        l = canon(t[2], m, dialect); r = canon(t[3], m, dialect)
        if isinstance(op, SymOp): return ('bin', SPELL[op.name(m)], l, r)
        if op.startswith('custom:'): return ('bin', op[7:], l, r)
        sp = PG.get(op) or SQLITE.get(op)
        if sp in ('ILIKE', 'NOT ILIKE'): return ('like', 'ILIKE', sp.startswith('NOT'), l, r, None)
        if sp in ('GLOB', 'MATCH'): return ('like', sp, False, l, r, None)
        return ('bin', sp, l, r)
    if k == 'm':
        meth = t[1]; x = canon(t[2], m, dialect)
        if meth in ('between', 'not_between'): return ('between', meth.startswith('not'), x, canon(t[3], m, dialect), canon(t[4], m, dialect))
        if meth in ('like', 'not_like'):
            esc = None if t[4] is None else ('str', "'%s'" % chr(t[4]))
            return ('like', 'LIKE', meth.startswith('not'), x, ('str', "'%s'" % t[3]), esc)
        if meth in ('is_in', 'is_not_in'): return ('in', 'not' in meth, x, ('tuple', [canon(i, m, dialect) for i in t[3]]))
        if meth in ('is_null', 'is_not_null'): return ('is', 'not' in meth, x, ('kw', 'NULL'))
        if meth == 'not': return ('not', x)
        if meth == 'cast_as': return ('cast', x, t[3].upper())
        if meth == 'as_enum': return ('cast', x, t[3]) if dialect == 'postgres' else x
    if k == 'func': return ('func', t[1].upper(), [canon(a, m, dialect) for a in t[2]])
    if k == 'tuple': return ('tuple', [canon(a, m, dialect) for a in t[1]])
    if k == 'case': return ('case', [(cond_canon(c, m, dialect), canon(th, m, dialect)) for c, th in t[1]], canon(t[2], m, dialect) if t[2] is not None else None)
    raise Unsupported('canon %r' % (k,))

def cond_canon(c, m, dialect):
    # ['all', False, [E]] with a single member renders as the member itself
    if c[0] in ('any', 'all') and len(c[2]) == 1 and not c[1]: return canon(c[2][0], m, dialect)
    return canon(c, m, dialect)

def concretise(t, m):
    """script tree with symbolic operators replaced by their names under the model (JSON-able)"""
    if isinstance(t, SymOp): return t.name(m)
    if isinstance(t, list): return [concretise(x, m) for x in t]
    if isinstance(t, dict): return {k: concretise(v, m) for k, v in t.items()}
    return t

def sq_tree(sq, t):
    """script tree -> engine tree with SymOp turned into SymEnum operators"""
    if isinstance(t, SymOp): return SymEnum('BinOper', t.term)
    if isinstance(t, list): return [sq_tree(sq, x) for x in t]
    return t

def build_shape(e, shape):
    """shape: (root kind, child position, child kind, grandchild position | None, grandchild kind | None, extras)"""
    col = leaves()
    ops = []
    variants = e.variants['BinOper']
    idx = [variants.index(n) for n in PLAIN]
    def newop():
        t = z3.BitVec('op%d' % len(ops), 64)
        e.add(z3.Or(*[t == i for i in idx]))
        so = SymOp(t, variants); ops.append(so); return so
    root, cpos, ckind, gpos, gkind, extra = shape
    def node(kind, depth_spec):
        kids = [col() for _ in range(ARITY[kind])]
        return kind, kids
    def wrap_cond(kind, kids):
        if kind == 'case': kids[0] = ['all', False, [kids[0]]]
        return kids
    gk = None
    if gkind is not None:
        gkids = [col() for _ in range(ARITY[gkind])]
        gk = mk(gkind, wrap_cond(gkind, gkids), newop, extra.get('g'))
    ck = None
    if ckind is not None:
        ckids = [col() for _ in range(ARITY[ckind])]
        if gk is not None: ckids[gpos] = gk
        ck = mk(ckind, wrap_cond(ckind, ckids), newop, extra.get('c'))
    rkids = [col() for _ in range(ARITY[root])]
    if ck is not None: rkids[cpos] = ck
    tree = mk(root, wrap_cond(root, rkids), newop, extra.get('r'))
    return tree, ops

def entry_for(item, sampler, out):
    backend, shape = item
    def entry(e):
        sq = SQ(e)
        tree, ops = build_shape(e, shape)
        ex = sq.expr(sq_tree(sq, tree))
        txt, _ = sq.render_expr(backend, ex, 'inline')
        for o in ops: e.concretize(o.term)
        m = e.ensure_model()
        s = ''.join(chr(c) for c in txt)
        want = canon(tree, m, backend)
        info = {'tree': concretise(tree, m), 'sql': s}
        try:
            got = parse(s, backend)
        except ParseError as ex:
            e.check(False, 'rendered text does not parse under the %s grammar: %s   [%s]' % (backend, ex, s), info)
        e.check(got == want, 'the %s grammar parses the rendered text to a different tree   [%s]' % (backend, s), info)
        if sampler.want(): out.append({'backend': backend, 'tree': concretise(tree, m), 'sql': s})
    return entry

def shapes(backend, depth3):
    out = []
    roots = [k for k in KINDS if not (k == 'pgop' and backend != 'postgres') and not (k == 'sqliteop' and backend != 'sqlite')]
    def extras(kind):
        if kind == 'pgop': return list(PG)
        if kind == 'sqliteop': return list(SQLITE)
        return [None]
    for r in roots:
        for rx in extras(r):
            out.append((r, 0, None, None, None, {'r': rx}))
            for cpos in range(ARITY[r]):
                for c in roots:
                    if c in ('tuple2',) and r not in ('bin', 'is_in', 'is_not_in', 'func'): continue
                    cxs = extras(c)
                    if len(cxs) > 1 and len(extras(r)) > 1: cxs = cxs[:4]
                    for cx in cxs:
                        out.append((r, cpos, c, None, None, {'r': rx, 'c': cx}))
    # an enum cast is a transparent wrapper on MySQL / SQLite (and CAST(..) on Postgres): what it wraps must still be delimited -> depth 3 through it in both tiers
    core = ['bin', 'between', 'not_between', 'like', 'is_in', 'is_null', 'not', 'cast_as']
    for r in roots:
        if r in ('pgop', 'sqliteop', 'tuple2', 'case', 'func'): continue
        for cpos in range(ARITY[r]):
            for g in core: out.append((r, cpos, 'as_enum', 0, g, {'r': None}))
    if depth3:
        for r in core:
            for cpos in range(ARITY[r]):
                for c in core:
                    for gpos in range(ARITY[c]):
                        for g in core:
                            out.append((r, cpos, c, gpos, g, {}))
    return out

def work(w):
    items, seed = w
    eng = ENG; reset_stats(eng); eng.solver = z3.Solver()
    samples = []; vs = []
    sampler = Sampler(seed, first=1, every=300)
    for item in items:
        try:
            viol = eng.run_all(entry_for(item, sampler, samples))
        except (Budget, Unsupported) as ex:
            return {'inconclusive': '%s: %s' % (type(ex).__name__, ex), 'item': repr(item)}
        for k, msg, m, info in viol:
            vs.append({'kind': k, 'msg': msg, 'item': [item[0], list(item[1][:5])], 'tree': info and info.get('tree'), 'sql': info and info.get('sql')})
    return {'stats': eng.stats, 'executed': eng.executed, 'models_used': eng.models_used, 'violations': vs, 'samples': samples, 'item': 'batch'}

def role(tree):
    """role key of a failing tree: (outer kind, position, inner operator class)"""
    def cls(t):
        if t[0] == 'bin':
            op = t[1]
            if op in ('And', 'Or'): return 'logical'
            if op in ('Equal', 'NotEqual', 'SmallerThan', 'GreaterThan', 'SmallerThanOrEqual', 'GreaterThanOrEqual'): return 'comparison'
            if op in ('Add', 'Sub', 'Mul', 'Div', 'Mod'): return 'arith'
            if op in ('LShift', 'RShift'): return 'shift'
            if op in ('BitAnd', 'BitOr'): return 'bit'
            return op
        if t[0] == 'm': return t[1]
        return t[0]
    k = cls(tree)
    kids = tree[2:] if tree[0] in ('bin', 'm') else []
    for i, ch in enumerate(kids):
        if isinstance(ch, list) and ch and ch[0] in ('bin', 'm'): return '%s[%d]<-%s' % (k, i, cls(ch))
    return k

def native_verdict(backend, tree, r):
    if r.get('panic') is not None: return 'panic: ' + r['panic']
    s = ''.join(chr(c) for c in r['sql'])
    class M: pass
    want = canon(tree, None, backend)
    try: got = parse(s, backend)
    except ParseError as ex: return 'does not parse under the %s grammar: %s [%s]' % (backend, ex, s)
    if got != want: return 'parses to a different tree [%s]' % s
    return None

def canon_conc(tree, backend):
    return canon(tree, None, backend)

# canon() on a concretised tree: operators are plain names
_orig_canon = canon
def canon(t, m, dialect):
    if t[0] == 'bin' and isinstance(t[1], str) and t[1] in SPELL:
        return ('bin', SPELL[t[1]], canon(t[2], m, dialect), canon(t[3], m, dialect))
    return _orig_canon(t, m, dialect)

MP = 'backend-mysql,backend-postgres,backend-sqlite,option-more-parentheses'
def run(ctx):
    global ENG
    quick = ctx.tier == 'quick'
    from framework import Native
    modes = [('default', None, None), ('option-more-parentheses', MP, 'more-parens')]
    items = []
    for b in BACKENDS:
        for sh in shapes(b, not quick): items.append((b, sh))
    ctx.bounds = {'depth': 'all trees of depth <= 2 over %d node kinds (every operand position x every child kind)%s' % (len(KINDS), '' if quick else ', plus depth 3 over the 8 core kinds'),
                  'operators': 'every plain binary operator node is a symbolic discriminant over %d operators; Postgres / SQLite extension operators and one custom operator are enumerated' % len(PLAIN),
                  'leaves': 'distinct quoted columns and small positive integers; LIKE patterns and CAST types are fixed literals', 'backends': list(BACKENDS),
                  'builds': 'the default build and the build with the option-more-parentheses feature (own MIR dump and own native replay binary each)'}
    ctx.assumptions += ['reference grammars in props/sqlparse.py (precedence levels and associativity from the three manuals / grammar files cited there)',
                        'IS / IS NOT only in the IS [NOT] NULL form; IN with a non-empty list; inline rendering (placeholders do not affect parenthesisation)',
                        'an operator unknown to a dialect (BinOper::Custom) must be fully parenthesised']
    conc_trees = [['bin', 'And', ['bin', 'Or', ['col', 'a'], ['col', 'b']], ['col', 'c']], ['m', 'between', ['col', 'a'], ['bin', 'Add', ['col', 'b'], ['val', V('Int', 1)]], ['col', 'c']],
                  ['m', 'not', ['m', 'is_null', ['col', 'a']]], ['bin', 'Sub', ['col', 'a'], ['bin', 'Sub', ['col', 'b'], ['col', 'c']]],
                  ['m', 'like', ['bin', 'Add', ['col', 'a'], ['col', 'b']], 'x%', 0x21], ['m', 'is_in', ['col', 'a'], [['bin', 'Mul', ['col', 'b'], ['col', 'c']], ['val', V('Int', 2)]]],
                  ['m', 'cast_as', ['bin', 'Equal', ['col', 'a'], ['col', 'b']], 'integer'], ['bin', 'custom:~~~', ['col', 'a'], ['bin', 'Add', ['col', 'b'], ['col', 'c']]]]
    ctx.families = []
    for mode, feats, natfeat in modes:
        ENG = eng = ctx.engine(features=feats)
        nat = ctx.nat() if natfeat is None else Native('dev', natfeat)
        # translator validation: concrete trees through engine and native build
        for b in BACKENDS:
            for t in conc_trees:
                res = {}
                def entry(e, t=t, b=b):
                    sq = SQ(e); txt, _ = sq.render_expr(b, sq.expr(t), 'inline'); res['sql'] = list(txt)
                eng.run_all(entry)
                r = nat.ask({'op': 'render_expr', 'backend': b, 'mode': 'inline', 'expr': t})
                if res.get('sql') == r.get('sql'): ctx.validated += 1
                else: ctx.inconclusive.append('translator validation (%s): %r engine %r native %r' % (mode, t, res, r))
        ctx.absorb(eng)
        nb = ctx.workers * 6
        batches = [(items[i::nb], ctx.seed) for i in range(nb)]
        ctx.families += ['%s / %s: %d shapes' % (mode, b, len([1 for i in items if i[0] == b])) for b in BACKENDS]
        for res in ctx.pmap(work, batches):
            if not merge_worker(ctx, res): continue
            for s in res['samples']:
                r = nat.ask({'op': 'render_expr', 'backend': s['backend'], 'mode': 'inline', 'expr': s['tree']})
                if r.get('sql') == [ord(c) for c in s['sql']]:
                    ctx.validated += 1
                    if len(ctx.samples) < 12: ctx.samples.append(dict(s, build=mode))
                else: ctx.inconclusive.append('passing path does not agree with the native build (%s): %r -> %r' % (mode, s, r))
            for v in res['violations']:
                if v['tree'] is None: ctx.inconclusive.append('violation without tree: %r' % (v,)); continue
                b = v['item'][0]
                req = {'op': 'render_expr', 'backend': b, 'mode': 'inline', 'expr': v['tree']}
                r = nat.ask(req)
                why = native_verdict(b, v['tree'], r)
                if why:
                    ctx.violations.append({'key': '%s:%s' % (b, role(v['tree'])) + ('' if natfeat is None else ':more-parens'), 'msg': v['msg'] + ' / native: ' + why, 'tree': v['tree'],
                                           'native_sql': ''.join(chr(c) for c in r.get('sql') or []), 'replay': req, 'backend': b, 'native_features': natfeat or ''})
                else:
                    ctx.inconclusive.append('counterexample does not reproduce natively (%s): %r -> %r' % (mode, v, r))
        if natfeat is not None: nat.close()

def replay(ctx, data):
    from framework import Native
    nat = ctx.nat() if not data.get('native_features') else Native('dev', data['native_features'])
    r = nat.ask(data['replay'])
    why = native_verdict(data['backend'], data['tree'], r)
    print('native dev:', ''.join(chr(c) for c in r.get('sql') or []), r.get('panic'), '->', why)
    return 1 if why else 0
