"""Concrete schema-statement scripts for translator validation (modelled on tests/*/table.rs, index.rs, foreign_key.rs, types.rs)"""
def V(t, v): return {'t': t, 'v': v}
def col(name, ty, *specs): return {'name': name, 'type': ty, 'specs': list(specs)}
T = ['t', 'glyph']
IDX = lambda *calls: {'k': 'index_create', 'calls': [list(c) for c in calls]}
FKC = lambda *calls: {'k': 'fk_create', 'calls': [list(c) for c in calls]}

DDL = [
 ({'k': 'table_create', 'calls': [['table', T], ['if_not_exists'], ['col', col('id', 'Integer', 'NotNull', 'AutoIncrement', 'PrimaryKey')], ['col', col('aspect', 'Double', 'NotNull')],
                                   ['col', col('image', 'Text')]]}, None),
 ({'k': 'table_create', 'calls': [['table', ['t', 'font']], ['col', col('id', 'Integer', 'NotNull', 'PrimaryKey', 'AutoIncrement')], ['col', col('name', ['String', ['N', 64]], 'NotNull', ['Default', ['val', V('String', "o'k")]])],
                                   ['col', col('variant', ['String', 'None'], 'NotNull', 'UniqueKey')], ['col', col('lang', ['Char', 2], 'Null', ['Comment', "it's a 'comment'"])]]}, None),
 ({'k': 'table_create', 'calls': [['table', ['t', 'character']], ['col', col('id', 'BigInteger', 'NotNull')], ['col', col('font_size', 'Integer', 'NotNull', ['Default', ['val', V('Int', 12)]])],
                                   ['col', col('size_w', ['Decimal', [10, 2]], ['Check', ['bin', 'GreaterThan', ['col', 'size_w'], ['val', V('Int', 0)]]])], ['col', col('created', 'DateTime')], ['col', col('flag', 'Boolean', ['Default', ['val', V('Bool', True)]])],
                                   ['primary_key', IDX(['name', 'pk_char'], ['col', 'id'])], ['index', IDX(['name', 'idx_fs'], ['col', 'font_size', 'Desc'], ['unique'])],
                                   ['foreign_key', FKC(['name', 'FK_font'], ['from_tbl', ['t', 'character']], ['from_col', 'font_id'], ['to_tbl', ['t', 'font']], ['to_col', 'id'], ['on_delete', 'Cascade'], ['on_update', 'SetNull'])],
                                   ['check', ['bin', 'SmallerThan', ['col', 'id'], ['val', V('Int', 100)]]]]}, None),
 ({'k': 'table_create', 'calls': [['table', T], ['col', col('a', 'TinyUnsigned')], ['col', col('b', 'Unsigned', 'NotNull')], ['col', col('c', ['VarBinary', ['N', 10]])], ['col', col('d', ['Binary', 16])],
                                   ['col', col('e', 'Json')], ['col', col('f', 'Uuid')], ['col', col('g', ['Money', None])], ['col', col('h', 'Timestamp', ['Default', ['kw', 'CurrentTimestamp']])], ['col', col('i', 'Blob')], ['col', col('j', 'Float')]]}, None),
 ({'k': 'table_create', 'calls': [['table', T], ['col', col('e', ['Enum', 'font_size', ['large', 'sm all']])], ['comment', "table's comment"], ['engine', 'InnoDB'], ['collate', 'utf8mb4_unicode_ci'], ['character_set', 'utf8mb4']]}, ['mysql']),
 ({'k': 'table_alter', 'calls': [['table', T], ['add_column', col('new_col', 'Integer', 'NotNull', ['Default', ['val', V('Int', 100)]])]]}, None),
 ({'k': 'table_alter', 'calls': [['table', T], ['modify_column', col('new_col', 'BigInteger', ['Default', ['val', V('Int', 999)]])]]}, ['mysql', 'postgres']),
 ({'k': 'table_alter', 'calls': [['table', T], ['rename_column', 'new_col', 'new_column']]}, None),
 ({'k': 'table_alter', 'calls': [['table', T], ['drop_column', 'new_column']]}, None),
 ({'k': 'table_alter', 'calls': [['table', T], ['add_column', col('x', 'Integer')], ['drop_column', 'y']]}, ['mysql', 'postgres']),
 ({'k': 'table_alter', 'calls': [['table', T], ['add_foreign_key', FKC(['name', 'FK_x'], ['from_tbl', T], ['from_col', 'font_id'], ['to_tbl', ['t', 'font']], ['to_col', 'id'], ['on_delete', 'Cascade'], ['on_update', 'Cascade'])]]}, ['mysql', 'postgres']),
 ({'k': 'table_alter', 'calls': [['table', T], ['drop_foreign_key', 'FK_x']]}, ['mysql', 'postgres']),
 ({'k': 'table_drop', 'calls': [['table', T], ['table', ['t', 'char']], ['if_exists'], ['cascade']]}, None),
 ({'k': 'table_rename', 'calls': [['table', ['t', 'font'], ['t', 'font_new']]]}, None),
 ({'k': 'table_truncate', 'calls': [['table', ['t', 'font']]]}, None),
 (IDX(['name', 'idx-glyph-aspect'], ['table', T], ['col', 'aspect']), None),
 (IDX(['if_not_exists'], ['name', 'idx2'], ['table', T], ['col', 'aspect', 'Desc'], ['col', 'image', None, 128], ['unique']), ['mysql', 'postgres']),
 (IDX(['name', 'idx3'], ['table', ['st', 'schema', 'glyph']], ['col', 'aspect'], ['index_type', 'Hash']), ['mysql', 'postgres']),
 (IDX(['name', 'idx4'], ['table', T], ['col', 'aspect'], ['unique'], ['nulls_not_distinct'], ['include', 'image'], ['and_where', ['bin', 'GreaterThan', ['col', 'aspect'], ['val', V('Int', 3)]]]), ['postgres']),
 (IDX(['name', 'idx5'], ['table', T], ['col', 'aspect'], ['unique'], ['and_where', ['m', 'is_in', ['col', 'aspect'], [['val', V('Int', 3)], ['val', V('Int', 4)]]]]), ['sqlite', 'postgres']),
 ({'k': 'index_drop', 'calls': [['name', 'idx-glyph-aspect'], ['table', T]]}, None),
 (FKC(['name', 'FK_c'], ['from_tbl', ['t', 'character']], ['from_col', 'font_id'], ['from_col', 'x'], ['to_tbl', ['t', 'font']], ['to_col', 'id'], ['to_col', 'y'], ['on_delete', 'Restrict'], ['on_update', 'NoAction']), ['mysql', 'postgres']),
 ({'k': 'fk_drop', 'calls': [['name', 'FK_c'], ['table', ['t', 'character']]]}, ['mysql', 'postgres']),
 ({'k': 'type_create', 'calls': [['as_enum', 'font_family'], ['values', ['serif', "it's", 'mono space']]]}, ['postgres']),
 ({'k': 'type_alter', 'calls': [['name', 'font_family'], ['add_value', 'cursive'], ['before', 'serif']]}, ['postgres']),
 ({'k': 'type_alter', 'calls': [['name', 'font_family'], ['rename_value', 'serif', "sans'serif"]]}, ['postgres']),
 ({'k': 'type_alter', 'calls': [['name', 'font_family'], ['rename_to', 'typeface']]}, ['postgres']),
 ({'k': 'type_drop', 'calls': [['name', 'font_family'], ['if_exists'], ['cascade']]}, ['postgres']),
 ({'k': 'extension_create', 'calls': [['name', 'ltree'], ['schema', 'public'], ['version', '1.2'], ['cascade'], ['if_not_exists']]}, ['postgres']),
 ({'k': 'extension_drop', 'calls': [['name', 'ltree'], ['cascade'], ['if_exists']]}, ['postgres']),
]
