"""C03 - inlined text / char / binary literals are one literal token that decodes to exactly the supplied value.

Exec (MIR of the current tree): QueryBuilder::value_to_string[_common], write_string_quoted (default + Postgres), write_bytes (default + Postgres),
escape_string (default + SQLite), impl SqlWriter for String (push_param), prepare_constant, prepare_field_order, the LIKE .. ESCAPE encoding, SELECT rendering.
Sym: the characters / bytes of the value.  Oracle: reference lexers of the three engines (props/lexers.py)."""
import z3
from interp import Cell, Ref, Str, Adt, VecV, Budget, Unsupported, is_sym
from models import as_str, ch_eq
from framework import model_int
from props.common import *
from props.sq import SQ, to_json, Sym
from props import sqstmt, lexers
from props.lexers import LexFail

ENG = None
MARK = 424242

def V(t, v): return {'t': t, 'v': v}

def build_stmt(pos, val):
    """script of a SELECT that inlines `val` (a V) at the given position; with_marker replaces it by an Int marker"""
    if pos == 'select_value': return {'k': 'select', 'calls': [['expr', ['val', val]]]}
    if pos == 'constant': return {'k': 'select', 'calls': [['expr', ['const', val]], ['from', ['t', 't']]]}
    if pos == 'order_field': return {'k': 'select', 'calls': [['column', ['col', 'a']], ['from', ['t', 't']], ['order_field', ['col', 'a'], [V('Int', 1), val]]]}
    if pos == 'where_in': return {'k': 'select', 'calls': [['column', ['col', 'a']], ['from', ['t', 't']],
                                                          ['and_where', ['m', 'is_in', ['col', 'b'], [['val', V('Int', 7)], ['val', val]]]], ['limit', 3]]}
    raise Unsupported(pos)

def like_stmt(pattern, esc):
    return {'k': 'select', 'calls': [['column', ['col', 'a']], ['from', ['t', 't']], ['and_where', ['m', 'like', ['col', 'b'], pattern, esc]]]}

def ddl(k, *calls): return {'k': k, 'calls': [list(c) for c in calls]}
def cdef(name, ty='Integer', *specs): return {'name': name, 'type': ty, 'specs': list(specs)}
def SV(S): return ['val', V('String', S)]
# literal positions inside schema statements: position -> (script as a function of the text S, backends)
DDL_POS = {
 'col_default':        (lambda S: ddl('table_create', ['table', ['t', 't']], ['col', cdef('c', 'Text', ['Default', SV(S)])]), BACKENDS),
 'col_default_alter':  (lambda S: ddl('table_alter', ['table', ['t', 't']], ['add_column', cdef('c', 'Text', 'NotNull', ['Default', SV(S)])]), BACKENDS),
 'col_default_modify': (lambda S: ddl('table_alter', ['table', ['t', 't']], ['modify_column', cdef('c', 'Text', ['Default', SV(S)])]), ('mysql', 'postgres')),
 'col_check':          (lambda S: ddl('table_create', ['table', ['t', 't']], ['col', cdef('c', 'Text', ['Check', ['bin', 'NotEqual', ['col', 'c'], SV(S)]])]), BACKENDS),
 'table_check':        (lambda S: ddl('table_create', ['table', ['t', 't']], ['col', cdef('c', 'Text')], ['check', ['bin', 'NotEqual', ['col', 'c'], SV(S)]]), BACKENDS),
 'col_comment':        (lambda S: ddl('table_create', ['table', ['t', 't']], ['col', cdef('c', 'Text', ['Comment', S])]), ('mysql',)),
 'table_comment':      (lambda S: ddl('table_create', ['table', ['t', 't']], ['col', cdef('c', 'Text')], ['comment', S]), ('mysql',)),
 'enum_label':         (lambda S: ddl('table_create', ['table', ['t', 't']], ['col', cdef('c', ['Enum', 'ty', ['a', S]])]), ('mysql',)),
 'type_create_label':  (lambda S: ddl('type_create', ['as_enum', 'ty'], ['values', ['a', S]]), ('postgres',)),
 'type_add_value':     (lambda S: ddl('type_alter', ['name', 'ty'], ['add_value', S]), ('postgres',)),
 'type_add_before':    (lambda S: ddl('type_alter', ['name', 'ty'], ['add_value', 'v'], ['before', S]), ('postgres',)),
 'type_rename_value':  (lambda S: ddl('type_alter', ['name', 'ty'], ['rename_value', 'v', S]), ('postgres',)),
 'index_where':        (lambda S: ddl('index_create', ['name', 'i'], ['table', ['t', 't']], ['col', 'c'], ['and_where', ['bin', 'NotEqual', ['col', 'c'], SV(S)]]), ('postgres', 'sqlite')),
}
DDL_MARK = 'MARKER'
def render_ddl(sq, st, backend):
    from props import sqddl
    return list(sqddl.render(sq, st, backend))

def classify(kind, backend, inp):
    """role of a failing input (used as the known-finding key)"""
    if kind == 'char' and inp and inp[0] is not None and inp[0] >= 0x80: return 'nonascii'
    if kind in ('string', 'char', 'like_pattern', 'like_escape') and 0x1a in inp and backend != 'sqlite': return 'ctrl-z'
    return 'other'

def entry_for(item, syms, vc, sampler, out, check=True):
    pos, kind, backend, L = item
    def entry(e):
        for c in vc: e.add(c)
        sq = SQ(e)
        if kind == 'string': val = V('String', Sym(syms))
        elif kind == 'char': val = V('Char', syms[0])
        else: val = V('Bytes', list(syms))
        info = {'pos': pos, 'kind': kind, 'backend': backend}
        if pos == 'value_to_string':
            txt = list(sq.value_to_string(backend, sq.value(val))); prefix = []; suffix = []
        elif pos in DDL_POS:
            txt = render_ddl(sq, DDL_POS[pos][0](Sym(syms)), backend)
            ref = render_ddl(sq, DDL_POS[pos][0](DDL_MARK), backend); mtxt = [ord(c) for c in "'%s'" % DDL_MARK]
            k = find_sub(ref, mtxt); prefix = ref[:k]; suffix = ref[k+len(mtxt):]
        elif pos in ('like_pattern', 'like_escape'):
            if pos == 'like_pattern':
                st = like_stmt(Sym(syms), None); mk = like_stmt('MARKER', None); mtxt = [ord(c) for c in "'MARKER'"]
            else:
                st = like_stmt('x%', syms[0]); mk = like_stmt('x%', 0x4d); mtxt = [ord(c) for c in "'M'"]
            txt, _ = sqstmt.render(sq, 'select', sq.stmt(st), backend); txt = list(txt)
            ref, _ = sqstmt.render(sq, 'select', sq.stmt(mk), backend); ref = list(ref)
            k = find_sub(ref, mtxt); prefix = ref[:k]; suffix = ref[k+len(mtxt):]
        else:
            txt, _ = sqstmt.render(sq, 'select', sq.stmt(build_stmt(pos, val)), backend); txt = list(txt)
            ref, _ = sqstmt.render(sq, 'select', sq.stmt(build_stmt(pos, V('Int', MARK))), backend); ref = list(ref)
            mtxt = [ord(c) for c in str(MARK)]
            k = find_sub(ref, mtxt); prefix = ref[:k]; suffix = ref[k+len(mtxt):]
        if not check:
            out.append({'item': item, 'input': list(syms), 'sql': txt}); return
        e.check(len(txt) >= len(prefix) and all(a == b for a, b in zip(txt, prefix) if not is_sym(a)) , 'statement prefix changed', info)
        for a, b in zip(txt, prefix): e.check(ch_eq(a, b), 'statement text before the literal differs', info)
        lex = (lexers.BYTES if kind == 'bytes' else lexers.STRING)[backend]
        try:
            end, dec = lex(e, txt, len(prefix))
        except LexFail as ex:
            e.check(False, 'not a well-formed %s literal: %s' % (backend, ex), info)
        rest = txt[end:]
        e.check(len(rest) == len(suffix), 'literal token ends early or late: %d characters follow it, expected %d' % (len(rest), len(suffix)), info)
        for a, b in zip(rest, suffix): e.check(ch_eq(a, b), 'text after the literal differs (the literal was closed early)', info)
        e.check(len(dec) == len(syms), 'decoded literal has %d elements, the value has %d' % (len(dec), len(syms)), info)
        for i, (a, b) in enumerate(zip(dec, syms)):
            if kind == 'bytes' and is_sym(a) and a.size() != 8: a = z3.Extract(7, 0, a)
            e.check(a == b if (is_sym(a) or is_sym(b)) else a == b, 'decoded element %d differs from the supplied value' % i, info)
        if sampler.want():
            m = e.model()
            if m is not None: out.append({'item': item, 'input': conc(m, syms), 'sql': conc(m, txt)})
    return entry

def find_sub(hay, needle):
    n = len(needle)
    for i in range(len(hay) - n + 1):
        if hay[i:i+n] == needle: return i
    raise Unsupported('marker not found in %r' % (text(hay),))

def make_syms(item):
    pos, kind, backend, L = item
    if kind == 'bytes':
        syms = [z3.BitVec('b%d' % i, 8) for i in range(L)]; vc = []
    else:
        syms, vc = sym_chars(L, 'c')
        if backend in ('postgres', 'sqlite'): vc = vc + [c != 0 for c in syms]      # NUL has no representation in the engine's text type
    return syms, vc

def prefer_for(item, syms):
    pos, kind, backend, L = item
    pr = []
    if kind != 'bytes':
        pr += [c != 0x1a for c in syms]           # steer counterexamples away from the recorded findings when another one exists
        pr += [z3.ULT(c, 0x80) for c in syms]
    return pr

def native_req(item, inp):
    pos, kind, backend, L = item
    val = V('String', {'cps': inp}) if kind == 'string' else (V('Char', inp[0]) if kind == 'char' else V('Bytes', inp))
    if pos == 'value_to_string': return {'op': 'value_to_string', 'backend': backend, 'value': val}
    if pos in DDL_POS: return {'op': 'render_ddl', 'backend': backend, 'stmt': to_json(DDL_POS[pos][0]({'cps': inp}))}
    if pos == 'like_pattern': return {'op': 'render', 'backend': backend, 'entry': 'to_string', 'stmt': to_json(like_stmt({'cps': inp}, None))}
    if pos == 'like_escape': return {'op': 'render', 'backend': backend, 'entry': 'to_string', 'stmt': to_json(like_stmt('x%', inp[0]))}
    return {'op': 'render', 'backend': backend, 'entry': 'to_string', 'stmt': to_json(build_stmt(pos, val))}

def work(w):
    item, prefix, seed = w
    eng = ENG; reset_stats(eng); eng.solver = z3.Solver()
    syms, vc = make_syms(item)
    eng.prefer = prefer_for(item, syms)
    samples = []; sampler = Sampler(seed, first=2, every=80)
    viol = eng.run_all(entry_for(item, syms, vc, sampler, samples), prefix=prefix)
    vs = [{'kind': k, 'msg': msg, 'item': item, 'input': conc(m, syms) if m is not None else None} for k, msg, m, info in viol]
    return {'stats': eng.stats, 'executed': eng.executed, 'models_used': eng.models_used, 'violations': vs, 'samples': samples, 'item': list(item)}

class ConcE:
    """concrete stand-in for the engine so the reference lexers can be run on native output"""
    def branch(self, c): return bool(c)

def native_verdict(item, inp, r):
    """evaluate the property on the native rendering: None if it holds, else a description"""
    pos, kind, backend, L = item
    if r.get('panic') is not None: return 'panic: ' + r['panic']
    sql = r['sql']
    lex = (lexers.BYTES if kind == 'bytes' else lexers.STRING)[backend]
    # locate the literal by rendering-independent search: try every start offset where the lexer succeeds and consumes a suffix-consistent token
    nat = NAT[0]
    if pos == 'value_to_string': start = 0; suffix = []
    else:
        if pos == 'like_pattern' or pos in DDL_POS: ref = nat.ask(native_req(item, [ord(c) for c in 'MARKER']))['sql']; mt = [ord(c) for c in "'MARKER'"]
        elif pos == 'like_escape': ref = nat.ask(native_req(item, [0x4d]))['sql']; mt = [ord(c) for c in "'M'"]
        else:
            ref = nat.ask({'op': 'render', 'backend': backend, 'entry': 'to_string', 'stmt': to_json(build_stmt(pos, V('Int', MARK)))})['sql']; mt = [ord(c) for c in str(MARK)]
        k = find_sub(ref, mt); start = k; suffix = ref[k+len(mt):]
        if sql[:k] != ref[:k]: return 'text before the literal differs'
    try:
        end, dec = lex(ConcE(), sql, start)
    except LexFail as ex:
        return 'not a well-formed literal: %s' % ex
    if sql[end:] != suffix: return 'literal token ends early or late'
    if dec != inp: return 'decoded %r, supplied %r' % (dec, inp)
    return None

NAT = []
def run(ctx):
    global ENG
    quick = ctx.tier == 'quick'
    ENG = eng = ctx.engine()
    nat = ctx.nat(); NAT[:] = [nat]
    items = []
    for b in BACKENDS:
        for L in range(0, (4 if quick else 6)): items.append(('value_to_string', 'string', b, L))
        items.append(('value_to_string', 'char', b, 1))
        for L in range(0, 3 if quick else 5): items.append(('value_to_string', 'bytes', b, L))
        for pos in ('select_value', 'constant', 'order_field', 'where_in'):
            for L in ((1, 2, 3) if quick else (0, 1, 2, 3)): items.append((pos, 'string', b, L))
            items.append((pos, 'char', b, 1)); items.append((pos, 'bytes', b, 1 if quick else 2))
        for L in ((1, 2, 3) if quick else (0, 1, 2, 3)): items.append(('like_pattern', 'string', b, L))
        for pos, (fn, bks) in DDL_POS.items():
            if b not in bks: continue
            for L in ((1, 2) if quick else (0, 1, 2, 3)): items.append((pos, 'string', b, L))
        items.append(('like_escape', 'char', b, 1))
    ctx.bounds = {'strings': 'L <= %d arbitrary Unicode scalar values at value_to_string, L <= %d at statement positions' % ((3, 3) if quick else (5, 3)),
                  'bytes': 'L <= %d arbitrary bytes' % (2 if quick else 4), 'char': 'one arbitrary Unicode scalar value',
                  'positions': ['value_to_string', 'SELECT value (impl SqlWriter for String)', 'SimpleExpr::Constant', 'ORDER BY FIELD value', 'IN list member', 'LIKE pattern', 'LIKE .. ESCAPE char'] + ['schema: ' + p for p in DDL_POS],
                  'backends': list(BACKENDS)}
    ctx.assumptions += ['NUL is excluded for PostgreSQL and SQLite text (no representation in the engine)',
                        'reference lexers in props/lexers.py written from the three engines manuals; MySQL default sql_mode, PostgreSQL standard_conforming_strings=on',
                        'schema-statement positions: DEFAULT (create / add / modify column), CHECK, COMMENT (MySQL), ENUM labels (MySQL), CREATE / ALTER TYPE labels (Postgres), partial-index predicate']
    # translator validation on a concrete corpus
    corpus = ["", "abc", "it's", "a\\b", "\"q\"", "x\ny\t\r", "é表", "'';--", "\\'", "%_"]
    for b in BACKENDS:
        for s in corpus:
            for pos in ('value_to_string', 'select_value', 'order_field', 'like_pattern'):
                cps = [ord(c) for c in s]; item = (pos, 'string', b, len(cps)); out = []
                v = eng.run_all(entry_for(item, cps, [], Sampler(0), out, check=False))
                r = nat.ask(native_req(item, cps))
                if out and out[0]['sql'] == r.get('sql'): ctx.validated += 1
                else: ctx.inconclusive.append('translator validation: %r %r engine %r native %r %r' % (item, s, out and text(out[0]['sql']), r, v[:1]))
        for bs in ([], [0], [1, 171, 255], [16, 15]):
            item = ('value_to_string', 'bytes', b, len(bs)); out = []
            eng.run_all(entry_for(item, bs, [], Sampler(0), out, check=False))
            r = nat.ask(native_req(item, bs))
            if out and out[0]['sql'] == r.get('sql'): ctx.validated += 1
            else: ctx.inconclusive.append('translator validation: %r engine %r native %r' % (item, out, r))
    ctx.absorb(eng)
    work_items = []
    for it in items:
        if it[1] == 'string' and it[3] >= 4:
            syms, vc = make_syms(it)
            for p in eng.frontier(entry_for(it, syms, vc, Sampler(0, first=0, every=10**9), []), ctx.workers * 2): work_items.append((it, p, ctx.seed))
        else: work_items.append((it, [], ctx.seed))
    ctx.families = sorted(set('%s/%s/%s L<=%d' % (i[0], i[1], i[2], max(j[3] for j in items if j[:3] == i[:3])) for i in items))
    for res in ctx.pmap(work, work_items):
        if not merge_worker(ctx, res): continue
        for s in res['samples']:
            r = nat.ask(native_req(tuple(s['item']), s['input']))
            if r.get('sql') == s['sql']:
                ctx.validated += 1
                if len(ctx.samples) < 12: ctx.samples.append({'position': s['item'][0], 'kind': s['item'][1], 'backend': s['item'][2], 'value': s['input'], 'sql': text(s['sql'])})
            else: ctx.inconclusive.append('passing path does not agree with the native build: %r -> %r' % (s, r))
        for v in res['violations']:
            item = tuple(v['item'])
            if v['input'] is None: ctx.inconclusive.append('violation without model: %r' % (v,)); continue
            req = native_req(item, v['input'])
            r = nat.ask(req)
            why = native_verdict(item, v['input'], r)
            if why:
                key = '%s:%s:%s:%s' % (item[0], item[1], item[2], classify(item[1], item[2], v['input']))
                ctx.violations.append({'key': key, 'msg': v['msg'] + ' / native: ' + why, 'input': v['input'], 'native_dev': r, 'replay': req, 'item': list(item)})
            else:
                ctx.inconclusive.append('counterexample does not reproduce natively: %r -> %r' % (v, r))

def replay(ctx, data):
    NAT[:] = [ctx.nat()]
    r = ctx.nat().ask(data['replay'])
    why = native_verdict(tuple(data['item']), data['input'], r)
    print('native dev:', text(r.get('sql') or []), r.get('panic'), '->', why)
    return 1 if why else 0
