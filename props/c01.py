"""C01 - placeholders and bound values correspond one-to-one, in order.

Exec (MIR of the current tree): QueryStatementWriter::build, SqlWriterValues::{new, write_str, push_param, into_parts} (interpreted, not modelled), the whole
prepare_* tree of query_builder.rs with the three backend overrides, Tokenizer (custom templates).
Sym: statement families (props/families.py) whose optional clauses are chosen by the engine; every value given to a clause is a distinct symbolic term.
Oracle: a reference placeholder scanner (outside quoted text) and marker-based identification of the value each placeholder stands for."""
import z3
from interp import Cell, Ref, Str, Adt, VecV, Budget, Unsupported, PathEnd, Panic, is_sym
from props.common import *
from props.sq import SQ, to_json, value_json
from props import sqstmt
from props.families import FAMILIES, build_family, scan_placeholders, marker_of

ENG = None

def check_binding(e, f, backend, sql, values, info):
    """the C01 assertions on one (sql, values) pair; sql: concrete code points, values: list of Value Adts"""
    if any(not isinstance(c, int) for c in sql):
        # a value term inside the text of build(): a value given to a rendered clause was written into the SQL instead of being bound
        e.check(False, 'build() wrote a value into the SQL text instead of binding it   [%s]' % ''.join(chr(c) if isinstance(c, int) else '<value>' for c in sql), info)
    s = ''.join(chr(c) for c in sql)
    ph = scan_placeholders(sql, backend)
    e.check(len(ph) == len(values), '%d placeholders outside quoted text but %d bound values   [%s]' % (len(ph), len(values), s), info)
    if backend == 'postgres':
        nums = [p[2] for p in ph]
        e.check(nums == list(range(1, len(ph) + 1)), 'Postgres placeholders are not $1..$n ascending, each once: %r   [%s]' % (nums, s), info)
    want_limits = [n for k, n in f.pos if k == 'limit']; want_offsets = [n for k, n in f.pos if k == 'offset']
    want_frames = [n for k, n in f.pos if k == 'frame']; want_values = [n for k, ns in f.pos if k == 'values' for n in ns]
    seen = []
    for i, (a, b, num) in enumerate(ph):
        mk = marker_of(s, a, b)
        e.check(mk is not None, 'placeholder %d at offset %d is not next to any marker of a supplied value   [%s]' % (i + 1, a, s), info)
        if mk[0] == 'tag': tag = mk[1]
        else:
            lst = {'limit': want_limits, 'offset': want_offsets, 'frame': want_frames, 'values': want_values}[mk[0]]
            e.check(len(lst) > 0, 'more %s placeholders than %s values were given   [%s]' % (mk[0], mk[0], s), info)
            tag = lst.pop(0)
        e.check(tag in f.tags, 'placeholder %d stands for an unknown value k_%s   [%s]' % (i + 1, tag, s), info)
        seen.append(tag)
        v = values[i]
        payload = v.fields[0].v
        e.check(payload.variant == 'Some', 'value %d is NULL but a value was supplied' % (i + 1), info)
        p = payload.fields[0].v
        term = f.tags[tag]
        same = (p is term) or (is_sym(p) and p.size() == term.size() and z3.is_true(z3.simplify(p == term)))
        if not same and is_sym(p) and p.size() == term.size(): same = p == term
        e.check(same, 'placeholder %d (k_%s) is bound to a different value than the one given for its clause   [%s]' % (i + 1, tag, s), info)
    dedup = sorted(set(seen)) if all(seen.count(t) == 1 or t in f.dup_ok for t in seen) else sorted(seen)
    e.check(dedup == sorted(f.tags), 'values lost or duplicated: bound %r, supplied %r   [%s]' % (sorted(seen), sorted(f.tags), s), info)

def entry_for(item, sampler, out):
    fam, backend, toggles = item
    def entry(e):
        sq = SQ(e)
        st, f = build_family(e, fam, backend, toggles)
        info = {'stmt': st, 'fam': f}
        stmt_v = sq.stmt(st)
        sql, values = sqstmt.render(sq, st['k'], stmt_v, backend, 'build')
        check_binding(e, f, backend, list(sql), values, info)
        if sampler.want():
            m = e.ensure_model()
            out.append({'stmt': to_json(st, m), 'backend': backend, 'sql': list(sql), 'values': [value_json(v, m) for v in values]})
    return entry

def work(w):
    item, prefix, seed = w
    eng = ENG; reset_stats(eng); eng.solver = z3.Solver()
    eng.prefer = PREFER
    samples = []; sampler = Sampler(seed, first=1, every=60)
    try:
        viol = eng.run_all(entry_for(item, sampler, samples), prefix=prefix)
    except (Budget, Unsupported) as ex:
        return {'inconclusive': '%s: %s' % (type(ex).__name__, ex), 'item': repr(item)}
    vs = []
    for k, msg, m, info in viol:
        st = None; tags = None; chosen = None
        if info is not None:
            # distinct concrete values make the native check decisive: k_n := 1000 + n
            f = info['fam']
            st = subst_tags(info['stmt'], f, m); tags = sorted(f.tags); chosen = f.chosen; tagvals = tag_values(f, m)
        vs.append({'kind': k, 'msg': msg, 'item': [item[0], item[1]], 'stmt': st, 'tags': tags, 'tagvals': info and [[n, tagvals[n]] for n in tags], 'chosen': chosen, 'pos': info and [[k2, n2] for k2, n2 in info['fam'].pos],
                   'dup_ok': info and sorted(info['fam'].dup_ok)})
    return {'stats': eng.stats, 'executed': eng.executed, 'models_used': eng.models_used, 'violations': vs, 'samples': samples, 'item': repr(item)}

# steer counterexample models to the distinct markers k_n = 1000 + n wherever the path condition allows it (a value-dependent defect keeps the value it needs)
PREFER = [z3.BitVec('k%d' % n, w) == 1000 + n for n in range(1, 41) for w in (32, 64)]

def tag_values(f, m=None):
    from framework import model_int
    out = {}
    for n, term in f.tags.items():
        v = model_int(m, term) if m is not None else None
        out[n] = v if isinstance(v, int) else 1000 + n
    return out

def subst_tags(t, f, m=None):
    """script with every symbolic value k_n replaced by a concrete value: the one of the model m, else the marker 1000 + n"""
    inv = {id(term): n for n, term in f.tags.items()}
    vals = tag_values(f, m)
    def go(x):
        if is_sym(x): return vals[inv[id(x)]]
        if isinstance(x, list): return [go(y) for y in x]
        if isinstance(x, dict): return {k: go(v) for k, v in x.items()}
        return x
    return go(t)

class ConcE:
    def check(self, cond, msg, info=None):
        if not cond: raise AssertionError(msg)

class ConcFam:
    def __init__(self, tags, pos, dup_ok=(), tagvals=None):
        self.tags = {n: 1000 + n for n in tags}
        if tagvals: self.tags.update({n: v for n, v in tagvals})
        self.pos = [(k, n) for k, n in pos]; self.dup_ok = set(dup_ok)

def native_verdict(nat, v):
    req = {'op': 'render', 'backend': v['item'][1], 'entry': 'build', 'stmt': v['stmt']}
    r = nat.ask(req)
    if r.get('panic') is not None: return 'panic: ' + r['panic'], req
    class Val:      # mimic the engine's Value Adt shape for check_binding
        def __init__(self, j):
            self.fields = [Cell(Adt('Option', 'None' if j['v'] is None else 'Some', [] if j['v'] is None else [Cell(j['v'])]))]
    f = ConcFam(v['tags'], v['pos'], v.get('dup_ok') or (), v.get('tagvals'))
    try:
        check_binding_conc(f, v['item'][1], r['sql'], r['values'])
    except AssertionError as ex:
        return str(ex), req
    return None, req

def check_binding_conc(f, backend, sql, values):
    s = ''.join(chr(c) for c in sql)
    ph = scan_placeholders(sql, backend)
    if len(ph) != len(values): raise AssertionError('%d placeholders but %d values [%s]' % (len(ph), len(values), s))
    if backend == 'postgres' and [p[2] for p in ph] != list(range(1, len(ph) + 1)): raise AssertionError('placeholders not $1..$n [%s]' % s)
    lists = {'limit': [n for k, n in f.pos if k == 'limit'], 'offset': [n for k, n in f.pos if k == 'offset'], 'frame': [n for k, n in f.pos if k == 'frame'],
             'values': [n for k, ns in f.pos if k == 'values' for n in ns]}
    seen = []
    for i, (a, b, num) in enumerate(ph):
        mk = marker_of(s, a, b)
        if mk is None: raise AssertionError('placeholder %d is not next to a marker [%s]' % (i + 1, s))
        if mk[0] == 'tag': tag = mk[1]
        else:
            if not lists[mk[0]]: raise AssertionError('unexpected %s placeholder [%s]' % (mk[0], s))
            tag = lists[mk[0]].pop(0)
        seen.append(tag)
        if values[i]['v'] != f.tags[tag]: raise AssertionError('placeholder %d (k_%s) is bound to %r [%s]' % (i + 1, tag, values[i]['v'], s))
    dedup = sorted(set(seen)) if all(seen.count(t) == 1 or t in f.dup_ok for t in seen) else sorted(seen)
    if dedup != sorted(f.tags): raise AssertionError('values lost or duplicated: bound %r supplied %r [%s]' % (sorted(seen), sorted(f.tags), s))

def family_items(quick):
    items = []
    for fam, (gen, qgroups, tgroups) in FAMILIES.items():
        for b in BACKENDS:
            for g in (qgroups if quick else tgroups): items.append((fam, b, tuple(g)))
    return items

def run(ctx, entry_factory=None, checker=None):
    global ENG
    quick = ctx.tier == 'quick'
    ENG = eng = ctx.engine()
    nat = ctx.nat()
    items = family_items(quick)
    ctx.bounds = {'families': sorted(set('%s: optional clauses %s' % (i[0], list(i[2])) for i in items)), 'values': 'every value is a distinct symbolic Int / BigUnsigned (LIMIT, OFFSET) / Unsigned (frame bound)',
                  'nesting': 'sub-selects in FROM, IN, UNION, CTEs (CTE inside a CTE query in the WITH family)', 'backends': list(BACKENDS), 'mode': 'build() through the crate own SqlWriterValues'}
    ctx.assumptions += ['user SQL containing a literal placeholder inside Expr::cust is outside the claim', 'value types behind with-* features are outside the claim',
                        'ORDER BY FIELD values and constants are inlined by design and must not be bound']
    from props.corpus import STATEMENTS
    for st in STATEMENTS:
        for b in BACKENDS:
            res = {}
            def ent(e, st=st, b=b):
                sq = SQ(e); sql, vals = sqstmt.render(sq, st['k'], sq.stmt(st), b, 'build'); res['sql'] = expand(list(sql), None, nat); res['values'] = [value_json(v) for v in vals]
            try: eng.run_all(ent)
            except (Unsupported, Budget) as ex: res['exc'] = str(ex)
            r = nat.ask({'op': 'render', 'backend': b, 'entry': 'build', 'stmt': to_json(st)})
            if res.get('sql') == r.get('sql') and res.get('values') == r.get('values'): ctx.validated += 1
            else: ctx.inconclusive.append('translator validation: %r engine %r native %r' % (st, res, r))
    ctx.absorb(eng)
    work_items = []
    for it in items:
        for p in eng.frontier(entry_for(it, Sampler(0, first=0, every=10**9), []), 6): work_items.append((it, p, ctx.seed))
    ctx.families = ['%s/%s %s' % (i[0], i[1], '+'.join(i[2])) for i in items]
    for res in ctx.pmap(work, work_items):
        if not merge_worker(ctx, res): continue
        for s in res['samples']:
            r = nat.ask({'op': 'render', 'backend': s['backend'], 'entry': 'build', 'stmt': s['stmt']})
            if r.get('sql') == s['sql'] and r.get('values') == s['values']:
                ctx.validated += 1
                if len(ctx.samples) < 12: ctx.samples.append({'backend': s['backend'], 'sql': text(s['sql']), 'values': [v['v'] for v in s['values']]})
            else: ctx.inconclusive.append('passing path does not agree with the native build: %r -> %r' % (s, r))
        for v in res['violations']:
            if v['stmt'] is None: ctx.inconclusive.append('violation without statement: %r' % (v,)); continue
            why, req = native_verdict(nat, v)
            if why:
                ctx.violations.append({'key': '%s:%s:%s' % (v['item'][0], v['item'][1], '+'.join(v['chosen'] or [])), 'msg': v['msg'] + ' / native: ' + why, 'stmt': v['stmt'],
                                       'tags': v['tags'], 'tagvals': v.get('tagvals'), 'pos': v['pos'], 'dup_ok': v.get('dup_ok'), 'item': v['item'], 'replay': req})
            else:
                ctx.inconclusive.append('counterexample does not reproduce natively: %r' % (v,))

def replay(ctx, data):
    why, req = native_verdict(ctx.nat(), data)
    print('native dev ->', why)
    return 1 if why else 0
