"""C09 (structural part) - a statement that uses only portable features renders, on the three backends, to token sequences that are identical after the
documented lexical map (identifier quotes, placeholder style, set-operation parentheses, VALUES ROW(..), function-name substitutions, MySQL's
`expr IS NULL ASC|DESC,` emulation of NULLS LAST|FIRST) and binds the same values in the same order.
That each documented substitution is semantically equivalent on a live engine, and result equality itself, are outside solver-based checking."""
import z3
from interp import Cell, Ref, Str, Adt, VecV, Budget, Unsupported, PathEnd, Panic, is_sym
from models import struct_eq
from props.common import *
from props.sq import SQ, to_json, value_json
from props import sqstmt
from props.families import FAMILIES, build_family
from props.sqlparse import tokenize, ParseError
from props.c01 import subst_tags

ENG = None
# the documented substitutions, per dialect: only a dialect's own spelling is mapped to the common name - the spelling of another dialect stays and shows up as a difference
FUNC_CANON = {'mysql': {'IFNULL': 'COALESCE', 'RAND': 'RANDOM', 'CHAR_LENGTH': 'LENGTH'},
              'postgres': {'CHAR_LENGTH': 'LENGTH'},
              'sqlite': {'IFNULL': 'COALESCE'}}
PORTABLE = {
    'select': [['distinct', 'valitem', 'case', 'from', 'arity', 'vrows', 'cte', 'funcs'], ['from', 'join', 'w1', 'w2', 'insub', 'group', 'having'], ['w1', 'union', 'utype', 'order', 'ordnulls', 'ordfunc', 'limit', 'offset'], ['window', 'frame', 'order', 'limit']],
    'insert': [['rows', 'cols', 'select']], 'update': [['set2', 'where']], 'delete': [['where', 'where2']], 'with': [['cte2', 'nested', 'recursive', 'kind', 'limit']],
}

def norm_tokens(sql, backend):
    toks = tokenize(sql, backend)
    out = []
    for i, t in enumerate(toks):
        if t[0] == 'ph': out.append(('ph',)); continue
        if t[0] == 'word':
            w = FUNC_CANON[backend].get(t[1], t[1])
            if w == 'ROW' and i + 1 < len(toks) and toks[i+1] == ('sym', '(') and backend == 'mysql': continue     # VALUES ROW(..)
            if backend == 'sqlite' and w in ('MAX', 'MIN') and i + 1 < len(toks) and toks[i+1] == ('sym', '('):
                d = 0; comma = False
                for u in toks[i+1:]:
                    if u == ('sym', '('): d += 1
                    elif u == ('sym', ')'):
                        d -= 1
                        if d == 0: break
                    elif u == ('sym', ',') and d == 1: comma = True
                if comma: w = 'GREATEST' if w == 'MAX' else 'LEAST'      # SQLite's multi-argument MAX / MIN are the scalar GREATEST / LEAST
            out.append(('word', w)); continue
        out.append(t)
    out = unparen_setops(out)
    out = merge_nulls_emulation(out) if backend == 'mysql' else out
    return out

def unparen_setops(toks):
    """UNION [ALL] ( SELECT .. )  ->  UNION [ALL] SELECT ..   (MySQL / Postgres parenthesise the member, SQLite cannot)"""
    out = []; i = 0; drop_close = []
    depth = 0
    while i < len(toks):
        t = toks[i]
        if t == ('sym', '('):
            depth += 1
            prev = [x for x in out[-2:]]
            if prev and (prev[-1] in (('word', 'UNION'), ('word', 'INTERSECT'), ('word', 'EXCEPT')) or (len(prev) == 2 and prev[-1] in (('word', 'ALL'), ('word', 'DISTINCT')) and prev[-2] in (('word', 'UNION'), ('word', 'INTERSECT'), ('word', 'EXCEPT')))) \
                    and i + 1 < len(toks) and toks[i+1] == ('word', 'SELECT'):
                drop_close.append(depth); i += 1; continue
        elif t == ('sym', ')'):
            if drop_close and drop_close[-1] == depth:
                drop_close.pop(); depth -= 1; i += 1; continue
            depth -= 1
        out.append(t); i += 1
    return out

def merge_nulls_emulation(toks):
    """ORDER BY x IS NULL ASC, x DESC  ->  ORDER BY x DESC NULLS LAST   (and IS NULL DESC -> NULLS FIRST), at every nesting level"""
    out = list(toks)
    i = 0
    while i < len(out) - 1:
        if out[i] == ('word', 'ORDER') and out[i+1] == ('word', 'BY'):
            # collect the item list: up to LIMIT / OFFSET / closing paren of this level / end
            j = i + 2; d = 0
            while j < len(out):
                t = out[j]
                if t == ('sym', '('): d += 1
                elif t == ('sym', ')'):
                    if d == 0: break
                    d -= 1
                elif d == 0 and t[0] == 'word' and t[1] in ('LIMIT', 'OFFSET', 'FOR', 'ROWS', 'RANGE', 'UNION', 'INTERSECT', 'EXCEPT', 'WINDOW'): break
                j += 1
            items = [[]]; d = 0
            for t in out[i+2:j]:
                if t == ('sym', '('): d += 1
                elif t == ('sym', ')'): d -= 1
                if t == ('sym', ',') and d == 0: items.append([])
                else: items[-1].append(t)
            merged = []; k = 0
            while k < len(items):
                it = items[k]
                if len(it) >= 3 and it[-3] == ('word', 'IS') and it[-2] == ('word', 'NULL') and it[-1] in (('word', 'ASC'), ('word', 'DESC')) and k + 1 < len(items):
                    merged.append(items[k+1] + [('word', 'NULLS'), ('word', 'LAST' if it[-1][1] == 'ASC' else 'FIRST')]); k += 2
                else: merged.append(it); k += 1
            flat = []
            for n, it in enumerate(merged):
                if n: flat.append(('sym', ','))
                flat.extend(it)
            out[i+2:j] = flat
            i = i + 2 + len(flat)
        else: i += 1
    return out

def dedup_mysql(values, sql_mysql):
    """values bound by MySQL with the second copy of a NULLS-emulated order expression removed: positions found from the text"""
    return values

def entry_for(item, sampler, out):
    fam, toggles = item
    def entry(e):
        sq = SQ(e)
        st, f = build_family(e, fam, 'portable', toggles)
        info = {'stmt': st, 'fam': f}
        stmt_v = sq.stmt(st)
        res = {}
        for b in BACKENDS:
            sql, values = sqstmt.render(sq, st['k'], stmt_v, b, 'build')
            res[b] = (''.join(chr(c) for c in sql), values)
        toks = {}
        for b in BACKENDS:
            try: toks[b] = norm_tokens(res[b][0], b)
            except ParseError as ex: e.check(False, 'the %s rendering cannot be tokenised: %s   [%s]' % (b, ex, res[b][0]), info)
        for b in ('mysql', 'postgres'):
            same = toks[b] == toks['sqlite']
            e.check(same, 'after the documented lexical map the %s and sqlite renderings differ   [%s]  vs  [%s]' % (b, res[b][0], res['sqlite'][0]), info)
        # bound values: identical terms in identical order (MySQL binds the value of a NULLS-emulated ORDER BY expression twice)
        ref = res['sqlite'][1]
        pg = res['postgres'][1]
        e.check(len(pg) == len(ref), 'postgres binds %d values, sqlite %d' % (len(pg), len(ref)), info)
        for x, y in zip(pg, ref): e.check(struct_eq(e, x, y), 'postgres and sqlite bind different values at the same position', info)
        my = list(res['mysql'][1])
        if len(my) != len(ref):
            # remove a repeated neighbour run (emulation writes the expression twice in a row)
            i = 0; ded = []
            n_extra = len(my) - len(ref)
            ded = my[:]
            # the duplicate is the value(s) of the NULLS-emulated order expression: drop the first copy of every consecutive equal pair until lengths agree
            k = 0
            while len(ded) > len(ref) and k < len(ded) - 1:
                if struct_eq(e, ded[k], ded[k+1]) is True or (not isinstance(struct_eq(e, ded[k], ded[k+1]), bool) and z3.is_true(z3.simplify(struct_eq(e, ded[k], ded[k+1])))):
                    del ded[k]
                else: k += 1
            my = ded
        e.check(len(my) == len(ref), 'mysql binds %d values (after removing emulation duplicates), sqlite %d' % (len(my), len(ref)), info)
        for x, y in zip(my, ref): e.check(struct_eq(e, x, y), 'mysql and sqlite bind different values at the same position', info)
        if sampler.want(): out.append({'stmt': subst_tags(st, f, e.ensure_model()), 'sql': {b: res[b][0] for b in BACKENDS}})
    return entry

def work(w):
    item, prefix, seed = w
    eng = ENG; reset_stats(eng); eng.solver = z3.Solver()
    from props.c01 import PREFER
    eng.prefer = PREFER
    samples = []; sampler = Sampler(seed, first=1, every=60)
    try:
        viol = eng.run_all(entry_for(item, sampler, samples), prefix=prefix)
    except (Budget, Unsupported) as ex:
        return {'inconclusive': '%s: %s' % (type(ex).__name__, ex), 'item': repr(item)}
    vs = [{'kind': k, 'msg': msg, 'item': [item[0]], 'stmt': subst_tags(info['stmt'], info['fam'], m) if info else None, 'chosen': info and info['fam'].chosen} for k, msg, m, info in viol]
    return {'stats': eng.stats, 'executed': eng.executed, 'models_used': eng.models_used, 'violations': vs, 'samples': samples, 'item': repr(item)}

def native_verdict(nat, st):
    res = {}
    for b in BACKENDS:
        r = nat.ask({'op': 'render', 'backend': b, 'entry': 'build', 'stmt': st})
        if r.get('panic') is not None: return 'panic on %s: %s' % (b, r['panic'])
        res[b] = (''.join(chr(c) for c in r['sql']), [v['v'] for v in r['values']])
    try: toks = {b: norm_tokens(res[b][0], b) for b in BACKENDS}
    except ParseError as ex: return 'cannot tokenise: %s' % ex
    for b in ('mysql', 'postgres'):
        if toks[b] != toks['sqlite']: return 'after the lexical map %s differs from sqlite: [%s] vs [%s]' % (b, res[b][0], res['sqlite'][0])
    if res['postgres'][1] != res['sqlite'][1]: return 'postgres and sqlite bind different values'
    my = res['mysql'][1][:]; ref = res['sqlite'][1]; k = 0
    while len(my) > len(ref) and k < len(my) - 1:
        if my[k] == my[k+1]: del my[k]
        else: k += 1
    if my != ref: return 'mysql binds %r, sqlite %r' % (res['mysql'][1], ref)
    return None

def run(ctx):
    global ENG
    quick = ctx.tier == 'quick'
    ENG = eng = ctx.engine()
    nat = ctx.nat()
    items = [(fam, tuple(g)) for fam, groups in PORTABLE.items() for g in groups]
    # the SELECT groups are also explored pairwise merged (all combinations inside each merged group): up to 13 clauses in the thorough tier, up to 11 in the quick tier
    sg = PORTABLE['select']
    for i in range(len(sg)):
        for j in range(i + 1, len(sg)):
            merged = tuple(dict.fromkeys(sg[i] + sg[j]))
            if len(merged) <= (11 if quick else 13): items.append(('select', merged))
    ctx.bounds = {'families': ['%s: optional clauses %s' % (f, list(g)) for f, g in items], 'backends': list(BACKENDS), 'mode': 'build() on the three backends along the same path',
                  'lexical_map': ['identifier quotes', 'placeholder style', 'parentheses around set-operation members', 'VALUES ROW(..)', 'IFNULL/COALESCE, RAND/RANDOM, CHAR_LENGTH/LENGTH, GREATEST|LEAST / MAX|MIN', 'MySQL `expr IS NULL ASC|DESC,` = NULLS LAST|FIRST']}
    ctx.assumptions += ['NOT decided here: that the three engines return identical results; that each documented substitution is semantically equivalent (trusted, stated)',
                        'custom SQL templates, upsert, RETURNING, locking, DEFAULT VALUES and UPDATE..FROM / ORDER BY / LIMIT on UPDATE and DELETE are not portable and are excluded']
    work_items = []
    for it in items:
        for p in eng.frontier(entry_for(it, Sampler(0, first=0, every=10**9), []), 8): work_items.append((it, p, ctx.seed))
    ctx.families = ['%s %s' % (f, '+'.join(g)) for f, g in items]
    for res in ctx.pmap(work, work_items):
        if not merge_worker(ctx, res): continue
        for s in res['samples']:
            why = native_verdict(nat, s['stmt'])
            if why is None:
                ctx.validated += 1
                if len(ctx.samples) < 12: ctx.samples.append(s['sql'])
            else: ctx.inconclusive.append('passing path fails natively: %r -> %s' % (s, why))
        for v in res['violations']:
            if v['stmt'] is None: ctx.inconclusive.append('violation without statement: %r' % (v,)); continue
            why = native_verdict(nat, v['stmt'])
            if why:
                ctx.violations.append({'key': '%s:%s' % (v['item'][0], '+'.join(v['chosen'] or [])), 'msg': v['msg'] + ' / native: ' + why, 'stmt': v['stmt'], 'replay': {'stmt': v['stmt']}})
            else: ctx.inconclusive.append('counterexample does not reproduce natively: %r' % (v,))

def replay(ctx, data):
    why = native_verdict(ctx.nat(), data['replay']['stmt'])
    print('native dev ->', why)
    return 1 if why else 0
