"""C18 - with hashable-value, Value equality is an equivalence relation coherent with hashing (engine K: Kani)."""
from props import c12

BOUNDS = {'values': 'all 14 default variants, NULL and non-NULL; floats by arbitrary bit pattern (every NaN payload, signed zeros, infinities); String / Bytes of length 1 with a symbolic byte',
          'pairs': 'all pairs (symmetry, different variants never equal, equal => identical Hash byte stream via a recording Hasher)',
          'triples': 'transitivity per variant (Double, Float, the ten integer-like variants): different variants are never equal by the pairs harness', 'tuples': 'ValueTuple::Two of (Int, Double) pairs with arbitrary payloads, order and arity sensitivity',
          'unwind': '26 (recording hasher buffer of 24 bytes); Kani unwinding assertions are on'}
ASSUME = ['equal Hash byte streams imply equal hashes for every Hasher', 'JSON key order, arrays and pgvector (external crates / other features) are outside the claim',
          'ordered-float 4.6 is compiled and checked as part of the harness (it is real code, not a model)']

def run(ctx):
    c12.run(ctx, prefix='c18_', features='hashable', bounds=BOUNDS, assume=ASSUME)

def replay(ctx, data):
    return c12.replay(ctx, data)
