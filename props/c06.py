"""C06 - WHERE / HAVING / ON / CASE WHEN mean the conjunction of the conditions that were added (three-valued logic).

Exec (MIR of the current tree): Condition::{any, all, add, add_option, not, to_simple_expr}, ConditionHolder::add_condition, cond_where / and_where /
cond_having / and_having of the statements, join conditions, CaseStatement::case, prepare_condition[_where], binary_expr for AND / OR / NOT.
Sym: the shape of every condition tree and of the call history is chosen by the engine (exhaustive forking); the truth value of every atom is a pair of
solver Booleans (true / false / NULL).  Oracle: Kleene evaluation of the specification vs. of the re-parsed rendered predicate; z3 proves equivalence."""
import z3
from interp import Cell, Ref, Str, Adt, VecV, Budget, Unsupported, PathEnd, is_sym
from props.common import *
from props.sq import SQ, to_json
from props import sqstmt
from props.sqlparse import parse, ParseError

ENG = None
NONE_MODE = 'top'      # 'top': add_option(None) members only in the top group of the first call (quick); 'all': everywhere (thorough)
def V(t, v): return {'t': t, 'v': v}
NATOMS = 5

def atom_expr(i):
    k = i % 3
    if k == 0: return ['col', 'a%d' % i]
    if k == 1: return ['bin', 'Equal', ['col', 'a%d' % i], ['val', V('Int', 1)]]
    return ['func', 'cust:A%d' % i, []]

def gen_tree(e, depth, width, counter, allow_none=True):
    """a condition tree chosen by the engine: ['any'|'all', negate, members]"""
    kind = ['any', 'all'][e.choose(2, 'kind')]
    neg = bool(e.choose(2, 'neg'))
    n = e.choose(width + 1, 'n')
    members = []
    for _ in range(n):
        # present optional members (add_option(Some(..)) of an expression / of a group) where absent ones are allowed
        opts = ['atom'] + (['none', 'optatom'] if allow_none else []) + (['nested'] if depth > 1 else []) + (['optnested'] if depth > 1 and allow_none else [])
        o = opts[e.choose(len(opts), 'member')]
        if o == 'atom':
            members.append(atom_expr(counter[0] % NATOMS)); counter[0] += 1
        elif o == 'optatom':
            members.append(['opt', atom_expr(counter[0] % NATOMS)]); counter[0] += 1
        elif o == 'none': members.append(None)
        elif o == 'optnested': members.append(['optg', gen_tree(e, depth - 1, width, counter, allow_none == 'all')])
        else: members.append(gen_tree(e, depth - 1, width, counter, allow_none == 'all'))
    return [kind, neg, members]

# ---- Kleene logic over (t, f) pairs
def k_and(xs):
    return (z3.And(*[x[0] for x in xs]) if xs else z3.BoolVal(True), z3.Or(*[x[1] for x in xs]) if xs else z3.BoolVal(False))
def k_or(xs):
    return (z3.Or(*[x[0] for x in xs]) if xs else z3.BoolVal(False), z3.And(*[x[1] for x in xs]) if xs else z3.BoolVal(True))
def k_not(x): return (x[1], x[0])

def atom_val(i): return (z3.Bool('t%d' % i), z3.Bool('f%d' % i))

def spec_tree(t):
    if t[0] in ('any', 'all'):
        ms = [spec_tree(m[1] if m[0] in ('opt', 'optg') else m) for m in t[2] if m is not None]
        v = k_or(ms) if t[0] == 'any' else k_and(ms)
        return k_not(v) if t[1] else v
    return atom_of_expr(t)

def atom_of_expr(t):
    if t[0] == 'col': return atom_val(int(t[1][1:]))
    if t[0] == 'bin': return atom_val(int(t[2][1][1:]))
    if t[0] == 'func': return atom_val(int(t[1][6:]))
    raise Unsupported('atom %r' % (t,))

def eval_parsed(p):
    k = p[0]
    if k == 'bin' and p[1] == 'AND': return k_and([eval_parsed(p[2]), eval_parsed(p[3])])
    if k == 'bin' and p[1] == 'OR': return k_or([eval_parsed(p[2]), eval_parsed(p[3])])
    if k == 'not': return k_not(eval_parsed(p[1]))
    if k == 'kw' and p[1] == 'TRUE': return (z3.BoolVal(True), z3.BoolVal(False))
    if k == 'kw' and p[1] == 'FALSE': return (z3.BoolVal(False), z3.BoolVal(True))
    if k == 'col' and p[1].startswith('a'): return atom_val(int(p[1][1:]))
    if k == 'bin' and p[1] == '=' and p[2][0] == 'col' and p[3] == ('num', '1'): return atom_val(int(p[2][1][1:]))
    if k == 'func' and p[1].startswith('A') and not p[2]: return atom_val(int(p[1][1:]))
    raise ParseError('unexpected node in a predicate: %r' % (p,))

CONTEXTS = ['select_where', 'select_having', 'update_where', 'delete_where', 'join_on', 'case_when']

def make_stmt(ctx_name, calls):
    """calls: list of ('cond', tree) | ('and', expr)"""
    def cc(prefix):
        out = []
        for kind, x in calls:
            out.append([('cond_' if kind == 'cond' else 'and_') + prefix, x])
        return out
    if ctx_name == 'select_where': return {'k': 'select', 'calls': [['column', ['col', 'x']], ['from', ['t', 't']]] + cc('where')}, ' WHERE '
    if ctx_name == 'select_having': return {'k': 'select', 'calls': [['column', ['col', 'x']], ['from', ['t', 't']], ['group_by', ['col', 'x']]] + cc('having')}, ' HAVING '
    if ctx_name == 'update_where': return {'k': 'update', 'calls': [['table', ['t', 't']], ['value', 'x', ['val', V('Int', 5)]]] + cc('where')}, ' WHERE '
    if ctx_name == 'delete_where': return {'k': 'delete', 'calls': [['from_table', ['t', 't']]] + cc('where')}, ' WHERE '
    if ctx_name == 'join_on':
        assert len(calls) == 1 and calls[0][0] == 'cond'
        return {'k': 'select', 'calls': [['column', ['col', 'x']], ['from', ['t', 't']], ['join', 'InnerJoin', ['t', 'u'], calls[0][1]]]}, ' ON '
    if ctx_name == 'case_when':
        assert len(calls) == 1 and calls[0][0] == 'cond'
        return {'k': 'select', 'calls': [['expr', ['case', [[calls[0][1], ['val', V('Int', 7)]]], None]]]}, 'WHEN '
    raise Unsupported(ctx_name)

def entry_for(item, sampler, out):
    ctx_name, backend, H, D, W = item[:5]
    none_mode = item[5] if len(item) > 5 else NONE_MODE
    def entry(e):
        sq = SQ(e)
        counter = [0]
        ncalls = e.choose(H + 1, 'ncalls') if ctx_name not in ('join_on', 'case_when') else 1
        calls = []
        for ci in range(ncalls):
            if ctx_name not in ('join_on', 'case_when') and e.choose(2, 'callkind') == 1:
                calls.append(('and', atom_expr(counter[0] % NATOMS))); counter[0] += 1
            else:
                # later calls of a history use shallower trees (the merge logic only looks at the top node)
                d = D if ci == 0 else max(1, D - 1)
                calls.append(('cond', gen_tree(e, d, W, counter, none_mode if ci == 0 else (none_mode == 'all'))))
        st, kw = make_stmt(ctx_name, calls)
        txt, _ = sqstmt.render(sq, st['k'], sq.stmt(st), backend)
        s = ''.join(chr(c) for c in txt)
        info = {'stmt': st, 'sql': s}
        if not calls:
            e.check(kw not in s, 'a statement that was given no condition renders a predicate   [%s]' % s, info)
            return
        if ctx_name == 'join_on' and kw not in s:
            # JOIN with an empty condition renders no ON
            pred = None
        else:
            e.check(kw in s, 'the conditions were dropped: no %s in   [%s]' % (kw.strip(), s), info)
            pred = s.split(kw, 1)[1]
            if ctx_name == 'case_when': pred = pred.rsplit(' THEN ', 1)[0]
        spec = k_and([spec_tree(x) if kind == 'cond' else atom_of_expr(x) for kind, x in calls])
        if pred is None:
            got = (z3.BoolVal(True), z3.BoolVal(False))
        else:
            try:
                got = eval_parsed(parse(pred, backend))
            except ParseError as ex:
                e.check(False, 'rendered predicate does not parse: %s   [%s]' % (ex, s), info)
        valid = [z3.Not(z3.And(z3.Bool('t%d' % i), z3.Bool('f%d' % i))) for i in range(NATOMS)]
        for c in valid: e.add(c)
        e.check(z3.And(spec[0] == got[0], spec[1] == got[1]),
                'the rendered predicate is not equivalent (three-valued logic) to the AND of the supplied conditions   [%s]' % s, info)
        if sampler.want(): out.append({'context': ctx_name, 'backend': backend, 'stmt': st, 'sql': s})
    return entry

def work(w):
    item, prefix, seed = w
    eng = ENG; reset_stats(eng); eng.solver = z3.Solver()
    samples = []; sampler = Sampler(seed, first=1, every=400)
    try:
        viol = eng.run_all(entry_for(item, sampler, samples), prefix=prefix)
    except (Budget, Unsupported) as ex:
        return {'inconclusive': '%s: %s' % (type(ex).__name__, ex), 'item': repr(item)}
    vs = []
    for k, msg, m, info in viol:
        asg = None
        if m is not None:
            asg = {}
            for i in range(NATOMS):
                t = z3.is_true(m.eval(z3.Bool('t%d' % i), model_completion=True)); f = z3.is_true(m.eval(z3.Bool('f%d' % i), model_completion=True))
                asg['a%d' % i] = 'TRUE' if t else ('FALSE' if f else 'NULL')
        vs.append({'kind': k, 'msg': msg, 'item': list(item), 'stmt': info and info.get('stmt'), 'sql': info and info.get('sql'), 'assignment': asg})
    return {'stats': eng.stats, 'executed': eng.executed, 'models_used': eng.models_used, 'violations': vs, 'samples': samples, 'item': list(item)}

def conc_eval(p, asg):
    """Kleene evaluation of a parsed predicate under a concrete assignment: True / False / None"""
    k = p[0]
    def A(x, y):
        if x is False or y is False: return False
        if x is None or y is None: return None
        return True
    def O(x, y):
        if x is True or y is True: return True
        if x is None or y is None: return None
        return False
    if k == 'bin' and p[1] == 'AND': return A(conc_eval(p[2], asg), conc_eval(p[3], asg))
    if k == 'bin' and p[1] == 'OR': return O(conc_eval(p[2], asg), conc_eval(p[3], asg))
    if k == 'not':
        v = conc_eval(p[1], asg); return None if v is None else (not v)
    if k == 'kw': return p[1] == 'TRUE'
    name = p[1] if k == 'col' else (p[2][1] if k == 'bin' else 'a' + p[1][1:])
    return {'TRUE': True, 'FALSE': False, 'NULL': None}[asg[name.lower()]]

def conc_spec(t, asg):
    def val(x): return {'TRUE': True, 'FALSE': False, 'NULL': None}[asg[x]]
    if t[0] in ('any', 'all'):
        ms = [conc_spec(m[1] if m[0] in ('opt', 'optg') else m, asg) for m in t[2] if m is not None]
        if t[0] == 'any': v = True if True in ms else (None if None in ms else False)
        else: v = False if False in ms else (None if None in ms else True)
        return (None if v is None else (not v)) if t[1] else v
    if t[0] == 'col': return val(t[1])
    if t[0] == 'bin': return val(t[2][1])
    return val('a' + t[1][6:])

def native_verdict(v, r):
    """re-evaluate the property on the native rendering under the counterexample assignment"""
    if r.get('panic') is not None: return 'panic: ' + r['panic']
    s = ''.join(chr(c) for c in r['sql'])
    ctx_name = v['item'][0]; st = v['stmt']
    kw = {'select_where': ' WHERE ', 'select_having': ' HAVING ', 'update_where': ' WHERE ', 'delete_where': ' WHERE ', 'join_on': ' ON ', 'case_when': 'WHEN '}[ctx_name]
    calls = []
    for c in st['calls']:
        if c[0].startswith(('cond_', 'and_')): calls.append(c[1])
        if c[0] == 'join': calls.append(c[3])
        if c[0] == 'expr' and c[1][0] == 'case': calls.append(c[1][1][0][0])
    if not calls: return ('renders a predicate without conditions [%s]' % s) if kw in s else None
    if kw not in s:
        if ctx_name == 'join_on': pred = None
        else: return 'conditions dropped [%s]' % s
    else:
        pred = s.split(kw, 1)[1]
        if ctx_name == 'case_when': pred = pred.rsplit(' THEN ', 1)[0]
    asg = v['assignment'] or {('a%d' % i): 'TRUE' for i in range(NATOMS)}
    try: got = True if pred is None else conc_eval(parse(pred, v['item'][1]), asg)
    except ParseError as ex: return 'does not parse: %s [%s]' % (ex, s)
    vals = [conc_spec(c, asg) for c in calls]
    want = False if False in vals else (None if None in vals else True)
    if got != want: return 'under %r the rendered predicate is %r, the supplied conditions give %r [%s]' % (asg, got, want, s)
    return None

def run(ctx):
    global ENG, NONE_MODE
    quick = ctx.tier == 'quick'
    NONE_MODE = 'top' if quick else 'all'
    ENG = eng = ctx.engine()
    nat = ctx.nat()
    items = []
    if quick:
        items += [('select_where', 'mysql', 2, 2, 2)]
        for c in ('select_having', 'update_where', 'delete_where'): items.append((c, 'mysql', 2, 1, 2))
        items += [('join_on', 'mysql', 1, 2, 2), ('case_when', 'mysql', 1, 2, 2), ('select_where', 'postgres', 2, 1, 2), ('select_where', 'sqlite', 2, 1, 2)]
    else:
        # add_option(None) members at every level ('all') only where the history is short; the deeper items keep them in the top group of the first call
        items += [('select_where', 'mysql', 1, 2, 2, 'all'), ('select_where', 'mysql', 2, 2, 2, 'top'), ('select_where', 'mysql', 1, 2, 3, 'top'), ('select_where', 'mysql', 3, 1, 2, 'top'), ('select_where', 'postgres', 2, 2, 2, 'top'), ('select_where', 'sqlite', 2, 2, 2, 'top')]
        for c in ('select_having', 'update_where', 'delete_where'): items.append((c, 'mysql', 2, 2, 2, 'top'))
        items += [('join_on', 'mysql', 1, 2, 3, 'top'), ('join_on', 'mysql', 1, 2, 2, 'all'), ('case_when', 'mysql', 1, 2, 3, 'top'),      # depth-3 trees did not finish within the thorough budget once present-optional members were added
                   ('join_on', 'postgres', 1, 2, 2, 'all'), ('case_when', 'sqlite', 1, 2, 2, 'all')]
    ctx.bounds = {'items': ['%s/%s: history of <= %d calls, trees of depth <= %d and width <= %d' % it[:5] + (' (absent optional members: %s)' % it[5] if len(it) > 5 else '') for it in items],
                  'atoms': '%d atoms of three rendering kinds (column, comparison, function call); every atom is TRUE / FALSE / NULL (two solver Booleans)' % NATOMS,
                  'members': 'atom | nested group | add_option(None) (%s); any / all; negated or not; empty groups' % ('only in the top group of the first call' if quick else 'at every level')}
    ctx.assumptions += ['atoms are independent three-valued unknowns', 'the rendered predicate is read back with the reference parser of props/sqlparse.py',
                        'the #[doc(hidden)] and_or_where chain API is not part of the property']
    # translator validation on the statement corpus entries that carry conditions
    from props.corpus import STATEMENTS
    for st in [s for s in STATEMENTS if any(c[0] in ('cond_where', 'and_where', 'join', 'cond_having') for c in s.get('calls', []))][:8]:
        for b in BACKENDS:
            res = {}
            def ent(e, st=st, b=b):
                sq = SQ(e); txt, _ = sqstmt.render(sq, st['k'], sq.stmt(st), b); res['sql'] = expand(list(txt), None, nat)
            eng.run_all(ent)
            r = nat.ask({'op': 'render', 'backend': b, 'entry': 'to_string', 'stmt': to_json(st)})
            if res.get('sql') == r.get('sql'): ctx.validated += 1
            else: ctx.inconclusive.append('translator validation: %r engine %r native %r' % (st, res, r))
    ctx.absorb(eng)
    work_items = []
    for it in items:
        prefixes = eng.frontier(entry_for(it, Sampler(0, first=0, every=10**9), []), ctx.workers * 4)
        for p in prefixes: work_items.append((it, p, ctx.seed))
    ctx.families = ['%s/%s H<=%d D<=%d W<=%d' % it[:5] for it in items]
    for res in ctx.pmap(work, work_items):
        if not merge_worker(ctx, res): continue
        for s in res['samples']:
            r = nat.ask({'op': 'render', 'backend': s['backend'], 'entry': 'to_string', 'stmt': s['stmt']})
            if r.get('sql') == [ord(c) for c in s['sql']]:
                ctx.validated += 1
                if len(ctx.samples) < 12: ctx.samples.append({'context': s['context'], 'backend': s['backend'], 'sql': s['sql']})
            else: ctx.inconclusive.append('passing path does not agree with the native build: %r -> %r' % (s, r))
        for v in res['violations']:
            if v['stmt'] is None: ctx.inconclusive.append('violation without statement: %r' % (v,)); continue
            req = {'op': 'render', 'backend': v['item'][1], 'entry': 'to_string', 'stmt': v['stmt']}
            r = nat.ask(req)
            why = native_verdict(v, r)
            if why:
                ctx.violations.append({'key': '%s:%s' % (v['item'][0], shape_key(v['stmt'])), 'msg': v['msg'] + ' / native: ' + why, 'stmt': v['stmt'], 'assignment': v['assignment'],
                                       'item': v['item'], 'replay': req})
            else:
                ctx.inconclusive.append('counterexample does not reproduce natively: %r -> %r' % (v, r))

def shape_key(st):
    def sk(t):
        if t is None: return '-'
        if t[0] in ('opt', 'optg'): return '?' + sk(t[1])
        if t[0] in ('any', 'all'): return ('!' if t[1] else '') + t[0] + '[' + ','.join(sk(m) for m in t[2]) + ']'
        return 'a'
    parts = []
    for c in st['calls']:
        if c[0].startswith('cond_'): parts.append(sk(c[1]))
        elif c[0].startswith('and_'): parts.append('and')
        elif c[0] == 'join': parts.append(sk(c[3]))
        elif c[0] == 'expr' and c[1][0] == 'case': parts.append(sk(c[1][1][0][0]))
    return ';'.join(parts)

def replay(ctx, data):
    r = ctx.nat().ask(data['replay'])
    why = native_verdict(data, r)
    print('native dev:', ''.join(chr(c) for c in r.get('sql') or []), r.get('panic'), '->', why)
    return 1 if why else 0
