"""schema-statement scripts -> sea-query schema statements inside the MIR engine.  Mirror of /verif/replay/src/ddl.rs."""
from interp import Cell, Ref, Adt, Str, VecV, UNIT, Unsupported
from models import some, none, as_str, unref
from props.sqstmt import tableref, vec, DI, S
from props.sq import BACKENDS

CD = 'table::column::ColumnDef::'
IX = 'index::create::IndexCreateStatement::'
FK = 'foreign_key::create::ForeignKeyCreateStatement::'
TC = 'table::create::TableCreateStatement::'
TA = 'table::alter::TableAlterStatement::'

def string_len(x):
    if isinstance(x, str): return Adt('StringLen', x, [])
    return Adt('StringLen', 'N', [Cell(x[1])])
def opt(x): return none() if x is None else some(x)
def opt_pair(x): return none() if x is None else some(Adt('tuple', None, [Cell(x[0]), Cell(x[1])]))

def column_type(sq, t):
    if isinstance(t, str): return Adt('ColumnType', t, [])
    k = t[0]
    if k == 'Char': return Adt('ColumnType', 'Char', [Cell(opt(t[1]))])
    if k == 'String': return Adt('ColumnType', 'String', [Cell(string_len(t[1]))])
    if k in ('Decimal', 'Money'): return Adt('ColumnType', k, [Cell(opt_pair(t[1]))])
    if k == 'Interval': return Adt('ColumnType', 'Interval', [Cell(none()), Cell(opt(t[2]))])
    if k == 'Binary': return Adt('ColumnType', 'Binary', [Cell(t[1])])
    if k == 'VarBinary': return Adt('ColumnType', 'VarBinary', [Cell(string_len(t[1]))])
    if k == 'Bit': return Adt('ColumnType', 'Bit', [Cell(opt(t[1]))])
    if k == 'VarBit': return Adt('ColumnType', 'VarBit', [Cell(t[1])])
    if k == 'Custom': return Adt('ColumnType', 'Custom', [Cell(sq.iden(t[1]))])
    if k == 'Enum': return Adt('ColumnType', 'Enum', [Cell(sq.iden(t[1])), Cell(vec([sq.iden(x) for x in t[2]]))])
    if k == 'Array': return Adt('ColumnType', 'Array', [Cell(Ref(Cell(column_type(sq, t[1])), False, 'rc'))])
    raise Unsupported('column type %r' % (k,))

def column_def(sq, j):
    e = sq.e
    if j.get('type') is None: c = e.call(CD + 'new::<%s>' % DI, [sq.iden(j['name'])])
    else: c = e.call(CD + 'new_with_type::<%s>' % DI, [sq.iden(j['name']), column_type(sq, j['type'])])
    cc = Cell(c); r = Ref(cc, True)
    for s in j['specs']:
        if isinstance(s, str):
            meth = {'Null': 'null', 'NotNull': 'not_null', 'AutoIncrement': 'auto_increment', 'UniqueKey': 'unique_key', 'PrimaryKey': 'primary_key'}[s]
            e.call(CD + meth, [r])
        else:
            k = s[0]
            if k == 'Default': e.call(CD + 'default::<%s>' % S, [r, sq.expr(s[1])])
            elif k == 'Check': e.call(CD + 'check::<%s>' % S, [r, sq.expr(s[1])])
            elif k == 'Generated': e.call(CD + 'generated::<%s>' % S, [r, sq.expr(s[1]), bool(s[2])])
            elif k == 'Extra': e.call(CD + 'extra::<std::string::String>', [r, sq.string(s[1])])
            elif k == 'Comment': e.call(CD + 'comment::<std::string::String>', [r, sq.string(s[1])])
            elif k == 'Using': e.call(CD + 'using::<%s>' % S, [r, sq.expr(s[1])])
            else: raise Unsupported('column spec %r' % (k,))
    return cc.v

def index_create(sq, j):
    ic = Cell(sq.e.call(IX + 'new', [])); index_apply(sq, ic, j['calls']); return ic.v
def index_apply(sq, ic, calls):
    e = sq.e; r = Ref(ic, True)
    for c in calls:
        k = c[0]
        if k == 'name': e.call(IX + 'name::<std::string::String>', [r, sq.string(c[1])])
        elif k == 'table': e.call(IX + 'table::<types::TableRef>', [r, tableref(sq, c[1])])
        elif k == 'col':
            order = none() if len(c) < 3 or c[2] is None else some(Adt('IndexOrder', c[2], []))
            prefix = none() if len(c) < 4 or c[3] is None else some(c[3])
            e.call(IX + 'col::<index::common::IndexColumn>', [r, Adt('IndexColumn', None, [Cell(sq.iden(c[1])), Cell(prefix), Cell(order)])])
        elif k in ('primary', 'unique', 'nulls_not_distinct', 'full_text', 'if_not_exists'): e.call(IX + k, [r])
        elif k == 'index_type':
            t = Adt('IndexType', c[1], []) if c[1] in ('BTree', 'FullText', 'Hash') else Adt('IndexType', 'Custom', [Cell(sq.iden(c[1]))])
            e.call(IX + 'index_type', [r, t])
        elif k == 'include': e.call(IX + 'include::<%s>' % DI, [r, sq.iden(c[1])])
        elif k == 'and_where': e.call('<index::create::IndexCreateStatement as query::condition::ConditionalStatement>::and_where', [r, sq.expr(c[1])])
        else: raise Unsupported('index call ' + k)

def fk_create(sq, j):
    fc = Cell(sq.e.call(FK + 'new', [])); fk_apply(sq, fc, j['calls']); return fc.v
def fk_apply(sq, fc, calls):
    e = sq.e; r = Ref(fc, True)
    for c in calls:
        k = c[0]
        if k == 'name': e.call(FK + 'name::<std::string::String>', [r, sq.string(c[1])])
        elif k in ('from_tbl', 'to_tbl'): e.call(FK + '%s::<types::TableRef>' % k, [r, tableref(sq, c[1])])
        elif k in ('from_col', 'to_col'): e.call(FK + '%s::<%s>' % (k, DI), [r, sq.iden(c[1])])
        elif k in ('on_delete', 'on_update'): e.call(FK + k, [r, Adt('ForeignKeyAction', c[1], [])])
        else: raise Unsupported('fk call ' + k)

def table_create(sq, j):
    tc = Cell(sq.e.call(TC + 'new', [])); table_create_apply(sq, tc, j['calls']); return tc.v
def table_create_apply(sq, tc, calls):
    e = sq.e; r = Ref(tc, True)
    for c in calls:
        k = c[0]
        if k == 'table': e.call(TC + 'table::<types::TableRef>', [r, tableref(sq, c[1])])
        elif k in ('if_not_exists', 'temporary'): e.call(TC + k, [r])
        elif k == 'col': e.call(TC + 'col::<table::column::ColumnDef>', [r, column_def(sq, c[1])])
        elif k in ('index', 'primary_key'): e.call(TC + k, [r, Ref(Cell(index_create(sq, c[1])), True)])
        elif k == 'foreign_key': e.call(TC + 'foreign_key', [r, Ref(Cell(fk_create(sq, c[1])), True)])
        elif k == 'check': e.call(TC + 'check', [r, sq.expr(c[1])])
        elif k in ('comment', 'engine', 'collate', 'character_set', 'extra'): e.call(TC + '%s::<std::string::String>' % k, [r, sq.string(c[1])])
        else: raise Unsupported('table create call ' + k)

def table_alter(sq, j):
    tc = Cell(sq.e.call(TA + 'new', [])); table_alter_apply(sq, tc, j['calls']); return tc.v
def table_alter_apply(sq, tc, calls):
    e = sq.e; r = Ref(tc, True)
    for c in calls:
        k = c[0]
        if k == 'table': e.call(TA + 'table::<types::TableRef>', [r, tableref(sq, c[1])])
        elif k in ('add_column', 'add_column_if_not_exists', 'modify_column'): e.call(TA + '%s::<table::column::ColumnDef>' % k, [r, column_def(sq, c[1])])
        elif k == 'rename_column': e.call(TA + 'rename_column::<%s, %s>' % (DI, DI), [r, sq.iden(c[1]), sq.iden(c[2])])
        elif k == 'drop_column': e.call(TA + 'drop_column::<%s>' % DI, [r, sq.iden(c[1])])
        elif k == 'add_foreign_key':
            fk = fk_create(sq, c[1])
            tfk = e.call(FK + 'get_foreign_key', [Ref(Cell(fk))])
            e.call(TA + 'add_foreign_key', [r, tfk])
        elif k == 'drop_foreign_key': e.call(TA + 'drop_foreign_key::<%s>' % DI, [r, sq.iden(c[1])])
        else: raise Unsupported('table alter call ' + k)

def simple(sq, ty, new, calls, table):
    """statements whose calls take no / one table-ref / one string argument"""
    c0 = Cell(sq.e.call(new, [])); simple_apply(sq, c0, calls, table); return c0.v
def simple_apply(sq, c0, calls, table):
    e = sq.e; r = Ref(c0, True)
    for c in calls:
        k = c[0]; kind, path = table[k]
        if kind == 'unit': e.call(path, [r])
        elif kind == 'table': e.call(path, [r, tableref(sq, c[1])])
        elif kind == 'table2': e.call(path, [r, tableref(sq, c[1]), tableref(sq, c[2])])
        elif kind == 'string': e.call(path, [r, sq.string(c[1])])
        elif kind == 'iden': e.call(path, [r, sq.iden(c[1])])
        elif kind == 'idens': e.call(path, [r, vec([sq.iden(x) for x in c[1]])])
        else: raise Unsupported(kind)

DROP_P = 'table::drop::TableDropStatement::'
SIMPLE_TABLES = {
 'table_drop': {'table': ('table', DROP_P + 'table::<types::TableRef>'), 'if_exists': ('unit', DROP_P + 'if_exists'), 'restrict': ('unit', DROP_P + 'restrict'), 'cascade': ('unit', DROP_P + 'cascade')},
 'table_rename': {'table': ('table2', 'table::rename::TableRenameStatement::table::<types::TableRef, types::TableRef>')},
 'table_truncate': {'table': ('table', 'table::truncate::TableTruncateStatement::table::<types::TableRef>')},
}
def apply_calls(sq, kind, cell, calls):
    """apply further builder calls to an existing statement held in `cell`"""
    if kind == 'table_create': table_create_apply(sq, cell, calls)
    elif kind == 'table_alter': table_alter_apply(sq, cell, calls)
    elif kind == 'index_create': index_apply(sq, cell, calls)
    elif kind == 'fk_create': fk_apply(sq, cell, calls)
    elif kind in SIMPLE_TABLES: simple_apply(sq, cell, calls, SIMPLE_TABLES[kind])
    else: raise Unsupported('apply_calls on ' + kind)

def build(sq, st):
    """-> (statement value, trait, prepare method)"""
    k = st['k']
    if k == 'table_create': return table_create(sq, st), 'TableBuilder', 'prepare_table_create_statement'
    if k == 'table_alter': return table_alter(sq, st), 'TableBuilder', 'prepare_table_alter_statement'
    if k == 'table_drop':
        P = 'table::drop::TableDropStatement::'
        return simple(sq, P, P + 'new', st['calls'], {'table': ('table', P + 'table::<types::TableRef>'), 'if_exists': ('unit', P + 'if_exists'), 'restrict': ('unit', P + 'restrict'), 'cascade': ('unit', P + 'cascade')}), 'TableBuilder', 'prepare_table_drop_statement'
    if k == 'table_rename':
        P = 'table::rename::TableRenameStatement::'
        return simple(sq, P, P + 'new', st['calls'], {'table': ('table2', P + 'table::<types::TableRef, types::TableRef>')}), 'TableBuilder', 'prepare_table_rename_statement'
    if k == 'table_truncate':
        P = 'table::truncate::TableTruncateStatement::'
        return simple(sq, P, P + 'new', st['calls'], {'table': ('table', P + 'table::<types::TableRef>')}), 'TableBuilder', 'prepare_table_truncate_statement'
    if k == 'index_create': return index_create(sq, st), 'IndexBuilder', 'prepare_index_create_statement'
    if k == 'index_drop':
        P = 'index::drop::IndexDropStatement::'
        return simple(sq, P, P + 'new', st['calls'], {'name': ('string', P + 'name::<std::string::String>'), 'table': ('table', P + 'table::<types::TableRef>'), 'if_exists': ('unit', P + 'if_exists')}), 'IndexBuilder', 'prepare_index_drop_statement'
    if k == 'fk_create': return fk_create(sq, st), 'ForeignKeyBuilder', 'prepare_foreign_key_create_statement'
    if k == 'fk_drop':
        P = 'foreign_key::drop::ForeignKeyDropStatement::'
        return simple(sq, P, P + 'new', st['calls'], {'name': ('string', P + 'name::<std::string::String>'), 'table': ('table', P + 'table::<types::TableRef>')}), 'ForeignKeyBuilder', 'prepare_foreign_key_drop_statement'
    if k == 'type_create':
        P = 'extension::postgres::types::TypeCreateStatement::'
        return simple(sq, P, P + 'new', st['calls'], {'as_enum': ('iden', P + 'as_enum::<%s>' % DI), 'values': ('idens', P + 'values::<%s, Vec<%s>>' % (DI, DI))}), 'TypeBuilder', 'prepare_type_create_statement'
    if k == 'type_drop':
        P = 'extension::postgres::types::TypeDropStatement::'
        return simple(sq, P, P + 'new', st['calls'], {'name': ('iden', P + 'name::<%s>' % DI), 'if_exists': ('unit', P + 'if_exists'), 'cascade': ('unit', P + 'cascade'), 'restrict': ('unit', P + 'restrict')}), 'TypeBuilder', 'prepare_type_drop_statement'
    if k == 'type_alter':
        e = sq.e; P = 'extension::postgres::types::TypeAlterStatement::'
        t = e.call(P + 'new', [])
        for c in st['calls']:
            m = c[0]
            if m == 'if_not_exists': t = e.call(P + m, [t])
            elif m == 'rename_value': t = e.call(P + 'rename_value::<%s, %s>' % (DI, DI), [t, sq.iden(c[1]), sq.iden(c[2])])
            else: t = e.call(P + '%s::<%s>' % (m, DI), [t, sq.iden(c[1])])
        return t, 'TypeBuilder', 'prepare_type_alter_statement'
    if k == 'extension_create':
        P = 'extension::postgres::extension::ExtensionCreateStatement::'
        return simple(sq, P, P + 'new', st['calls'], {'name': ('string', P + 'name::<std::string::String>'), 'schema': ('string', P + 'schema::<std::string::String>'), 'version': ('string', P + 'version::<std::string::String>'),
                                                      'cascade': ('unit', P + 'cascade'), 'if_not_exists': ('unit', P + 'if_not_exists')}), 'ExtensionBuilder', 'prepare_extension_create_statement'
    if k == 'extension_drop':
        P = 'extension::postgres::extension::ExtensionDropStatement::'
        return simple(sq, P, P + 'new', st['calls'], {'name': ('string', P + 'name::<std::string::String>'), 'cascade': ('unit', P + 'cascade'), 'restrict': ('unit', P + 'restrict'), 'if_exists': ('unit', P + 'if_exists')}), 'ExtensionBuilder', 'prepare_extension_drop_statement'
    raise Unsupported('schema statement kind ' + k)

def render(sq, st, backend):
    """-> sql chars (schema statements are always rendered inline)"""
    e = sq.e
    v, trait, meth = build(sq, st)
    out = Str([])
    b = Ref(Cell(Adt(BACKENDS[backend], None, [])))
    e.call('<Self as backend::%s>::%s' % (trait, meth), [b, Ref(Cell(v)), Ref(Cell(out), True)])
    return out.chars
