"""C16 - the SQL tokenizer is lossless, always terminates, and keeps quoted regions as one token.

Exec: Tokenizer::{next, space, unquoted, quoted, punctuation, get, inc, end, is_*} from the MIR of the current tree.
Sym: input of L arbitrary Unicode scalar values; char::is_alphabetic beyond ASCII is an uninterpreted predicate.
Oracle: an independent quoted-region scanner written from the property's statement."""
import z3
from interp import Cell, Ref, Str, Adt, VecV, Budget, Unsupported, memo_cmp, is_sym
from models import as_str, ALPHA, ALNUM_N, WS, ch_eq, zor
from framework import model_int
from props.common import *

CORPUS = ["", "SELECT * FROM `character`", "?", "?? ? $1 $$", "a 'b ? c' d", "'it''s' ?", "'a\\'b' ?", "[a]]b] ?", "`a``b`?", "\"x\"\"y\"", "'unterminated ? ",
          "a_b$c 1x é表 ", "\t\r\n x", "'\\", "[a\\]b", "'a'b'", "\"\\\"\"?", "m[idx[1]] + $1", "a = ?", "x　y"]
# facts about Unicode used to obtain natively replayable models (true of every Unicode version since 1.1)
# (code point, alphabetic, numeric, white_space)
FACTS = [(0xE9, True, False, False), (0x8868, True, False, False), (0xA0, False, False, True), (0x20AC, False, False, False),
         (0x3000, False, False, True), (0x2028, False, False, True), (0xBD, False, True, False)]

ENG = None

def regions(e, cs):
    """reference scanner: list of (start, end) spans of quoted text, forking on symbolic characters through the engine"""
    n = len(cs); i = 0; out = []
    def is_(c, k): return e.branch(ch_eq(c, k))
    while i < n:
        c = cs[i]
        close = None
        for op, cl in ((0x60, 0x60), (0x5b, 0x5d), (0x27, 0x27), (0x22, 0x22)):
            if is_(c, op): close = cl; break
        if close is None: i += 1; continue
        j = i + 1
        while j < n:
            if is_(cs[j], 0x5c):
                j += 2; continue             # a backslash escapes the next character
            if is_(cs[j], close):
                if close != 0x5d and j + 1 < n and is_(cs[j+1], close): j += 2; continue   # doubled delimiter
                j += 1; break
            j += 1
        else:
            j = n
        j = min(j, n)
        out.append((i, j)); i = j
    return out

def entry_for(cs, vc, sampler, out, check=True):
    n = len(cs)
    def entry(e):
        for c in vc: e.add(c)
        tk = e.call('token::Tokenizer::new', [Ref(Cell(Str(cs)))]) if False else Adt('Tokenizer', None, [Cell(VecV([Cell(c) for c in cs])), Cell(0)])
        cell = Cell(tk); pos = 0; toks = []
        while True:
            r = e.call('<token::Tokenizer as Iterator>::next', [Ref(cell, True)])
            if r.variant == 'None': break
            tok = r.fields[0].v
            s = list(as_str(tok.fields[0].v).chars)
            toks.append((tok.variant, pos, pos + len(s), s))
            pos += len(s)
            if check:
                e.check(len(s) > 0, 'empty token')
                e.check(len(toks) <= n, 'more tokens than characters (non-termination)')
            elif len(toks) > n + 1: break
        if not check:
            out.append({'s': list(cs), 'tokens': [[k, s] for k, a, b, s in toks]}); return
        e.check(pos == n, 'tokens cover %d of %d characters' % (pos, n))
        p = 0
        for k, a, b, s in toks:
            for ch in s:
                e.check(ch_eq(ch, cs[p]) if not (is_sym(ch) and ch is cs[p]) else True, 'token text differs from the input at char %d' % p); p += 1
        regs = regions(e, cs)
        qspans = [(a, b) for k, a, b, s in toks if k == 'Quoted']
        e.check(qspans == regs, 'quoted tokens %r do not coincide with the quoted regions %r of the input' % (qspans, regs))
        for k, a, b, s in toks:
            if k == 'Punctuation':
                e.check(not any(ra <= a < rb for ra, rb in regs), 'punctuation token inside quoted text at %d' % a)
        if sampler.want():
            m = e.model()
            if m is not None:
                out.append({'s': conc(m, cs), 'tokens': [[k, conc(m, s)] for k, a, b, s in toks]})
    return entry

def prefer(cs):
    pr = []
    for c in cs:
        pr.append(z3.Or(z3.ULT(c, 0x80), *[c == z3.BitVecVal(f[0], 32) for f in FACTS]))
    return pr

def facts():
    out = []
    for v, a, nu, w in FACTS:
        bv = z3.BitVecVal(v, 32)
        out += [ALPHA(bv) == z3.BoolVal(a), ALNUM_N(bv) == z3.BoolVal(nu), WS(bv) == z3.BoolVal(w)]
    return out

def work(item):
    L, prefix, seed = item
    eng = ENG; reset_stats(eng); eng.solver = z3.Solver()
    cs, vc = sym_chars(L, 't')
    eng.prefer = prefer(cs)
    samples = []; sampler = Sampler(seed, first=3, every=80)
    viol = eng.run_all(entry_for(cs, vc + facts(), sampler, samples), prefix=prefix)
    vs = [{'kind': kind, 'msg': msg, 's': conc(m, cs) if m is not None else None} for kind, msg, m, info in viol]
    return {'stats': eng.stats, 'executed': eng.executed, 'models_used': eng.models_used, 'violations': vs, 'samples': samples, 'item': [L, len(prefix)]}

def native_tokens(nat, cps):
    r = nat.ask({'op': 'tokenize', 's': cps})
    if 'tokens' in r: r['tokens'] = [[t['kind'], t['s']] for t in r['tokens']]
    return r

def py_check(cps, r):
    """the property evaluated on a concrete native result (used to confirm counterexamples)"""
    if r.get('panic') is not None: return 'panic: ' + r['panic']
    if r.get('nonterminating'): return 'does not terminate'
    toks = r['tokens']
    if any(len(s) == 0 for k, s in toks): return 'empty token'
    if sum((s for k, s in toks), []) != cps: return 'concatenation of tokens differs from the input'
    class E:        # concrete "engine" for the reference scanner
        def branch(self, c): return bool(c)
    regs = regions(E(), cps)
    p = 0; q = []
    for k, s in toks:
        if k == 'Quoted': q.append((p, p + len(s)))
        p += len(s)
    if q != regs: return 'quoted tokens %r do not coincide with quoted regions %r' % (q, regs)
    return None

def run(ctx):
    global ENG
    maxL = 4 if ctx.tier == 'quick' else 6
    ctx.bounds = {'L': 'inputs of 0..%d arbitrary Unicode scalar values' % maxL,
                  'alphabetic': 'char::is_alphabetic beyond ASCII is an uninterpreted predicate: results hold for every Unicode table'}
    ctx.assumptions += ['std models: Vec index/len, fmt write of a char, String::is_empty, char::is_alphabetic (ASCII exact, uninterpreted above 0x7f), is_ascii_digit',
                        'inputs longer than the bound are outside the claim; Token::unquote is not part of the property']
    ENG = eng = ctx.engine()
    nat = ctx.nat()
    for s in CORPUS:
        cps = [ord(ch) for ch in s]; out = []
        v = eng.run_all(entry_for(cps, facts(), Sampler(0), out, check=False))
        r = native_tokens(nat, cps)
        if r.get('panic') is not None and v and v[0][0] == 'panic': ctx.validated += 1
        elif not out or out[0]['tokens'] != r.get('tokens'):
            ctx.inconclusive.append('translator validation: engine and native disagree on tokenize(%r): %r vs %r %r' % (s, out, r, v))
        else: ctx.validated += 1
    ctx.absorb(eng)
    items = []
    for L in range(0, maxL + 1):
        if L >= 4:
            cs, vc = sym_chars(L, 't')
            for p in eng.frontier(entry_for(cs, vc + facts(), Sampler(0, first=0, every=10**9), []), ctx.workers * (3 if L < 6 else 8)):
                items.append((L, p, ctx.seed))
        else: items.append((L, [], ctx.seed))
    ctx.families = ['L=%d' % L for L in range(maxL + 1)]
    for res in ctx.pmap(work, items):
        if not merge_worker(ctx, res): continue
        for s in res['samples']:
            if any(c >= 0x80 and c not in [f[0] for f in FACTS] for c in s['s']): continue     # model uses the uninterpreted predicate freely: not replayable
            r = native_tokens(nat, s['s'])
            if r.get('tokens') == s['tokens']:
                ctx.validated += 1
                if len(ctx.samples) < 12: ctx.samples.append({'input': text(s['s']), 'tokens': [[k, text(t)] for k, t in s['tokens']]})
            else:
                ctx.inconclusive.append('passing path does not agree with the native build: %r -> %r' % (s, r))
        for v in res['violations']:
            if v['s'] is None: ctx.inconclusive.append('violation without model: %r' % (v,)); continue
            r = native_tokens(nat, v['s'])
            why = py_check(v['s'], r)
            if why:
                from props.c17 import Native_release
                rel = native_tokens(Native_release(ctx), v['s'])
                kind = 'panic' if 'panic' in r else ('lossless' if 'concat' in why or 'empty' in why or 'terminate' in why else 'quoted-region')
                ctx.violations.append({'key': kind, 'msg': v['msg'] + ' / native: ' + why, 'input': v['s'], 'input_text': text(v['s']),
                                       'native_dev': r, 'native_release': rel, 'replay': {'op': 'tokenize', 's': v['s']}})
            else:
                ctx.inconclusive.append('counterexample does not reproduce natively: %r -> %r' % (v, r))

def replay(ctx, data):
    r = native_tokens(ctx.nat(), data['replay']['s'])
    why = py_check(data['replay']['s'], r)
    print('native dev:', r, '->', why)
    return 1 if why else 0
