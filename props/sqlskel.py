"""Clause-skeleton recognisers for MySQL 8.0, PostgreSQL 16 and SQLite 3.45 query statements.

Written from the statement synopses of the three manuals (MySQL 8.0 15.2.13 SELECT / 15.2.7 INSERT / 15.2.17 UPDATE / 15.2.2 DELETE / 15.2.20 WITH;
PostgreSQL 16 SELECT / INSERT / UPDATE / DELETE reference pages; SQLite select-stmt / insert-stmt / update-stmt / delete-stmt / with-clause railroad
diagrams).  recognise(text, dialect) returns the statement's clauses in *textual* order, each with its items reduced to the identifiers they mention;
expected(script, dialect) returns the clauses the builder was given in the *grammar's* order.  Equality of the two is the property."""
import re
from props.sqlparse import tokenize, ParseError

class SkelError(Exception):
    pass

# ------------------------------------------------------------------ token tree
def tree(tokens):
    """nest parenthesised groups: returns list of tokens / ('group', [..])"""
    stack = [[]]
    for t in tokens:
        if t == ('sym', '('): stack.append([])
        elif t == ('sym', ')'):
            if len(stack) == 1: raise SkelError('unbalanced )')
            g = stack.pop(); stack[-1].append(('group', g))
        else: stack[-1].append(t)
    if len(stack) != 1: raise SkelError('unbalanced (')
    return stack[0]

def lex(text, dialect):
    # a number glued to a word (3PRECEDING) or a parameter glued to a word ($1PRECEDING) is one malformed token for the engines' lexers
    if re.search(r'(?<![A-Za-z_0-9"`$])\d+[A-Za-z_]', re.sub(r"'(?:[^'\\]|\\.|'')*'|\"[^\"]*\"|`[^`]*`", '', text)):
        raise SkelError('a number is glued to a following word (missing white space)')
    if re.search(r'[?][A-Za-z_]|\$\d+[A-Za-z_]', re.sub(r"'(?:[^'\\]|\\.|'')*'|\"[^\"]*\"|`[^`]*`", '', text)):
        raise SkelError('a placeholder is glued to a following word (missing white space)')
    try: return tree(tokenize(text, dialect))
    except ParseError as ex: raise SkelError(str(ex))

def is_word(t, *ws): return t[0] == 'word' and t[1] in ws
def split_commas(toks):
    out = [[]]
    for t in toks:
        if t == ('sym', ','): out.append([])
        else: out[-1].append(t)
    return out if any(out) else []

def idents(toks):
    """left-to-right identifiers (qualified names joined with '.'), recursing into groups; sub-selects are summarised as <select>"""
    out = []; i = 0
    while i < len(toks):
        t = toks[i]
        if t[0] == 'id':
            name = t[1]
            while i + 2 < len(toks) and toks[i+1] == ('sym', '.') and toks[i+2][0] in ('id',):
                name += '.' + toks[i+2][1]; i += 2
            if i + 2 < len(toks) and toks[i+1] == ('sym', '.') and toks[i+2] == ('sym', '*'): name += '.*'; i += 2
            out.append(name)
        elif t[0] == 'group':
            if t[1] and (is_word(t[1][0], 'SELECT', 'WITH')): out.append('<select>')
            else: out.extend(idents(t[1]))
        i += 1
    return out

# ------------------------------------------------------------------ recogniser
SELECT_ORDER = ['WITH', 'SELECT', 'FROM', 'JOIN', 'WHERE', 'GROUP BY', 'HAVING', 'WINDOW', 'SETOP', 'ORDER BY', 'LIMIT', 'OFFSET', 'LOCK']

def recognise(text, dialect):
    toks = lex(text, dialect)
    st, rest = statement(toks, dialect)
    if rest: raise SkelError('text after the end of the statement: %r' % (rest[:3],))
    return st

def statement(toks, d):
    clauses = []
    i = 0
    if toks and is_word(toks[0], 'WITH'):
        c, i = with_clause(toks, 0, d); clauses.append(c)
    if i >= len(toks): raise SkelError('statement ends after WITH')
    t = toks[i]
    if is_word(t, 'SELECT'): body, j = select_body(toks, i, d)
    elif is_word(t, 'INSERT', 'REPLACE'): body, j = insert_body(toks, i, d)
    elif is_word(t, 'UPDATE'): body, j = update_body(toks, i, d)
    elif is_word(t, 'DELETE'): body, j = delete_body(toks, i, d)
    else: raise SkelError('unexpected start of statement %r' % (t,))
    return clauses + body, toks[j:]

def sub_statement(group, d):
    st, rest = statement(group, d)
    if rest: raise SkelError('text after a sub-select: %r' % (rest[:3],))
    return st

def with_clause(toks, i, d):
    i += 1; rec = False
    if i < len(toks) and is_word(toks[i], 'RECURSIVE'): rec = True; i += 1
    ctes = []
    while True:
        if i >= len(toks) or toks[i][0] != 'id': raise SkelError('CTE name expected')
        name = toks[i][1]; i += 1; cols = None; mat = None
        if i < len(toks) and toks[i][0] == 'group' and not (toks[i][1] and is_word(toks[i][1][0], 'SELECT', 'WITH', 'INSERT', 'UPDATE', 'DELETE')):
            cols = idents(toks[i][1]); i += 1
        if not (i < len(toks) and is_word(toks[i], 'AS')): raise SkelError('AS expected in CTE')
        i += 1
        if i < len(toks) and is_word(toks[i], 'NOT') and d != 'mysql' and is_word(toks[i+1], 'MATERIALIZED'): mat = False; i += 2
        elif i < len(toks) and is_word(toks[i], 'MATERIALIZED') and d != 'mysql': mat = True; i += 1
        if not (i < len(toks) and toks[i][0] == 'group'): raise SkelError('parenthesised CTE query expected')
        q = sub_statement(toks[i][1], d); i += 1
        ctes.append((name, cols, mat, q))
        if i < len(toks) and toks[i] == ('sym', ','): i += 1; continue
        break
    extra = []
    if d == 'postgres':
        if i < len(toks) and is_word(toks[i], 'SEARCH'):
            j = i
            while j < len(toks) and not is_word(toks[j], 'CYCLE', 'SELECT', 'INSERT', 'UPDATE', 'DELETE'): j += 1
            extra.append(('SEARCH', toks[i+1][1] if i + 1 < len(toks) else None, idents(toks[i:j]))); i = j
        if i < len(toks) and is_word(toks[i], 'CYCLE'):
            j = i
            while j < len(toks) and not is_word(toks[j], 'SELECT', 'INSERT', 'UPDATE', 'DELETE'): j += 1
            extra.append(('CYCLE', idents(toks[i:j]))); i = j
    return ('WITH', rec, ctes, extra), i

def take_until(toks, i, stops):
    """tokens from i up to (not including) the first top-level keyword in stops"""
    j = i
    while j < len(toks):
        t = toks[j]
        if t[0] == 'word' and t[1] in stops: break
        j += 1
    return toks[i:j], j

SEL_STOPS = {'FROM', 'WHERE', 'GROUP', 'HAVING', 'WINDOW', 'UNION', 'INTERSECT', 'EXCEPT', 'ORDER', 'LIMIT', 'OFFSET', 'FOR', 'JOIN', 'LEFT', 'RIGHT', 'INNER', 'CROSS', 'FULL',
             'RETURNING', 'ON'}

def table_ref(item, d):
    """skeleton of one table reference"""
    if not item: raise SkelError('empty table reference')
    alias = None
    toks = list(item)
    if len(toks) >= 2 and is_word(toks[-2], 'AS') and toks[-1][0] == 'id': alias = toks[-1][1]; toks = toks[:-2]
    if toks and toks[0][0] == 'group':
        g = toks[0][1]
        if g and is_word(g[0], 'SELECT', 'WITH'): return ('subquery', sub_statement(g, d), alias)
        if g and is_word(g[0], 'VALUES'):
            rows = split_commas(g[1:])
            if d == 'mysql':
                if not all(len(r) == 2 and is_word(r[0], 'ROW') and r[1][0] == 'group' for r in rows): raise SkelError('MySQL VALUES rows must be ROW(..)')
                ar = [len(split_commas(r[1][1])) for r in rows]
            else:
                if not all(len(r) == 1 and r[0][0] == 'group' for r in rows): raise SkelError('VALUES rows must be parenthesised')
                ar = [len(split_commas(r[0][1])) for r in rows]
            return ('values', ar, alias)
        raise SkelError('unexpected parenthesised table reference')
    if toks and toks[0][0] == 'word' and len(toks) >= 2 and toks[1][0] == 'group': return ('function', toks[0][1], alias)
    names = idents(toks)
    if len(names) != 1 or any(t[0] not in ('id', 'sym') for t in toks): raise SkelError('malformed table reference %r' % (toks,))
    # optional alias without AS is not produced by the renderer
    return ('table', names[0], alias)

def order_items(toks, d):
    out = []
    for it in split_commas(toks):
        direction = None; nulls = None
        body = list(it)
        if d in ('postgres', 'sqlite') and len(body) >= 2 and is_word(body[-2], 'NULLS') and is_word(body[-1], 'FIRST', 'LAST'):
            nulls = body[-1][1]; body = body[:-2]
        elif any(is_word(t, 'NULLS') for t in body): raise SkelError('NULLS FIRST/LAST is not %s syntax' % d)
        if body and is_word(body[-1], 'ASC', 'DESC'): direction = body[-1][1]; body = body[:-1]
        out.append((tuple(idents(body)), 'CASE' if body and is_word(body[0], 'CASE') else ('ISNULL' if len(body) >= 2 and is_word(body[-2], 'IS') and is_word(body[-1], 'NULL') else None), direction, nulls))
    return out

def select_body(toks, i, d):
    clauses = []
    i += 1
    distinct = None
    if i < len(toks) and is_word(toks[i], 'DISTINCT'):
        distinct = 'DISTINCT'; i += 1
        if i < len(toks) and is_word(toks[i], 'ON'):
            if d != 'postgres': raise SkelError('DISTINCT ON is PostgreSQL syntax')
            distinct = ('DISTINCT ON', tuple(idents(toks[i+1][1]))); i += 2
    elif i < len(toks) and is_word(toks[i], 'DISTINCTROW'):
        if d != 'mysql': raise SkelError('DISTINCTROW is MySQL syntax')
        distinct = 'DISTINCTROW'; i += 1
    elif i < len(toks) and is_word(toks[i], 'ALL'): distinct = 'ALL'; i += 1
    body, i = take_until(toks, i, SEL_STOPS - {'ON'})
    items = []
    for it in split_commas(body):
        alias = None
        if len(it) >= 2 and is_word(it[-2], 'AS') and it[-1][0] == 'id': alias = it[-1][1]; it = it[:-2]
        over = None
        for k, t in enumerate(it):
            if is_word(t, 'OVER'):
                nxt = it[k+1] if k + 1 < len(it) else None
                over = ('name', nxt[1]) if nxt and nxt[0] == 'id' else ('inline', window_def(nxt[1] if nxt and nxt[0] == 'group' else None, d))
                it = it[:k]; break
        items.append((tuple(idents(it)), alias, over))
    clauses.append(('SELECT', distinct, items))
    if i < len(toks) and is_word(toks[i], 'FROM'):
        body, i = take_until(toks, i + 1, SEL_STOPS | {'USE', 'IGNORE', 'FORCE', 'TABLESAMPLE'})
        refs = [table_ref(x, d) for x in split_commas(body)]
        hints = []; sample = None
        while i < len(toks) and is_word(toks[i], 'USE', 'IGNORE', 'FORCE'):
            if d != 'mysql': raise SkelError('index hints are MySQL syntax')
            j = i + 1
            while j < len(toks) and toks[j][0] != 'group': j += 1
            hints.append((toks[i][1], ' '.join(t[1] for t in toks[i+1:j]), tuple(idents(toks[j][1])))); i = j + 1
        if i < len(toks) and is_word(toks[i], 'TABLESAMPLE'):
            if d != 'postgres': raise SkelError('TABLESAMPLE is PostgreSQL syntax')
            sample = toks[i+1][1]; i += 3
            if i < len(toks) and is_word(toks[i], 'REPEATABLE'): i += 2
        clauses.append(('FROM', refs, hints, sample))
    while i < len(toks) and is_word(toks[i], 'JOIN', 'LEFT', 'RIGHT', 'INNER', 'CROSS', 'FULL'):
        jt = []
        while not is_word(toks[i], 'JOIN'): jt.append(toks[i][1]); i += 1
        jt.append('JOIN'); i += 1
        lateral = False
        if i < len(toks) and is_word(toks[i], 'LATERAL'): lateral = True; i += 1
        body, i = take_until(toks, i, SEL_STOPS)
        ref = table_ref(body, d); on = None
        if i < len(toks) and is_word(toks[i], 'ON'):
            body, i = take_until(toks, i + 1, SEL_STOPS - {'ON'})
            on = tuple(idents(body))
        clauses.append(('JOIN', ' '.join(jt), lateral, ref, on))
    if i < len(toks) and is_word(toks[i], 'WHERE'):
        body, i = take_until(toks, i + 1, SEL_STOPS); clauses.append(('WHERE', tuple(idents(body))))
    if i < len(toks) and is_word(toks[i], 'GROUP'):
        if not is_word(toks[i+1], 'BY'): raise SkelError('GROUP without BY')
        body, i = take_until(toks, i + 2, SEL_STOPS); clauses.append(('GROUP BY', [tuple(idents(x)) for x in split_commas(body)]))
    if i < len(toks) and is_word(toks[i], 'HAVING'):
        body, i = take_until(toks, i + 1, SEL_STOPS); clauses.append(('HAVING', tuple(idents(body))))
    if i < len(toks) and is_word(toks[i], 'WINDOW'):
        body, i = take_until(toks, i + 1, SEL_STOPS - {'ORDER'} if False else SEL_STOPS)
        wins = []
        for w in split_commas(body):
            if not (len(w) == 3 and w[0][0] == 'id' and is_word(w[1], 'AS') and w[2][0] == 'group'):
                raise SkelError('WINDOW clause must be: name AS ( window definition )')
            wins.append((w[0][1], window_def(w[2][1], d)))
        clauses.append(('WINDOW', wins))
    while i < len(toks) and is_word(toks[i], 'UNION', 'INTERSECT', 'EXCEPT'):
        op = toks[i][1]; i += 1
        if i < len(toks) and is_word(toks[i], 'ALL', 'DISTINCT'): op += ' ' + toks[i][1]; i += 1
        if i < len(toks) and toks[i][0] == 'group':
            if d == 'sqlite': raise SkelError('SQLite does not accept a parenthesised member of a compound select')
            clauses.append(('SETOP', op, sub_statement(toks[i][1], d))); i += 1
        elif i < len(toks) and is_word(toks[i], 'SELECT'):
            # an unparenthesised member extends to the end of its own simple select (no ORDER BY / LIMIT of its own)
            member, j = select_body(toks, i, d)
            tail = [c for c in member if c[0] in ('ORDER BY', 'LIMIT', 'OFFSET', 'LOCK')]
            core = [c for c in member if c[0] not in ('ORDER BY', 'LIMIT', 'OFFSET', 'LOCK', 'SETOP')]
            clauses.append(('SETOP', op, core))
            clauses.extend(c for c in member if c[0] == 'SETOP')
            clauses.extend(tail); i = j
            return clauses, i
        else: raise SkelError('set operation without a member')
    if i < len(toks) and is_word(toks[i], 'ORDER'):
        if not is_word(toks[i+1], 'BY'): raise SkelError('ORDER without BY')
        body, i = take_until(toks, i + 2, SEL_STOPS); clauses.append(('ORDER BY', order_items(body, d)))
    if i < len(toks) and is_word(toks[i], 'LIMIT'):
        body, i = take_until(toks, i + 1, SEL_STOPS)
        if len(body) != 1: raise SkelError('LIMIT takes one value')
        clauses.append(('LIMIT',))
    if i < len(toks) and is_word(toks[i], 'OFFSET'):
        body, i = take_until(toks, i + 1, SEL_STOPS)
        if len(body) != 1: raise SkelError('OFFSET takes one value')
        if d == 'mysql' and not any(c[0] == 'LIMIT' for c in clauses): raise SkelError('MySQL has no OFFSET without LIMIT')
        clauses.append(('OFFSET',))
    if i < len(toks) and is_word(toks[i], 'FOR'):
        if d == 'sqlite': raise SkelError('SQLite has no locking clause')
        j = i + 1; words = []
        while j < len(toks) and toks[j][0] in ('word', 'id') or (j < len(toks) and toks[j] == ('sym', ',')):
            words.append(toks[j][1]); j += 1
        clauses.append(('LOCK', ' '.join(words))); i = j
    return clauses, i

def window_def(g, d):
    if g is None: raise SkelError('window definition must be parenthesised')
    i = 0; part = []; order = []; frame = None
    if i < len(g) and is_word(g[i], 'PARTITION'):
        body, i = take_until(g, i + 2, {'ORDER', 'ROWS', 'RANGE', 'GROUPS'}); part = [tuple(idents(x)) for x in split_commas(body)]
    if i < len(g) and is_word(g[i], 'ORDER'):
        body, i = take_until(g, i + 2, {'ROWS', 'RANGE', 'GROUPS'}); order = order_items(body, d)
    if i < len(g) and is_word(g[i], 'ROWS', 'RANGE', 'GROUPS'):
        words = [t[1] if t[0] == 'word' else '#' for t in g[i:]]
        fr = ' '.join(words)
        if not re.match(r'^(ROWS|RANGE) (BETWEEN )?(UNBOUNDED PRECEDING|# PRECEDING|CURRENT ROW|# FOLLOWING|UNBOUNDED FOLLOWING)( AND (UNBOUNDED PRECEDING|# PRECEDING|CURRENT ROW|# FOLLOWING|UNBOUNDED FOLLOWING))?$', fr):
            raise SkelError('malformed frame clause: %s' % fr)
        frame = fr; i = len(g)
    if i != len(g): raise SkelError('unexpected text in a window definition')
    return (part, order, frame)

def returning(toks, i, d):
    if d == 'mysql': raise SkelError('RETURNING is not MySQL syntax')
    body = toks[i+1:]
    if len(body) == 1 and body[0] == ('sym', '*'): return ('RETURNING', '*'), len(toks)
    return ('RETURNING', [tuple(idents(x)) for x in split_commas(body)]), len(toks)

def insert_body(toks, i, d):
    clauses = []
    verb = toks[i][1]; i += 1
    if verb == 'REPLACE' and d == 'postgres': raise SkelError('REPLACE is not PostgreSQL syntax')
    if is_word(toks[i], 'OR'):
        if d != 'sqlite': raise SkelError('INSERT OR .. is SQLite syntax')
        verb += ' OR ' + toks[i+1][1]; i += 2
    if not is_word(toks[i], 'INTO'): raise SkelError('INTO expected')
    i += 1
    j = i
    while j < len(toks) and toks[j][0] in ('id', 'sym') and toks[j] != ('sym', ','): j += 1
    tbl = idents(toks[i:j]); i = j
    cols = None
    if i < len(toks) and toks[i][0] == 'group': cols = idents(toks[i][1]); i += 1
    clauses.append(('INSERT', verb, tuple(tbl), cols))
    if i < len(toks) and is_word(toks[i], 'VALUES'):
        body, i = take_until(toks, i + 1, {'ON', 'RETURNING'})
        rows = split_commas(body)
        if not all(len(r) == 1 and r[0][0] == 'group' for r in rows): raise SkelError('VALUES rows must be parenthesised')
        def is_default_row(r):
            g = r[0][1]
            return len(g) == 0 or (len(g) == 1 and is_word(g[0], 'DEFAULT'))
        if rows and all(is_default_row(r) for r in rows): clauses.append(('DEFAULT VALUES',))
        else: clauses.append(('VALUES', [len(split_commas(r[0][1])) for r in rows]))
    elif i < len(toks) and is_word(toks[i], 'DEFAULT'):
        if d == 'mysql': raise SkelError('DEFAULT VALUES is not MySQL syntax')
        if not is_word(toks[i+1], 'VALUES'): raise SkelError('DEFAULT VALUES expected')
        clauses.append(('DEFAULT VALUES',)); i += 2
    elif i < len(toks) and is_word(toks[i], 'SELECT', 'WITH'):
        j = i
        while j < len(toks) and not (is_word(toks[j], 'ON') and j + 1 < len(toks) and is_word(toks[j+1], 'CONFLICT', 'DUPLICATE')) and not is_word(toks[j], 'RETURNING'): j += 1
        clauses.append(('SELECT-SOURCE', sub_statement(toks[i:j], d))); i = j
    if i < len(toks) and is_word(toks[i], 'ON'):
        if d == 'mysql':
            if not (is_word(toks[i+1], 'DUPLICATE') and is_word(toks[i+2], 'KEY') and i + 3 < len(toks) and is_word(toks[i+3], 'UPDATE')):
                raise SkelError('MySQL upsert must be ON DUPLICATE KEY UPDATE ..')
            body, i = take_until(toks, i + 4, {'RETURNING'})
            sets = [tuple(idents(x)) for x in split_commas(body)]
            if not sets: raise SkelError('ON DUPLICATE KEY UPDATE without assignments')
            clauses.append(('UPSERT', None, 'UPDATE', sets, None))
        else:
            if not is_word(toks[i+1], 'CONFLICT'): raise SkelError('ON CONFLICT expected')
            i += 2; target = None; twhere = None
            if i < len(toks) and toks[i][0] == 'group': target = tuple(idents(toks[i][1])); i += 1
            if i < len(toks) and is_word(toks[i], 'WHERE'):
                body, i = take_until(toks, i + 1, {'DO'}); twhere = tuple(idents(body))
            if not is_word(toks[i], 'DO'): raise SkelError('DO expected after ON CONFLICT')
            if is_word(toks[i+1], 'NOTHING'):
                clauses.append(('UPSERT', (target, twhere), 'NOTHING', None, None)); i += 2
            else:
                if not (is_word(toks[i+1], 'UPDATE') and is_word(toks[i+2], 'SET')): raise SkelError('DO UPDATE SET expected')
                body, i = take_until(toks, i + 3, {'WHERE', 'RETURNING'})
                sets = [tuple(idents(x)) for x in split_commas(body)]; awhere = None
                if i < len(toks) and is_word(toks[i], 'WHERE'):
                    body, i = take_until(toks, i + 1, {'RETURNING'}); awhere = tuple(idents(body))
                clauses.append(('UPSERT', (target, twhere), 'UPDATE', sets, awhere))
    if i < len(toks) and is_word(toks[i], 'RETURNING'):
        c, i = returning(toks, i, d); clauses.append(c)
    return clauses, i

def update_body(toks, i, d):
    clauses = []
    i += 1
    body, i = take_until(toks, i, {'SET', 'JOIN'})
    clauses.append(('UPDATE', table_ref(body, d)))
    if i < len(toks) and is_word(toks[i], 'JOIN'):
        if d != 'mysql': raise SkelError('UPDATE .. JOIN is MySQL syntax')
        body, i = take_until(toks, i + 1, {'ON', 'SET'})
        ref = table_ref(body, d); on = None
        if is_word(toks[i], 'ON'):
            body, i = take_until(toks, i + 1, {'SET'}); on = tuple(idents(body))
        clauses.append(('JOIN', 'JOIN', False, ref, on))
    if not (i < len(toks) and is_word(toks[i], 'SET')): raise SkelError('SET expected')
    body, i = take_until(toks, i + 1, {'FROM', 'WHERE', 'ORDER', 'LIMIT', 'RETURNING'})
    clauses.append(('SET', [tuple(idents(x)) for x in split_commas(body)]))
    if i < len(toks) and is_word(toks[i], 'FROM'):
        if d == 'mysql': raise SkelError('UPDATE .. FROM is not MySQL syntax')
        body, i = take_until(toks, i + 1, {'WHERE', 'ORDER', 'LIMIT', 'RETURNING'})
        clauses.append(('FROM', [table_ref(x, d) for x in split_commas(body)], [], None))
    i = tail_clauses(toks, i, d, clauses, 'UPDATE')
    return clauses, i

def tail_clauses(toks, i, d, clauses, what):
    if i < len(toks) and is_word(toks[i], 'WHERE'):
        body, i = take_until(toks, i + 1, {'ORDER', 'LIMIT', 'RETURNING'}); clauses.append(('WHERE', tuple(idents(body))))
    if i < len(toks) and is_word(toks[i], 'ORDER'):
        if d == 'postgres': raise SkelError('%s .. ORDER BY is not PostgreSQL syntax' % what)
        body, i = take_until(toks, i + 2, {'LIMIT', 'RETURNING'}); clauses.append(('ORDER BY', order_items(body, d)))
    if i < len(toks) and is_word(toks[i], 'LIMIT'):
        if d == 'postgres': raise SkelError('%s .. LIMIT is not PostgreSQL syntax' % what)
        body, i = take_until(toks, i + 1, {'RETURNING'})
        if len(body) != 1: raise SkelError('LIMIT takes one value')
        clauses.append(('LIMIT',))
    if i < len(toks) and is_word(toks[i], 'RETURNING'):
        c, i = returning(toks, i, d); clauses.append(c)
    return i

def delete_body(toks, i, d):
    clauses = []
    if not is_word(toks[i+1], 'FROM'): raise SkelError('DELETE FROM expected')
    body, i = take_until(toks, i + 2, {'WHERE', 'ORDER', 'LIMIT', 'RETURNING'})
    clauses.append(('DELETE', table_ref(body, d)))
    i = tail_clauses(toks, i, d, clauses, 'DELETE')
    return clauses, i

# ------------------------------------------------------------------ expected skeleton from a script
def e_idents(t):
    """left-to-right identifiers of a script expression / condition"""
    if t is None: return []
    k = t[0]
    if k == 'col': return [t[1]]
    if k == 'tcol': return ['%s.%s' % (t[1], t[2])]
    if k == 'stcol': return ['%s.%s.%s' % (t[1], t[2], t[3])]
    if k == 'aster': return []
    if k == 'taster': return ['%s.*' % t[1]]
    if k in ('val', 'const', 'vals', 'kw', 'cust', 'custv'): return []
    if k == 'ckw': return []
    if k == 'bin': return e_idents(t[2]) + e_idents(t[3])
    if k == 'un': return e_idents(t[2])
    if k == 'custe': return [x for a in t[2] for x in e_idents(a)]
    if k == 'tuple': return [x for a in t[1] for x in e_idents(a)]
    if k == 'asenum': return [t[1]] + e_idents(t[2]) if False else e_idents(t[2]) + [t[1]]
    if k == 'func': return [x for a in t[2] for x in e_idents(a)]
    if k == 'case':
        out = []
        for c, th in t[1]: out += e_idents(c) + e_idents(th)
        return out + (e_idents(t[2]) if len(t) > 2 and t[2] is not None else [])
    if k == 'subq': return ['<select>']
    if k in ('any', 'all'):
        return [x for m in t[2] if m is not None for x in (e_idents(m[1]) if m[0] == 'opt' else e_idents(m))]
    if k == 'm':
        meth = t[1]
        if meth in ('in_subquery', 'not_in_subquery'): return e_idents(t[2]) + ['<select>']
        if meth in ('is_in', 'is_not_in'): return e_idents(t[2]) + [x for a in t[3] for x in e_idents(a)]
        if meth in ('like', 'not_like', 'cast_as', 'not', 'is_null', 'is_not_null'): return e_idents(t[2])
        if meth == 'as_enum': return e_idents(t[2]) + [t[3]]
        if meth in ('equals', 'not_equals'): return e_idents(t[2]) + e_idents(t[3])
        out = e_idents(t[2])
        for a in t[3:]:
            if isinstance(a, list): out += e_idents(a)
        return out
    raise SkelError('e_idents %r' % (k,))

def e_tableref(t, d):
    k = t[0]
    if k == 't': return ('table', t[1], None)
    if k == 'st': return ('table', '%s.%s' % (t[1], t[2]), None)
    if k == 'dst': return ('table', '%s.%s.%s' % (t[1], t[2], t[3]), None)
    if k == 'ta': return ('table', t[1], t[2])
    if k == 'sta': return ('table', '%s.%s' % (t[1], t[2]), t[3])
    if k == 'subq': return ('subquery', expected(t[1], d), t[2])
    if k == 'vals': return ('values', [len(r) for r in t[1]], t[2])
    if k == 'fn': return ('function', t[1].upper().replace('CUST:', ''), t[3])
    raise SkelError('e_tableref %r' % (k,))

JOIN_WORDS = {'Join': 'JOIN', 'CrossJoin': 'CROSS JOIN', 'InnerJoin': 'INNER JOIN', 'LeftJoin': 'LEFT JOIN', 'RightJoin': 'RIGHT JOIN', 'FullOuterJoin': 'FULL OUTER JOIN'}
SETOPS = {'All': 'UNION ALL', 'Distinct': 'UNION', 'Intersect': 'INTERSECT', 'Except': 'EXCEPT'}

def e_order(calls, d):
    out = []
    for c in calls:
        k = c[0]
        if k == 'order_by': out.append((tuple(e_idents(c[1])), None, c[2].upper(), None))
        elif k == 'order_by_expr': out.append((tuple(e_idents(c[1])), None, c[2].upper(), None))
        elif k in ('order_by_nulls', 'order_by_expr_nulls'):
            ids = tuple(e_idents(c[1]))
            if d == 'mysql':
                out.append((ids, 'ISNULL', 'ASC' if c[3] == 'Last' else 'DESC', None)); out.append((ids, None, c[2].upper(), None))
            else: out.append((ids, None, c[2].upper(), c[3].upper()))
        elif k in ('order_field', 'order_field_expr'):
            ids = tuple(e_idents(c[1]))
            out.append((ids * len(c[2]), 'CASE', None, None))
        elif k == 'order_field_nulls':
            ids = tuple(e_idents(c[1]))
            if d == 'mysql':
                out.append((ids, 'ISNULL', 'ASC' if c[3] == 'Last' else 'DESC', None)); out.append((ids * len(c[2]), 'CASE', None, None))
            else: out.append((ids * len(c[2]), 'CASE', None, c[3].upper()))
    return out

def e_window(w, d):
    part = []; order = []; frame = None
    for c in w['calls']:
        if c[0] == 'partition_by': part.append(tuple(e_idents(c[1])))
        elif c[0] == 'order_by': order += e_order([c], d)
        elif c[0] == 'frame':
            def fr(x): return {'UnboundedPreceding': 'UNBOUNDED PRECEDING', 'CurrentRow': 'CURRENT ROW', 'UnboundedFollowing': 'UNBOUNDED FOLLOWING'}[x] if isinstance(x, str) else '# ' + x[0].upper()
            if len(c) > 3 and c[3] is not None: frame = '%s BETWEEN %s AND %s' % (c[1].upper(), fr(c[2]), fr(c[3]))
            else: frame = '%s %s' % (c[1].upper(), fr(c[2]))
    return (part, order, frame)

def e_with(w, d):
    ctes = []
    for c in w['ctes']:
        mat = c.get('materialized') if d != 'mysql' else None
        ctes.append((c['name'], c.get('cols'), mat, expected(c['query'], d)))
    extra = []
    if d == 'postgres':
        if w.get('search'): extra.append(('SEARCH', w['search']['order'], e_idents(w['search']['expr']) + [w['search']['alias']]))
        if w.get('cycle'): extra.append(('CYCLE', e_idents(w['cycle']['expr']) + [w['cycle']['set'], w['cycle']['using']]))
    return ('WITH', bool(w.get('recursive')), ctes, extra)

def expected(st, d):
    k = st['k']
    if k == 'with': return [e_with(st['with'], d)] + expected(st['query'], d)
    calls = st['calls']
    out = []
    for c in calls:
        if c[0] == 'with_cte': out.append(e_with(c[1], d))
    if k == 'select':
        distinct = None; items = []; refs = []; hints = []; sample = None
        for c in calls:
            if c[0] == 'distinct': distinct = 'DISTINCT'
            elif c[0] == 'distinct_on': distinct = ('DISTINCT ON', tuple(x for cr in c[1] for x in e_idents(cr))) if d == 'postgres' else None
            elif c[0] == 'column': items.append((tuple(e_idents(c[1])), None, None))
            elif c[0] == 'expr': items.append((tuple(e_idents(c[1])), None, None))
            elif c[0] == 'expr_as': items.append((tuple(e_idents(c[1])), c[2], None))
            elif c[0] == 'expr_window': items.append((tuple(e_idents(c[1])), None, ('inline', e_window(c[2], d))))
            elif c[0] == 'expr_window_as': items.append((tuple(e_idents(c[1])), c[3], ('inline', e_window(c[2], d))))
            elif c[0] == 'expr_window_name': items.append((tuple(e_idents(c[1])), None, ('name', c[2])))
            elif c[0] == 'from': refs.append(e_tableref(c[1], d))
            elif c[0] == 'from_subquery': refs.append(('subquery', expected(c[1], d), c[2]))
            elif c[0] == 'from_values': refs.append(('values', [len(r) for r in c[1]], c[2]))
            elif c[0] == 'index_hint' and d == 'mysql':
                scope = {'Join': 'INDEX FOR JOIN', 'OrderBy': 'INDEX FOR ORDER BY', 'GroupBy': 'INDEX FOR GROUP BY', 'All': 'INDEX'}[c[3]]
                hints.append(({'use': 'USE', 'force': 'FORCE', 'ignore': 'IGNORE'}[c[1]], scope, (c[2],)))
            elif c[0] == 'table_sample' and d == 'postgres': sample = c[1]
        out.append(('SELECT', distinct, items))
        if refs: out.append(('FROM', refs, hints, sample))
        for c in calls:
            if c[0] == 'join': out.append(('JOIN', JOIN_WORDS[c[1]], False, e_tableref(c[2], d), tuple(e_idents(c[3])) if c[3][2] else None))
            elif c[0] == 'join_subquery': out.append(('JOIN', JOIN_WORDS[c[1]], False, ('subquery', expected(c[2], d), c[3]), tuple(e_idents(c[4]))))
        w = [x for c in calls if c[0] in ('and_where', 'cond_where') for x in e_idents(c[1])]
        if any(c[0] in ('and_where', 'cond_where') for c in calls): out.append(('WHERE', tuple(w)))
        g = [tuple(e_idents(c[1])) for c in calls if c[0] in ('group_by', 'add_group_by')]
        if g: out.append(('GROUP BY', g))
        if any(c[0] in ('and_having', 'cond_having') for c in calls): out.append(('HAVING', tuple(x for c in calls if c[0] in ('and_having', 'cond_having') for x in e_idents(c[1]))))
        wins = [(c[1], e_window(c[2], d)) for c in calls if c[0] == 'window']
        if wins: out.append(('WINDOW', wins))
        for c in calls:
            if c[0] == 'union': out.append(('SETOP', SETOPS[c[1]], expected(c[2], d)))
        o = e_order(calls, d)
        if o: out.append(('ORDER BY', o))
        if any(c[0] == 'limit' for c in calls): out.append(('LIMIT',))
        if any(c[0] == 'offset' for c in calls): out.append(('OFFSET',))
        for c in calls:
            LK = {'Update': 'UPDATE', 'NoKeyUpdate': 'NO KEY UPDATE', 'Share': 'SHARE', 'KeyShare': 'KEY SHARE'}
            if c[0] == 'lock' and d != 'sqlite': out.append(('LOCK', LK[c[1]]))
            elif c[0] == 'lock_with_behavior' and d != 'sqlite': out.append(('LOCK', LK[c[1]] + {'Nowait': ' NOWAIT', 'SkipLocked': ' SKIP LOCKED'}[c[2]]))
            elif c[0] == 'lock_with_tables' and d != 'sqlite': out.append(('LOCK', LK[c[1]] + ' OF ' + ' , '.join(t[-1] for t in c[2])))
        return out
    if k == 'insert':
        verb = 'REPLACE' if any(c[0] == 'replace' for c in calls) and d != 'postgres' else 'INSERT'
        if any(c[0] == 'replace' for c in calls) and d == 'sqlite': verb = 'REPLACE'
        tbl = None; cols = []; rows = []; sel = None; default = None; upsert = None; ret = None
        for c in calls:
            if c[0] == 'into_table': tbl = e_tableref(c[1], d)[1]
            elif c[0] == 'columns': cols = list(c[1])
            elif c[0] in ('values', 'values_panic'):
                if len(c[1]) == len(cols) and c[1]: rows.append(len(c[1])); sel = None
            elif c[0] == 'select_from':
                n = len([x for x in c[1]['calls'] if x[0] in ('column', 'expr', 'expr_as')])
                if n == len(cols): sel = expected(c[1], d); rows = []
            elif c[0] in ('or_default_values', 'or_default_values_many'): default = True
            elif c[0] == 'on_conflict': upsert = c[1]
            elif c[0].startswith('returning'): ret = c
        use_default = default and not cols and not rows and sel is None
        out.append(('INSERT', verb, (tbl,), None if use_default else cols))
        if use_default: out.append(('DEFAULT VALUES',))
        elif rows: out.append(('VALUES', rows))
        elif sel is not None: out.append(('SELECT-SOURCE', sel))
        if upsert is not None:
            target = None; twhere = None
            if upsert.get('target'):
                target = tuple(upsert['target'][1]) if upsert['target'][0] == 'cols' else tuple(x for a in upsert['target'][1] for x in e_idents(a))
            sets = []; action = None; awhere = None
            for c in upsert['calls']:
                if c[0] == 'do_nothing': action = 'NOTHING'
                elif c[0] == 'do_nothing_on':
                    if d == 'mysql': action = 'UPDATE'; sets += [(x, x) for x in c[1]]
                    else: action = 'NOTHING'
                elif c[0] == 'update_column': action = 'UPDATE'; sets.append((c[1], c[1]) if d == 'mysql' else (c[1], 'excluded.' + c[1]))
                elif c[0] == 'update_columns':
                    action = 'UPDATE'; sets += [((x, x) if d == 'mysql' else (x, 'excluded.' + x)) for x in c[1]]
                elif c[0] == 'value': action = 'UPDATE'; sets.append(tuple([c[1]] + e_idents(c[2])))
                elif c[0] in ('target_and_where', 'target_cond_where'): twhere = tuple((list(twhere) if twhere else []) + e_idents(c[1]))
                elif c[0] in ('action_and_where', 'action_cond_where'): awhere = tuple((list(awhere) if awhere else []) + e_idents(c[1]))
            if d == 'mysql': out.append(('UPSERT', None, action, sets if action == 'UPDATE' else None, None))
            else: out.append(('UPSERT', (target, twhere), action, sets if action == 'UPDATE' else None, awhere if action == 'UPDATE' else None))
        if ret is not None and d != 'mysql': out.append(e_returning(ret))
        return out
    if k == 'update':
        tbl = None; frm = []
        for c in calls:
            if c[0] == 'table': tbl = e_tableref(c[1], d)
            elif c[0] == 'from': frm.append(e_tableref(c[1], d))
        out.append(('UPDATE', tbl))
        wids = tuple(x for c in calls if c[0] in ('and_where', 'cond_where') for x in e_idents(c[1]))
        has_where = any(c[0] in ('and_where', 'cond_where') for c in calls)
        if d == 'mysql' and frm:
            for r in frm: out.append(('JOIN', 'JOIN', False, r, wids if has_where else None))
        sets = []
        for c in calls:
            if c[0] == 'value':
                name = c[1]
                if d == 'mysql' and frm and tbl[0] == 'table': name = '%s.%s' % (tbl[1], c[1])
                sets.append(tuple([name] + e_idents(c[2])))
        out.append(('SET', sets))
        if d != 'mysql' and frm: out.append(('FROM', frm, [], None))
        if has_where and not (d == 'mysql' and frm): out.append(('WHERE', wids))
        e_tail(calls, d, out)
        return out
    if k == 'delete':
        tbl = [e_tableref(c[1], d) for c in calls if c[0] == 'from_table'][-1]
        out.append(('DELETE', tbl))
        if any(c[0] in ('and_where', 'cond_where') for c in calls): out.append(('WHERE', tuple(x for c in calls if c[0] in ('and_where', 'cond_where') for x in e_idents(c[1]))))
        e_tail(calls, d, out)
        return out
    raise SkelError('expected: kind ' + k)

def e_returning(c):
    if c[0] == 'returning_all': return ('RETURNING', '*')
    if c[0] == 'returning_col': return ('RETURNING', [tuple(e_idents(c[1]))])
    if c[0] == 'returning_cols': return ('RETURNING', [tuple(e_idents(x)) for x in c[1]])
    return ('RETURNING', [tuple(e_idents(x)) for x in c[1]])

def e_tail(calls, d, out):
    o = e_order(calls, d)
    if o: out.append(('ORDER BY', o))
    if any(c[0] == 'limit' for c in calls): out.append(('LIMIT',))
    ret = [c for c in calls if c[0].startswith('returning')]
    if ret and d != 'mysql': out.append(e_returning(ret[-1]))

def norm(x):
    """lists -> tuples, for comparison"""
    if isinstance(x, (list, tuple)): return tuple(norm(y) for y in x)
    return x
