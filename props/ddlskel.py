"""DDL recognisers for MySQL 8.0, PostgreSQL 16 and SQLite 3.45 and the expected structure of a schema-statement script.

Written from: MySQL 8.0 15.1.20 CREATE TABLE / 15.1.9 ALTER TABLE / 15.1.15 CREATE INDEX, 13 "Data Types"; PostgreSQL 16 CREATE TABLE / ALTER TABLE /
CREATE INDEX / CREATE TYPE / ALTER TYPE / CREATE EXTENSION and chapter 8 "Data Types"; SQLite create-table-stmt / column-def / column-constraint /
table-constraint / create-index-stmt / alter-table-stmt diagrams and "Datatypes In SQLite" 3.1 (affinity rules)."""
import re
from props.sqlparse import tokenize, ParseError
from props.sqlskel import tree, split_commas, idents, is_word, SkelError

# ------------------------------------------------------------------ type names
SYN = {'integer': 'int', 'int4': 'int', 'int2': 'smallint', 'int8': 'bigint', 'boolean': 'bool', 'character varying': 'varchar', 'character': 'char', 'numeric': 'decimal',
       'float4': 'real', 'float8': 'double precision', 'timestamp without time zone': 'timestamp', 'timestamptz': 'timestamp with time zone', 'double': 'double precision',
       'serial4': 'serial', 'serial8': 'bigserial', 'serial2': 'smallserial'}
MYSQL_TYPES = {'char', 'varchar', 'text', 'tinyint', 'smallint', 'int', 'bigint', 'float', 'double precision', 'decimal', 'datetime', 'timestamp', 'time', 'date', 'year', 'binary', 'varbinary',
               'blob', 'bit', 'bool', 'json', 'enum', 'mediumint', 'tinytext', 'mediumtext', 'longtext', 'tinyblob', 'mediumblob', 'longblob', 'set', 'real'}
PG_TYPES = {'char', 'varchar', 'text', 'smallint', 'int', 'bigint', 'real', 'double precision', 'decimal', 'timestamp', 'timestamp with time zone', 'time', 'date', 'interval', 'bytea', 'bit', 'varbit',
            'bit varying', 'bool', 'money', 'json', 'jsonb', 'uuid', 'cidr', 'inet', 'macaddr', 'ltree', 'serial', 'bigserial', 'smallserial', 'time with time zone'}

def canon_type(name):
    n = name.lower().strip()
    return SYN.get(n, n)

def expected_type(ct, d, auto_inc):
    """(canonical type name, [parameters], unsigned) the dialect should show for an abstract column type; None if the dialect has no such type"""
    k = ct if isinstance(ct, str) else ct[0]
    p = [] if isinstance(ct, str) else ct[1:]
    if d == 'mysql':
        m = {'Text': 'text', 'Blob': 'blob', 'TinyInteger': 'tinyint', 'SmallInteger': 'smallint', 'Integer': 'int', 'BigInteger': 'bigint', 'TinyUnsigned': 'tinyint', 'SmallUnsigned': 'smallint',
             'Unsigned': 'int', 'BigUnsigned': 'bigint', 'Float': 'float', 'Double': 'double precision', 'DateTime': 'datetime', 'Timestamp': 'timestamp', 'TimestampWithTimeZone': 'timestamp',
             'Time': 'time', 'Date': 'date', 'Year': 'year', 'Boolean': 'bool', 'Json': 'json', 'JsonBinary': 'json'}
        uns = k in ('TinyUnsigned', 'SmallUnsigned', 'Unsigned', 'BigUnsigned')
        if k in m: return (m[k], [], uns)
        if k == 'Uuid': return ('binary', [16], False)
        if k == 'Char': return ('char', [] if p[0] is None else [p[0]], False)
        if k == 'String': return ('varchar', [p[0][1]] if isinstance(p[0], list) else [255 if p[0] == 'None' else 65535], False)
        if k in ('Decimal', 'Money'): return ('decimal', [] if p[0] is None else list(p[0]), False)
        if k == 'Binary': return ('binary', [p[0]], False)
        if k == 'VarBinary': return ('varbinary', [p[0][1]] if isinstance(p[0], list) else [255 if p[0] == 'None' else 65535], False)
        if k == 'Bit': return ('bit', [] if p[0] is None else [p[0]], False)
        if k == 'VarBit': return ('bit', [p[0]], False)
        if k == 'Custom': return (canon_type(p[0]), [], False)
        if k == 'Enum': return ('enum', list(p[1]), False)
        return None
    if d == 'postgres':
        if auto_inc:
            return {'SmallInteger': ('smallserial', [], False), 'Integer': ('serial', [], False), 'BigInteger': ('bigserial', [], False)}.get(k)
        m = {'Text': 'text', 'Blob': 'bytea', 'TinyInteger': 'smallint', 'SmallInteger': 'smallint', 'Integer': 'int', 'BigInteger': 'bigint', 'TinyUnsigned': 'smallint', 'SmallUnsigned': 'smallint',
             'Unsigned': 'int', 'BigUnsigned': 'bigint', 'Float': 'real', 'Double': 'double precision', 'DateTime': 'timestamp', 'Timestamp': 'timestamp', 'TimestampWithTimeZone': 'timestamp with time zone',
             'Time': 'time', 'Date': 'date', 'Boolean': 'bool', 'Json': 'json', 'JsonBinary': 'jsonb', 'Uuid': 'uuid', 'Cidr': 'cidr', 'Inet': 'inet', 'MacAddr': 'macaddr', 'LTree': 'ltree'}
        if k in m: return (m[k], [], False)
        if k == 'Char': return ('char', [] if p[0] is None else [p[0]], False)
        if k == 'String': return ('varchar', [p[0][1]] if isinstance(p[0], list) else [], False)
        if k == 'Decimal': return ('decimal', [] if p[0] is None else list(p[0]), False)
        if k == 'Money': return ('money', [] if p[0] is None else list(p[0]), False)
        if k in ('Binary', 'VarBinary'): return ('bytea', [], False)
        if k == 'Bit': return ('bit', [] if p[0] is None else [p[0]], False)
        if k == 'VarBit': return ('varbit', [p[0]], False)
        if k == 'Interval': return ('interval', [] if p[1] is None else [p[1]], False)
        if k == 'Custom': return (canon_type(p[0]), [], False)
        if k == 'Enum': return (p[0].lower(), [], False)
        if k == 'Array':
            inner = expected_type(p[0], d, False)
            return None if inner is None else (inner[0] + '[]', inner[1], False)
        return None
    return None

def sqlite_affinity(type_name):
    """SQLite "Datatypes" 3.1: affinity of a declared type name"""
    t = type_name.upper()
    if 'INT' in t: return 'INTEGER'
    if 'CHAR' in t or 'CLOB' in t or 'TEXT' in t: return 'TEXT'
    if 'BLOB' in t or t.strip() == '': return 'BLOB'
    if 'REAL' in t or 'FLOA' in t or 'DOUB' in t: return 'REAL'
    return 'NUMERIC'

INTENDED_AFFINITY = {'Char': 'TEXT', 'String': 'TEXT', 'Text': 'TEXT', 'Blob': 'BLOB', 'TinyInteger': 'INTEGER', 'SmallInteger': 'INTEGER', 'Integer': 'INTEGER', 'BigInteger': 'INTEGER',
                     'TinyUnsigned': 'INTEGER', 'SmallUnsigned': 'INTEGER', 'Unsigned': 'INTEGER', 'BigUnsigned': 'INTEGER', 'Float': 'REAL', 'Double': 'REAL', 'Decimal': 'REAL', 'Money': 'REAL',
                     'DateTime': 'TEXT', 'Timestamp': 'TEXT', 'TimestampWithTimeZone': 'TEXT', 'Time': 'TEXT', 'Date': 'TEXT', 'Binary': 'BLOB', 'VarBinary': 'BLOB', 'Boolean': 'NUMERIC',
                     'Json': 'TEXT', 'JsonBinary': 'TEXT', 'Uuid': 'TEXT', 'Enum': 'TEXT', 'Bit': None, 'VarBit': None, 'Year': None}

# ------------------------------------------------------------------ recogniser
SPEC_WORDS = {'NULL', 'NOT', 'DEFAULT', 'AUTO_INCREMENT', 'AUTOINCREMENT', 'UNIQUE', 'PRIMARY', 'CHECK', 'GENERATED', 'COMMENT', 'REFERENCES', 'COLLATE', 'USING'}

def lex(text, d):
    try: return tree(tokenize(text, d))
    except ParseError as ex: raise SkelError(str(ex))

def type_of(toks):
    """(canonical name, params, unsigned, nrest)"""
    words = []; params = []; unsigned = False; arr = ''
    i = 0
    while i < len(toks):
        t = toks[i]
        if t[0] == 'word' and t[1] not in SPEC_WORDS:
            if t[1] == 'UNSIGNED': unsigned = True
            else: words.append(t[1].lower())
        elif t[0] == 'id': words.append(t[1].lower())
        elif t[0] == 'group' and not params and words:
            for it in split_commas(t[1]):
                if len(it) == 1 and it[0][0] == 'num': params.append(int(it[0][1]))
                elif len(it) == 1 and it[0][0] == 'str': params.append(it[0][1])
                else: raise SkelError('malformed type parameter')
        elif t[0] == 'sym' and t[1] in ('[', ']'): arr += t[1]
        else: break
        i += 1
    narr = words.count('arrayof')
    words = [w for w in words if w != 'arrayof']
    name = canon_type(' '.join(words)) + '[]' * narr
    return name, params, unsigned, i

def column_item(toks, d):
    if not toks or toks[0][0] != 'id': raise SkelError('column definition must start with a quoted name')
    name = toks[0][1]
    # "[]" of array types is tokenised as symbols only by a custom pass: treat any trailing text up to the first spec keyword as the type
    ty, params, unsigned, used = type_of(toks[1:])
    i = 1 + used; specs = []
    while i < len(toks):
        t = toks[i]
        if is_word(t, 'NULL'): specs.append(('NULL',)); i += 1
        elif is_word(t, 'NOT') and i + 1 < len(toks) and is_word(toks[i+1], 'NULL'): specs.append(('NOT NULL',)); i += 2
        elif is_word(t, 'DEFAULT'):
            j = i + 1
            if j < len(toks) and toks[j][0] == 'sym' and toks[j][1] in ('-', '+'): j += 1
            if j >= len(toks): raise SkelError('DEFAULT without a value')
            j += 1
            if j < len(toks) and toks[j][0] == 'group' and toks[j-1][0] == 'word': j += 1      # function call
            specs.append(('DEFAULT', tuple(tok_summary(toks[i+1:j])))); i = j
        elif is_word(t, 'AUTO_INCREMENT'):
            if d != 'mysql': raise SkelError('AUTO_INCREMENT is MySQL syntax')
            specs.append(('AUTOINC',)); i += 1
        elif is_word(t, 'AUTOINCREMENT'):
            if d != 'sqlite': raise SkelError('AUTOINCREMENT is SQLite syntax')
            if not specs or specs[-1] != ('PRIMARY KEY',): raise SkelError('AUTOINCREMENT must directly follow PRIMARY KEY')
            specs.append(('AUTOINC',)); i += 1
        elif is_word(t, 'UNIQUE'): specs.append(('UNIQUE',)); i += 1
        elif is_word(t, 'PRIMARY') and i + 1 < len(toks) and is_word(toks[i+1], 'KEY'): specs.append(('PRIMARY KEY',)); i += 2
        elif is_word(t, 'CHECK') and i + 1 < len(toks) and toks[i+1][0] == 'group': specs.append(('CHECK', tuple(idents(toks[i+1][1])))); i += 2
        elif is_word(t, 'GENERATED'):
            if not (is_word(toks[i+1], 'ALWAYS') and is_word(toks[i+2], 'AS') and toks[i+3][0] == 'group' and i + 4 < len(toks) and is_word(toks[i+4], 'STORED', 'VIRTUAL')):
                raise SkelError('malformed GENERATED ALWAYS AS (..) STORED|VIRTUAL')
            if d == 'postgres' and toks[i+4][1] == 'VIRTUAL': raise SkelError('PostgreSQL has no VIRTUAL generated columns')
            specs.append(('GENERATED', tuple(idents(toks[i+3][1])), toks[i+4][1])); i += 5
        elif is_word(t, 'COMMENT'):
            if d != 'mysql': raise SkelError('COMMENT is MySQL syntax')
            if not (i + 1 < len(toks) and toks[i+1][0] == 'str'): raise SkelError('COMMENT without a string literal')
            specs.append(('COMMENT', toks[i+1][1])); i += 2
        else:
            raise SkelError('unexpected %r in a column definition' % (t,))
    return ('col', name, ty, tuple(params), unsigned, tuple(specs))

def tok_summary(toks):
    out = []
    for t in toks:
        if t[0] == 'group': out.append(('(',) + tuple(tok_summary(t[1])))
        else: out.append((t[0], t[1]))
    return out

def index_cols(group):
    out = []
    for it in split_commas(group):
        if not it or it[0][0] != 'id': raise SkelError('index column must be a quoted name')
        name = it[0][1]; prefix = None; order = None
        for t in it[1:]:
            if t[0] == 'group' and len(t[1]) == 1 and t[1][0][0] == 'num': prefix = int(t[1][0][1])
            elif is_word(t, 'ASC', 'DESC'): order = t[1]
            else: raise SkelError('unexpected %r in an index column' % (t,))
        out.append((name, prefix, order))
    return tuple(out)

def fk_item(toks, i, d):
    """FOREIGN KEY (cols) REFERENCES tbl (cols) [ON DELETE a] [ON UPDATE a]; returns (item sans name, next index)"""
    if not (is_word(toks[i], 'FOREIGN') and is_word(toks[i+1], 'KEY')): raise SkelError('FOREIGN KEY expected')
    i += 2
    if toks[i][0] != 'group': raise SkelError('FOREIGN KEY column list expected')
    cols = tuple(idents(toks[i][1])); i += 1
    if not is_word(toks[i], 'REFERENCES'): raise SkelError('REFERENCES expected')
    i += 1; j = i
    while j < len(toks) and toks[j][0] in ('id', 'sym'): j += 1
    ref = tuple(idents(toks[i:j])); i = j
    if i >= len(toks) or toks[i][0] != 'group': raise SkelError('referenced column list expected')
    rcols = tuple(idents(toks[i][1])); i += 1
    acts = {}
    while i + 1 < len(toks) and is_word(toks[i], 'ON') and is_word(toks[i+1], 'DELETE', 'UPDATE'):
        which = toks[i+1][1]; i += 2; words = []
        while i < len(toks) and toks[i][0] == 'word' and toks[i][1] in ('RESTRICT', 'CASCADE', 'SET', 'NULL', 'NO', 'ACTION', 'DEFAULT'): words.append(toks[i][1]); i += 1
        if which in acts: raise SkelError('ON %s given twice' % which)
        if ' '.join(words) not in ('RESTRICT', 'CASCADE', 'SET NULL', 'NO ACTION', 'SET DEFAULT'): raise SkelError('unknown referential action %r' % ' '.join(words))
        acts[which] = ' '.join(words)
    return (cols, ref, rcols, acts.get('DELETE'), acts.get('UPDATE')), i

def table_index_tail(toks, i, d, extra):
    """what may follow the column list of a table-level PRIMARY KEY / UNIQUE constraint: PostgreSQL INCLUDE (cols); MySQL index options (USING ..)"""
    while i < len(toks):
        if d == 'postgres' and is_word(toks[i], 'INCLUDE') and i + 1 < len(toks) and toks[i+1][0] == 'group':
            extra['include'] = tuple(idents(toks[i+1][1])); i += 2
        elif d == 'mysql' and is_word(toks[i], 'USING') and i + 1 < len(toks): extra['using'] = str(toks[i+1][1]).upper(); i += 2
        else: raise SkelError('unexpected text after a table constraint: %r' % (toks[i],))
    return tuple(sorted(extra.items()))

def table_item(toks, d):
    t0 = toks[0]
    if t0[0] == 'id': return column_item(toks, d)
    i = 0; cname = None
    if is_word(t0, 'CONSTRAINT'):
        if toks[1][0] != 'id': raise SkelError('constraint name must be a quoted identifier')
        cname = toks[1][1]; i = 2
    t = toks[i]
    if is_word(t, 'PRIMARY'):
        if not is_word(toks[i+1], 'KEY'): raise SkelError('PRIMARY KEY expected')
        i += 2
        if toks[i][0] == 'id' and d == 'mysql': cname = toks[i][1]; i += 1
        return ('index', 'PRIMARY', cname, index_cols(toks[i][1]), table_index_tail(toks, i + 1, d, {}))
    if is_word(t, 'UNIQUE', 'KEY', 'INDEX', 'FULLTEXT'):
        kind = 'UNIQUE' if is_word(t, 'UNIQUE') else ('FULLTEXT' if is_word(t, 'FULLTEXT') else 'INDEX')
        i += 1
        if i < len(toks) and is_word(toks[i], 'KEY', 'INDEX'):
            if d != 'mysql': raise SkelError('UNIQUE KEY is MySQL syntax')
            i += 1
        if kind != 'UNIQUE' and d != 'mysql': raise SkelError('inline KEY / INDEX in CREATE TABLE is MySQL syntax')
        if toks[i][0] == 'id' and d == 'mysql': cname = toks[i][1]; i += 1
        extra = {}
        if d == 'mysql' and is_word(toks[i], 'USING'):      # {INDEX | KEY} [index_name] [USING {BTREE | HASH}] (key_part, ...)
            extra['using'] = str(toks[i+1][1]).upper(); i += 2
            if toks[i][0] != 'group':
                # USING HASH(`id`): the type name is directly followed by the column list
                raise SkelError('column list expected after the index type')
        if kind == 'UNIQUE' and d == 'postgres' and is_word(toks[i], 'NULLS'):
            if not (is_word(toks[i+1], 'NOT') and is_word(toks[i+2], 'DISTINCT')): raise SkelError('NULLS NOT DISTINCT expected')
            extra['nnd'] = True; i += 3
        return ('index', kind, cname, index_cols(toks[i][1]), table_index_tail(toks, i + 1, d, extra))
    if is_word(t, 'FOREIGN'):
        body, j = fk_item(toks, i, d)
        if j != len(toks): raise SkelError('text after a foreign key')
        return ('fk', cname) + body
    if is_word(t, 'CHECK'):
        return ('check', tuple(idents(toks[i+1][1])))
    raise SkelError('unexpected table item starting with %r' % (t,))

def recognise_ddl(text, d):
    # "type[]" : protect the brackets (the expression tokenizer has no '[')
    toks = lex(text.replace('[]', ' ARRAYOF '), d)
    def W(i, *ws): return i < len(toks) and is_word(toks[i], *ws)
    i = 0
    if W(0, 'CREATE') and (W(1, 'TABLE') or (W(1, 'TEMPORARY') and W(2, 'TABLE'))):
        temp = W(1, 'TEMPORARY'); i = 3 if temp else 2
        ifne = False
        if W(i, 'IF'):
            if not (W(i+1, 'NOT') and W(i+2, 'EXISTS')): raise SkelError('IF NOT EXISTS expected')
            ifne = True; i += 3
        j = i
        while j < len(toks) and toks[j][0] in ('id', 'sym'): j += 1
        name = tuple(idents(toks[i:j])); i = j
        if i >= len(toks) or toks[i][0] != 'group': raise SkelError('parenthesised column list expected')
        items = [table_item(x, d) for x in split_commas(toks[i][1])]
        if any(not x for x in split_commas(toks[i][1])): raise SkelError('empty item in the column list')
        opts = tok_summary(toks[i+1:])
        return ('create_table', temp, ifne, name, tuple(items), tuple(opts))
    if W(0, 'ALTER') and W(1, 'TABLE'):
        j = 2
        while j < len(toks) and toks[j][0] in ('id', 'sym') and toks[j] != ('sym', ','): j += 1
        name = tuple(idents(toks[2:j]))
        if W(j, 'RENAME') and W(j+1, 'TO'):
            return ('rename_table', name, tuple(idents(toks[j+2:])))
        acts = []
        parts = split_commas(toks[j:])
        if any(not p for p in parts): raise SkelError('empty action in ALTER TABLE (stray comma)')
        for a in parts:
            def A(k, *ws): return k < len(a) and is_word(a[k], *ws)
            if A(0, 'ADD') and A(1, 'COLUMN'):
                k = 2; ifne = False
                if A(2, 'IF'): ifne = True; k = 5
                acts.append(('add_column', ifne, column_item(a[k:], d)))
            elif A(0, 'MODIFY') and A(1, 'COLUMN'):
                if d != 'mysql': raise SkelError('MODIFY COLUMN is MySQL syntax')
                acts.append(('modify_column', column_item(a[2:], d)))
            elif A(0, 'ALTER') and A(1, 'COLUMN'):
                if d != 'postgres': raise SkelError('ALTER COLUMN is PostgreSQL syntax here')
                col = a[2][1]
                if A(3, 'TYPE'):
                    k = 4
                    while k < len(a) and not is_word(a[k], 'USING'): k += 1
                    ty, params, uns, used = type_of(a[4:k])
                    if used != k - 4: raise SkelError('malformed type in ALTER COLUMN .. TYPE')
                    using = tuple(idents(a[k+1:])) if k < len(a) else None
                    acts.append(('alter_type', col, ty, tuple(params), using))
                elif A(3, 'DROP') and A(4, 'NOT') and A(5, 'NULL') and len(a) == 6: acts.append(('drop_not_null', col))
                elif A(3, 'SET') and A(4, 'NOT') and A(5, 'NULL') and len(a) == 6: acts.append(('set_not_null', col))
                elif A(3, 'SET') and A(4, 'DEFAULT') and len(a) > 5: acts.append(('set_default', col, tuple(tok_summary(a[5:]))))
                else: raise SkelError('unknown ALTER COLUMN action')
            elif A(0, 'ADD') and A(1, 'UNIQUE') and len(a) == 3: acts.append(('add_unique', tuple(idents(a[2][1]))))
            elif A(0, 'ADD') and A(1, 'PRIMARY') and A(2, 'KEY') and len(a) == 4: acts.append(('add_primary', tuple(idents(a[3][1]))))
            elif A(0, 'RENAME') and A(1, 'COLUMN') and A(3, 'TO') and len(a) == 5: acts.append(('rename_column', a[2][1], a[4][1]))
            elif A(0, 'DROP') and A(1, 'COLUMN') and len(a) == 3: acts.append(('drop_column', a[2][1]))
            elif A(0, 'ADD') and (A(1, 'CONSTRAINT') or A(1, 'FOREIGN')):
                k = 1; cname = None
                if A(1, 'CONSTRAINT'): cname = a[2][1]; k = 3
                body, k2 = fk_item(a, k, d)
                if k2 != len(a): raise SkelError('text after a foreign key')
                acts.append(('add_fk', cname) + body)
            elif A(0, 'DROP') and ((A(1, 'FOREIGN') and A(2, 'KEY')) or A(1, 'CONSTRAINT')):
                if A(1, 'FOREIGN') and d != 'mysql': raise SkelError('DROP FOREIGN KEY is MySQL syntax')
                if A(1, 'CONSTRAINT') and d == 'mysql' and False: pass
                acts.append(('drop_fk', a[-1][1]))
            elif A(0, 'CHECK'): acts.append(('check', tuple(idents(a[1][1]))))
            else: raise SkelError('unknown ALTER TABLE action %r' % (tok_summary(a[:4]),))
        if not acts: raise SkelError('ALTER TABLE without an action')
        return ('alter_table', name, tuple(acts))
    if W(0, 'RENAME') and W(1, 'TABLE'):
        if d != 'mysql': raise SkelError('RENAME TABLE is MySQL syntax')
        k = 2
        while not W(k, 'TO'): k += 1
        return ('rename_table', tuple(idents(toks[2:k])), tuple(idents(toks[k+1:])))
    if W(0, 'DROP') and W(1, 'TABLE'):
        i = 2; ife = False
        if W(2, 'IF'): ife = True; i = 4
        k = i
        while k < len(toks) and toks[k][0] != 'word': k += 1
        names = tuple(tuple(idents(x)) for x in split_commas(toks[i:k]))
        return ('drop_table', ife, names, tuple(t[1] for t in toks[k:]))
    if W(0, 'TRUNCATE') and W(1, 'TABLE'): return ('truncate_table', tuple(idents(toks[2:])))
    if W(0, 'CREATE') and (W(1, 'INDEX') or (W(1, 'UNIQUE', 'FULLTEXT') and W(2, 'INDEX'))):
        kind = 'INDEX' if W(1, 'INDEX') else toks[1][1]
        i = 2 if kind == 'INDEX' else 3
        ifne = False
        if W(i, 'IF'): ifne = True; i += 3
        if toks[i][0] != 'id': raise SkelError('index name must be a quoted identifier')
        name = toks[i][1]; i += 1
        if not W(i, 'ON'): raise SkelError('ON expected')
        i += 1; j = i
        while j < len(toks) and toks[j][0] in ('id', 'sym'): j += 1
        tbl = tuple(idents(toks[i:j])); i = j
        using = None
        if W(i, 'USING'): using = toks[i+1][1]; i += 2
        cols = index_cols(toks[i][1]); i += 1
        extra = {}
        while i < len(toks):
            if W(i, 'INCLUDE'):
                if d != 'postgres': raise SkelError('INCLUDE is PostgreSQL syntax')
                extra['include'] = tuple(idents(toks[i+1][1])); i += 2
            elif W(i, 'NULLS') and W(i+1, 'NOT') and W(i+2, 'DISTINCT'): extra['nnd'] = True; i += 3
            elif W(i, 'WHERE'):
                if d == 'mysql': raise SkelError('partial indexes are not MySQL syntax')
                extra['where'] = tuple(idents(toks[i+1:])); i = len(toks)
            elif W(i, 'USING') and d == 'mysql': using = toks[i+1][1]; i += 2
            else: raise SkelError('unexpected %r in CREATE INDEX' % (toks[i],))
        return ('create_index', kind, ifne, name, tbl, using, cols, tuple(sorted(extra.items())))
    if W(0, 'DROP') and W(1, 'INDEX'):
        i = 2; ife = False
        if W(2, 'IF'): ife = True; i = 4
        j = i
        while j < len(toks) and not is_word(toks[j], 'ON'): j += 1
        name = tuple(idents(toks[i:j]))
        tbl = tuple(idents(toks[j+1:])) if j < len(toks) else None
        if tbl is not None and d != 'mysql': raise SkelError('DROP INDEX .. ON is MySQL syntax')
        return ('drop_index', ife, name, tbl)
    if W(0, 'CREATE') and W(1, 'TYPE'):
        k = 2
        while not W(k, 'AS'): k += 1
        if not W(k+1, 'ENUM') or toks[k+2][0] != 'group': raise SkelError('AS ENUM (..) expected')
        labels = []
        for it in split_commas(toks[k+2][1]):
            if len(it) != 1 or it[0][0] != 'str': raise SkelError('enum labels must be string literals')
            labels.append(it[0][1])
        return ('create_type', tuple(idents(toks[2:k])), tuple(labels))
    if W(0, 'ALTER') and W(1, 'TYPE'):
        k = 2
        while k < len(toks) and toks[k][0] in ('id', 'sym'): k += 1
        return ('alter_type_stmt', tuple(idents(toks[2:k])), tuple(tok_summary(toks[k:])))
    if W(0, 'DROP') and W(1, 'TYPE'): return ('drop_type', tuple(tok_summary(toks[2:])))
    if W(0, 'CREATE') and W(1, 'EXTENSION'): return ('create_extension', tuple(tok_summary(toks[2:])))
    if W(0, 'DROP') and W(1, 'EXTENSION'): return ('drop_extension', tuple(tok_summary(toks[2:])))
    raise SkelError('unknown schema statement')

# ------------------------------------------------------------------ expected structure from a script
def tname(t):
    k = t[0]
    if k == 't': return (t[1],)
    if k == 'st': return ('%s.%s' % (t[1], t[2]),)
    if k == 'dst': return ('%s.%s.%s' % (t[1], t[2], t[3]),)
    raise SkelError('table name %r' % (t,))

ACT = {'Restrict': 'RESTRICT', 'Cascade': 'CASCADE', 'SetNull': 'SET NULL', 'NoAction': 'NO ACTION', 'SetDefault': 'SET DEFAULT'}

def e_fk(j, d, in_table):
    name = None; cols = []; rcols = []; ref = None; od = None; ou = None; frm = None
    for c in j['calls']:
        if c[0] == 'name': name = c[1]
        elif c[0] == 'from_col': cols.append(c[1])
        elif c[0] == 'to_col': rcols.append(c[1])
        elif c[0] == 'to_tbl': ref = tname(c[1])
        elif c[0] == 'from_tbl': frm = tname(c[1])
        elif c[0] == 'on_delete': od = ACT[c[1]]
        elif c[0] == 'on_update': ou = ACT[c[1]]
    if d == 'sqlite' and in_table: name = None          # SQLite renders table-level foreign keys without CONSTRAINT name
    return (name, tuple(cols), ref, tuple(rcols), od, ou), frm

def e_index_item(j, d, primary=False):
    name = None; cols = []; kind = 'PRIMARY' if primary else 'INDEX'; extra = {}
    for c in j['calls']:
        if c[0] == 'include' and d == 'postgres': extra['include'] = extra.get('include', ()) + (c[1],)
        elif c[0] == 'nulls_not_distinct' and d == 'postgres': extra['nnd'] = True
        elif c[0] == 'index_type' and d == 'mysql': extra['using'] = c[1].upper()
    for c in j['calls']:
        if c[0] == 'name': name = c[1]
        elif c[0] == 'col':
            order = c[2].upper() if len(c) > 2 and c[2] else None
            prefix = c[3] if len(c) > 3 and c[3] is not None and d == 'mysql' else None
            cols.append((c[1], prefix, order))
        elif c[0] == 'primary': kind = 'PRIMARY'
        elif c[0] == 'unique' and kind != 'PRIMARY': kind = 'UNIQUE'
        elif c[0] == 'full_text' and kind == 'INDEX': kind = 'FULLTEXT'
    return ('index', kind, name, tuple(cols), tuple(sorted(extra.items())))

def e_specs(specs, d, in_create=True):
    """column specs in declaration order as the dialect shows them"""
    out = []
    for s in specs:
        k = s if isinstance(s, str) else s[0]
        if k == 'Null': out.append(('NULL',))
        elif k == 'NotNull': out.append(('NOT NULL',))
        elif k == 'Default': out.append(('DEFAULT', e_default(s[1], d)))
        elif k == 'AutoIncrement':
            if d == 'mysql': out.append(('AUTOINC',))
            elif d == 'sqlite': out.append(('AUTOINC',))
        elif k == 'UniqueKey': out.append(('UNIQUE',))
        elif k == 'PrimaryKey': out.append(('PRIMARY KEY',))
        elif k == 'Check':
            from props.sqlskel import e_idents
            out.append(('CHECK', tuple(e_idents(s[1]))))
        elif k == 'Generated':
            from props.sqlskel import e_idents
            out.append(('GENERATED', tuple(e_idents(s[1])), 'STORED' if s[2] else 'VIRTUAL'))
        elif k == 'Comment':
            if d == 'mysql': out.append(('COMMENT', "'%s'" % s[1]))
        elif k == 'Using': pass
        elif k == 'Extra': raise SkelError('Extra specs are raw text')
    return out

def e_default(ex, d):
    """token summary of a DEFAULT expression: supports integer values, NULL, CURRENT_TIMESTAMP, TRUE/FALSE and marker numbers"""
    k = ex[0]
    if k == 'val':
        v = ex[1]
        if v['v'] is None: return (('word', 'NULL'),)
        if v['t'] == 'Bool': return (('word', 'TRUE' if v['v'] else 'FALSE'),)
        if v['t'] == 'String': return (('str', None),)
        return (('num', str(v['v'])),)
    if k == 'kw': return (('word', {'Null': 'NULL', 'CurrentTimestamp': 'CURRENT_TIMESTAMP', 'CurrentDate': 'CURRENT_DATE', 'CurrentTime': 'CURRENT_TIME'}[ex[1]]),)
    raise SkelError('default expression %r' % (k,))

def e_column(cd, d):
    specs = cd['specs']
    auto = any(s == 'AutoIncrement' for s in specs)
    et = None if cd.get('type') is None else (expected_type(cd['type'], d, auto) or 'NO-SUCH-TYPE')
    sp = e_specs(specs, d)
    if d == 'sqlite':
        # SQLite: PRIMARY KEY AUTOINCREMENT is one constraint and is written last
        has_pk = ('PRIMARY KEY',) in sp; has_ai = ('AUTOINC',) in sp
        sp = [x for x in sp if x not in (('PRIMARY KEY',), ('AUTOINC',))]
        if has_pk: sp.append(('PRIMARY KEY',))
        if has_ai: sp.append(('AUTOINC',))
    return (cd['name'], et, tuple(sp))

def match_column(got, want, d):
    """got: ('col', name, type, params, unsigned, specs) from the text; want: e_column(); returns None or a description"""
    _, name, ty, params, uns, specs = got
    wname, et, wspecs = want
    if name != wname: return 'column %r rendered as %r' % (wname, name)
    if et == 'NO-SUCH-TYPE':
        if not known_type(ty, d): return 'column %r: the dialect has no type for the declared abstract type and %r is not a %s type either' % (name, ty, d)
    elif et is not None:
        wty, wparams, wuns = et
        if ty.replace(' arrayof', '[]') != wty:
            return 'column %r: type %r, the dialect type for the declared abstract type is %r' % (name, ty, wty)
        gp = [p if not isinstance(p, str) else p for p in params]
        if wty == 'enum':
            if len(gp) != len(wparams): return 'column %r: ENUM has %d labels, %d declared' % (name, len(gp), len(wparams))
        elif list(gp) != list(wparams): return 'column %r: type parameters %r, declared %r (length / precision not preserved)' % (name, list(gp), list(wparams))
        if uns != wuns: return 'column %r: unsigned-ness not preserved' % name
    elif d in ('mysql', 'postgres') and want[1] is None and ty and False: pass
    def strip_default(sp):
        return tuple((s[0], tuple((a, None) if a == 'str' else (a, b) for a, b in s[1])) if s[0] == 'DEFAULT' else s for s in sp)
    if strip_default(specs) != strip_default(tuple(wspecs)): return 'column %r: specifications %r, declared %r' % (name, specs, tuple(wspecs))
    return None

def known_type(ty, d):
    base = ty.replace(' arrayof', '').replace('[]', '')
    if d == 'mysql': return base in MYSQL_TYPES
    if d == 'postgres': return base in PG_TYPES
    return True
