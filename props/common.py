"""helpers shared by property harnesses"""
import z3, random
from interp import Cell, Ref, Adt, Str, VecV, UNIT, is_sym, Budget, Unsupported
from framework import model_int

BACKENDS = {'mysql': 'MysqlQueryBuilder', 'postgres': 'PostgresQueryBuilder', 'sqlite': 'SqliteQueryBuilder'}

def valid_char(c):
    return z3.Or(z3.ULT(c, 0xD800), z3.And(z3.UGE(c, 0xE000), z3.ULE(c, 0x10FFFF)))

def sym_chars(n, tag):
    cs = [z3.BitVec('%s%d' % (tag, i), 32) for i in range(n)]
    return cs, [valid_char(c) for c in cs]

def conc(m, chars):
    """evaluate a list of string elements under a model -> list of ints (opaque tokens are kept as tagged lists)"""
    out = []
    for c in chars:
        if isinstance(c, int): out.append(c)
        elif isinstance(c, tuple): out.append([c[0], model_int(m, c[1])] + list(c[2:]))
        else: out.append(model_int(m, c))
    return out

def text(cps):
    return ''.join(chr(c) if isinstance(c, int) and (c < 0xD800 or 0xE000 <= c < 0x110000) else '<%s>' % (c,) for c in cps)

def backend_ref(name):
    return Ref(Cell(Adt(BACKENDS[name], None, [])))

def merge_worker(ctx, res):
    """fold a worker result into the context; returns False if the item was inconclusive"""
    if 'inconclusive' in res:
        ctx.inconclusive.append(res['inconclusive'] + ' [' + res.get('item', '') + ']')
        return False
    ctx.absorb(res['stats'], res.get('executed'), res.get('models_used'))
    return True

def reset_stats(eng):
    eng.stats = dict(paths=0, queries=0, steps=0, solver_s=0.0, panics=0, asserts=0)
    eng.executed = {}; eng.models_used = {}

class Sampler:
    """choose which passing paths are replayed natively: the first `first`, then one in `every`"""
    def __init__(self, seed, first=8, every=50):
        self.rng = random.Random(seed); self.first = first; self.every = every; self.n = 0
    def want(self):
        self.n += 1
        return self.n <= self.first or self.rng.randrange(self.every) == 0

def expand(chars, m=None, nat=None):
    """string elements -> code points, expanding opaque number tokens: Dec by the value's decimal spelling, Flt through the native formatter"""
    out = []
    for c in chars:
        if isinstance(c, int): out.append(c)
        elif isinstance(c, (tuple, list)):
            kind = c[0]
            if kind == 'Dec':
                v = c[1] if isinstance(c[1], int) else model_int(m, c[1]); ty = c[2]
                w = {'i8': 8, 'i16': 16, 'i32': 32, 'i64': 64, 'isize': 64}.get(ty)
                if w and v >= (1 << (w - 1)): v -= (1 << w)
                out.extend(ord(ch) for ch in str(v))
            elif kind == 'Flt':
                p = c[1]
                if isinstance(p, tuple) and p[0] == 'float': p = p[1]
                if isinstance(p, str):
                    import struct
                    p = struct.unpack('<Q', struct.pack('<d', float(p)))[0] if c[2] == 'f64' else struct.unpack('<I', struct.pack('<f', float(p)))[0]
                bits = p if isinstance(p, int) else model_int(m, p)
                out.extend(ord(ch) for ch in nat.ask({'op': 'fmt_float', 'bits': bits, 'ty': c[2]})['s'])
            elif kind == 'Bool':
                out.extend(ord(ch) for ch in ('true' if model_int(m, c[1]) else 'false'))
            else: out.append(list(c))
        else: out.append(model_int(m, c))
    return out
