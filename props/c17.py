"""C17 - unescape_string(escape_string(s)) == s on every backend.

Exec (from the MIR of the current tree): EscapeBuilder::escape_string / unescape_string default bodies (MySQL, Postgres)
and the SQLite overrides.  Sym: L arbitrary Unicode scalar values.  Assert: round trip is the identity."""
import z3
from interp import Cell, Ref, Str, Adt, Budget, Unsupported
from models import as_str
from framework import model_int
from props.common import *

CORPUS = ["", "abc", "a'b", "a\\b", "it's \"q\"", "\\'", "\\\\n", "a\nb\tc\rd", "\x00\x08\x1a", "''", "'''", "\\0", "\\z\\Z", "é'表\\", "%_", "\\%"]

ENG = None
def entry_for(backend, cs, vc, sampler, out, check=True):
    def entry(e):
        for c in vc: e.add(c)
        me = backend_ref(backend)
        esc = e.call('<Self as EscapeBuilder>::escape_string', [me, Ref(Cell(Str(cs)))])
        esc_chars = list(as_str(esc).chars)
        un = e.call('<Self as EscapeBuilder>::unescape_string', [me, Ref(Cell(esc))])
        res = as_str(un).chars
        info = {'backend': backend, 'kind': 'roundtrip'}
        if not check:
            out.append({'backend': backend, 's': list(cs), 'escaped': esc_chars, 'out': list(res)}); return
        e.check(len(res) == len(cs), 'unescape(escape(s)) has %d chars, s has %d' % (len(res), len(cs)), info)
        for i in range(len(cs)):
            e.check(res[i] == cs[i], 'unescape(escape(s)) differs from s at char %d' % i, info)
        if sampler.want():
            m = e.ensure_model()
            out.append({'backend': backend, 's': conc(m, cs), 'escaped': conc(m, esc_chars)})
    return entry

def work(item):
    backend, L, prefix, seed = item
    eng = ENG; reset_stats(eng); eng.solver = z3.Solver()
    cs, vc = sym_chars(L, 'c')
    samples = []; sampler = Sampler(seed, first=4, every=60)
    viol = eng.run_all(entry_for(backend, cs, vc, sampler, samples), prefix=prefix)
    vs = []
    for kind, msg, m, info in viol:
        vs.append({'kind': kind, 'msg': msg, 'backend': backend, 's': conc(m, cs) if m is not None else None})
    return {'stats': eng.stats, 'executed': eng.executed, 'models_used': eng.models_used, 'violations': vs, 'samples': samples,
            'item': [backend, L, len(prefix)]}

def run(ctx):
    global ENG
    maxL = 4 if ctx.tier == 'quick' else 5
    ctx.bounds = {'L': 'strings of 0..%d arbitrary Unicode scalar values (each char a 32-bit solver variable constrained to scalar values)' % maxL,
                  'backends': list(BACKENDS)}
    ctx.assumptions += ['std models: str::replace::<char>, str::replace::<&str>, String Deref, fmt (see models_used)',
                        'strings longer than the bound are outside the claim']
    ENG = eng = ctx.engine()
    nat = ctx.nat()
    # --- translator validation: concrete corpus through the engine and the native build
    for b in BACKENDS:
        for s in CORPUS:
            cps = [ord(ch) for ch in s]
            out = []
            eng.run_all(entry_for(b, cps, [], Sampler(0, first=1), out, check=False))
            r = nat.ask({'op': 'escape_roundtrip', 'backend': b, 's': cps})
            if not out or out[0]['escaped'] != r.get('escaped') or out[0]['out'] != r.get('out'):
                ctx.inconclusive.append('translator validation: engine and native disagree on escape(%r) for %s: %r vs %r' % (s, b, out, r))
            else:
                ctx.validated += 1
    ctx.absorb(eng)
    # --- symbolic exploration
    items = []
    for b in BACKENDS:
        for L in range(0, maxL + 1):
            if L >= 4 and b != 'sqlite':
                cs, vc = sym_chars(L, 'c')
                prefixes = eng.frontier(entry_for(b, cs, vc, Sampler(0, first=0, every=10**9), []), ctx.workers * 3)
                for p in prefixes: items.append((b, L, p, ctx.seed))
            else:
                items.append((b, L, [], ctx.seed))
    ctx.families = ['%s L=%d' % (b, L) for b in BACKENDS for L in range(maxL + 1)]
    results = ctx.pmap(work, items)
    for res in results:
        if not merge_worker(ctx, res): continue
        for s in res['samples']:
            r = nat.ask({'op': 'escape_roundtrip', 'backend': s['backend'], 's': s['s']})
            if r.get('escaped') == s['escaped'] and r.get('holds'):
                ctx.validated += 1
                if len(ctx.samples) < 12: ctx.samples.append({'backend': s['backend'], 's': text(s['s']), 'escaped': text(s['escaped']), 'roundtrip': 'ok'})
            else:
                ctx.inconclusive.append('passing path does not agree with the native build: %r -> %r' % (s, r))
        for v in res['violations']:
            if v['s'] is None:
                ctx.inconclusive.append('violation without model: %r' % (v,)); continue
            r = nat.ask({'op': 'escape_roundtrip', 'backend': v['backend'], 's': v['s']})
            if r.get('panic') is not None or r.get('holds') is False:
                rel = Native_release(ctx).ask({'op': 'escape_roundtrip', 'backend': v['backend'], 's': v['s']})
                ctx.violations.append({'key': '%s:%s' % ('panic' if 'panic' in r else 'roundtrip', v['backend']), 'msg': v['msg'], 'backend': v['backend'],
                                       'input': v['s'], 'input_text': text(v['s']), 'native_dev': r, 'native_release': rel,
                                       'replay': {'op': 'escape_roundtrip', 'backend': v['backend'], 's': v['s']}})
            else:
                ctx.inconclusive.append('counterexample does not reproduce natively: %r -> %r' % (v, r))

_REL = []
def Native_release(ctx):
    from framework import Native
    if not _REL: _REL.append(Native('release'))
    return _REL[0]

def replay(ctx, data):
    nat = ctx.nat()
    r = nat.ask(data['replay'])
    print('native dev:', r)
    return 1 if (r.get('panic') is not None or r.get('holds') is False) else 0
