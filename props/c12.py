"""C12 - Rust values survive the trip through Value unchanged (engine K: Kani proof harnesses over the compiled crate)."""
import os, json
import kanidrv
from framework import VERIF

PREFIX = 'c12_'
FEATURES = None
BOUNDS = {'scalars': 'bool, i8..i64, u8..u64, f32/f64 (all bit patterns), char: full range, exhaustive by CBMC',
          'option': 'Option<T> of each scalar and of String', 'strings': 'String / Vec<u8> of length <= 2 with symbolic (ASCII) content; &str, Cow<str> concrete',
          'wrong_type': 'every (source variant incl. NULL, target type) pair over the 14 default variants', 'tuples': 'arity 1..3 mixed types, 4 / 6 / 12 with i32 members',
          'unwind': 'loops only over the <= 12-element containers; Kani unwinding assertions are on'}
ASSUME = ['value types behind with-* features (json, chrono, time, decimal, uuid, ...) are outside the claim: their code lives in external crates that are not encoded',
          'String payloads are ASCII in the harnesses (UTF-8 validity is not the subject); heap values are mem::forget-ed at the end of harnesses']

def run(ctx, prefix=PREFIX, features=FEATURES, bounds=BOUNDS, assume=ASSUME, keyf=None):
    ctx.bounds = bounds; ctx.assumptions += assume
    r = kanidrv.run_kani(prefix, features, jobs=ctx.workers)
    ctx.stats['paths'] = r['ok']; ctx.stats['steps'] = r['checks']; ctx.stats['asserts'] = r['checks']
    ctx.stats['solver_s'] = r['wall']; ctx.stats['queries'] = r['total']
    ctx.families = sorted(r['results'])
    ctx.executed = {'kani harness ' + n: 1 for n in r['results']}
    ctx.models_used = {'kani (CBMC, cadical)': 1}
    ctx.samples = [{'harness': n, 'result': s} for n, s in sorted(r['results'].items())][:12]
    ctx.notes.append('states = harnesses verified (each an exhaustive symbolic state space); transitions = CBMC properties checked; all cover properties (reachability witnesses) satisfied: %s' % r['covers_ok'])
    if not r['covers_ok']: ctx.inconclusive.append('a reachability witness (kani::cover) was not satisfied: vacuous harness')
    if r['total'] != len(r['results']): ctx.inconclusive.append('kani verified %d harnesses, expected %d' % (r['total'], len(r['results'])))
    failed = [n for n, s in sorted(r['results'].items()) if s != 'ok']
    for n in failed[3:]: ctx.notes.append('harness %s also failed (counterexample not replayed: only the first three failing harnesses are replayed)' % n)
    for n in failed[:3]:
        rep, gen, log = kanidrv.playback(n, features)
        if rep:
            ctx.validated += 1
            ctx.violations.append({'key': (keyf(n, gen) if keyf else n), 'msg': 'kani harness %s fails; the concrete counterexample reproduces natively' % n, 'harness': n,
                                   'playback_test': gen, 'native_log': log[-800:], 'replay': {'harness': n, 'features': features}})
        else:
            ctx.inconclusive.append('kani harness %s failed but the counterexample did not reproduce natively (%r): %s' % (n, rep, log[-400:]))

def replay(ctx, data):
    rep, gen, log = kanidrv.playback(data['replay']['harness'], data['replay'].get('features'))
    print(log[-1500:])
    return 1 if rep else 0
