"""C12 - Rust values survive the trip through Value unchanged (engine K: Kani proof harnesses over the compiled crate)."""
import os, json
import kanidrv
from framework import VERIF

PREFIX = 'c12_'
FEATURES = None
BOUNDS = {'scalars': 'bool, i8..i64, u8..u64, f32/f64 (all bit patterns), char: full range, exhaustive by CBMC',
          'option': 'Option<T> of each scalar and of String', 'strings': 'String / Vec<u8> of length <= 2 with symbolic (ASCII) content; &str, Cow<str> concrete',
          'wrong_type': 'every (source variant incl. NULL, target type) pair over the 14 default variants', 'tuples': 'arity 1..3 mixed types, every arity 4..12 with i32 members; extraction at a different arity (5 as 4, 4 as 5, 12 as 11, 3 as 2, 2 as 3, 4 as 3) must panic (#[kani::should_panic] harnesses with a native twin as replay)',
          'unwind': 'loops only over the <= 12-element containers; Kani unwinding assertions are on'}
ASSUME = ['serde_json::Value, BigDecimal, DateTime<Local>, pgvector and arrays of non-i32 elements are outside the claim (CBMC does not finish the JSON / BigDecimal harnesses within 300 s; Local needs the system time zone)',
          'String payloads are ASCII in the harnesses (UTF-8 validity is not the subject); heap values are mem::forget-ed at the end of harnesses']

XBOUNDS = {'feature_types': 'harness crate feature `ext`: Uuid (all 128 bits), rust_decimal::Decimal (all 96-bit mantissas, sign, scale 0..28), chrono NaiveDate (years -9999..9999, every ordinal) / NaiveTime (every second and nanosecond incl. leap) / '
                            'NaiveDateTime / DateTime<Utc> / DateTime<FixedOffset> (every offset), time Date / Time / PrimitiveDateTime / OffsetDateTime, MacAddress (48 bits), IpNetwork V4 / V6 (every address and prefix), '
                            'Vec<i32> arrays of length 0..2 with symbolic elements: Value::from, try_from, Option<T>, Nullable::null, as_null, foreign variants rejected both ways'}

def run(ctx, prefix=PREFIX, features=FEATURES, bounds=BOUNDS, assume=ASSUME, keyf=None):
    ctx.bounds = dict(bounds); ctx.assumptions += assume
    runs = [(prefix, features)]
    if prefix == PREFIX:
        runs.append(('c12x_', 'ext')); ctx.bounds.update(XBOUNDS)
    agg = None
    for pfx, feat in runs:
        r1 = kanidrv.run_kani(pfx, feat, jobs=ctx.workers)
        r1['features_of'] = {n: feat for n in r1['results']}
        if agg is None: agg = r1
        else:
            agg['results'].update(r1['results']); agg['features_of'].update(r1['features_of'])
            for k in ('total', 'ok', 'failures', 'checks', 'wall', 'covers'): agg[k] += r1[k]
            agg['covers_ok'] = agg['covers_ok'] and r1['covers_ok']
    r = agg
    ctx.stats['paths'] = r['ok']; ctx.stats['steps'] = r['checks']; ctx.stats['asserts'] = r['checks']
    ctx.stats['solver_s'] = r['wall']; ctx.stats['queries'] = r['total']
    ctx.families = sorted(r['results'])
    ctx.executed = {'kani harness ' + n: 1 for n in r['results']}
    ctx.models_used = {'kani (CBMC, cadical)': 1}
    ctx.samples = [{'harness': n, 'result': s} for n, s in sorted(r['results'].items())][:12]
    ctx.notes.append('states = harnesses verified (each an exhaustive symbolic state space); transitions = CBMC properties checked; all cover properties (reachability witnesses) satisfied: %s' % r['covers_ok'])
    if not r['covers_ok'] and not any(s0 != 'ok' for s0 in r['results'].values()): ctx.inconclusive.append('a reachability witness (kani::cover) was not satisfied: vacuous harness')
    if r['total'] != len(r['results']): ctx.inconclusive.append('kani verified %d harnesses, expected %d' % (r['total'], len(r['results'])))
    for n, s0 in sorted(r['results'].items()):
        if s0 == 'timeout': ctx.inconclusive.append('kani harness %s hit the per-harness time cap (undecided)' % n)
    failed = [n for n, s in sorted(r['results'].items()) if s == 'failed']
    for n in failed[3:]: ctx.notes.append('harness %s also failed (counterexample not replayed: only the first three failing harnesses are replayed)' % n)
    for n in failed[:3]:
        features = r['features_of'].get(n, features)
        rep, gen, log = kanidrv.playback(n, features)
        if rep:
            ctx.validated += 1
            ctx.violations.append({'key': (keyf(n, gen) if keyf else n), 'msg': 'kani harness %s fails; the concrete counterexample reproduces natively' % n, 'harness': n,
                                   'playback_test': gen, 'native_log': log[-800:], 'replay': {'harness': n, 'features': features}})
        else:
            ctx.inconclusive.append('kani harness %s failed but the counterexample did not reproduce natively (%r): %s' % (n, rep, log[-400:]))

def replay(ctx, data):
    rep, gen, log = kanidrv.playback(data['replay']['harness'], data['replay'].get('features'))
    print(log[-1500:])
    return 1 if rep else 0
