"""C02 - inline rendering (to_string) is the parameterised rendering (build) with every placeholder replaced by the backend's literal for its value;
all rendering entry points agree; rendering is repeatable and does not modify the statement.

Exec (MIR of the current tree): the seven public entry points of the five statement types incl. the #[inherent] forwarders, impl SqlWriter for String
(inline push_param), SqlWriterValues, value_to_string[_common], and the whole renderer.
Sym: the C01 statement families; payloads of every value type are symbolic."""
import z3
from interp import Cell, Ref, Str, Adt, VecV, Budget, Unsupported, PathEnd, Panic, is_sym
from models import struct_eq, ch_eq
from props.common import *
from props.sq import SQ, to_json, value_json
from props import sqstmt
from props.families import FAMILIES, build_family, scan_placeholders, V

ENG = None
VTYPES = ['Int', 'BigUnsigned', 'BigInt', 'String', 'Char', 'Bool', 'Null', 'Bytes', 'TinyInt', 'Unsigned']
WIDTH = {'Int': 32, 'BigUnsigned': 64, 'BigInt': 64, 'TinyInt': 8, 'Unsigned': 32}
SIGNED_T = {'i8', 'i16', 'i32', 'i64'}

def retype(e, t, vtype, counter):
    """replace every tagged Int value of a script by a value of type vtype with a fresh symbolic payload"""
    def newval():
        counter[0] += 1; n = counter[0]
        if vtype in WIDTH: return V(vtype, z3.BitVec('p%d' % n, WIDTH[vtype]))
        if vtype == 'String':
            c = z3.BitVec('p%d' % n, 32); e.add(valid_char(c)); e.add(c != 0)
            from props.sq import Sym
            return V('String', Sym([c, ord('x')]))
        if vtype == 'Char':
            c = z3.BitVec('p%d' % n, 32); e.add(valid_char(c)); e.add(c != 0); return V('Char', c)
        if vtype == 'Bool': return V('Bool', z3.Bool('p%d' % n))
        if vtype == 'Null': return V('Int', None)
        if vtype == 'Bytes': return V('Bytes', [z3.BitVec('p%d' % n, 8), 0x0a])
        raise Unsupported(vtype)
    def go(x):
        if isinstance(x, dict) and set(x) == {'t', 'v'} and x['t'] == 'Int' and is_sym(x['v']): return newval()
        if isinstance(x, list): return [go(y) for y in x]
        if isinstance(x, dict): return {k: go(v) for k, v in x.items()}
        return x
    return go(t)

def tricky_family(f):
    """quoting-sensitive text ahead of bound values: an alias ending in a backslash, an inlined constant and bound strings that hold placeholder marks, quotes and
    backslashes, LIKE .. ESCAPE '\\' - a renderer that re-reads its own output (or mis-scans quoted text) loses track of the placeholders after them"""
    C = lambda n: ['col', n]
    calls = [['expr_as', C('tq'), 'al\\'], ['expr', ['const', V('String', "a?$1'b\\")]], ['from', ['t', 't']]]
    if f.opt('like'): calls.append(['and_where', ['m', 'like', C('lk'), 'x?$1%', 0x5c]])
    calls.append(['and_where', f.cmp()])
    if f.opt('str'): calls.append(['and_where', ['bin', 'Equal', C('s'), ['val', V('String', "q'?$2\\")]]])
    calls.append(['and_where', f.cmp()])
    if f.opt('limit'):
        n, v = f.val(64, 'BigUnsigned'); calls.append(['limit', v['v']])
    return {'k': 'select', 'calls': calls}

def elem_eq(a, b):
    """equality condition of two text elements (chars / opaque number tokens)"""
    ta = isinstance(a, tuple); tb = isinstance(b, tuple)
    if ta != tb: return False
    if not ta: return ch_eq(a, b)
    if a[0] != b[0]: return False
    if a[0] == 'Dec':
        x, y = a[1], b[1]
        if not is_sym(x) and not is_sym(y): return x == y and True
        if is_sym(x) and is_sym(y) and x.size() != y.size(): return False
        eq = x == y
        if (a[2] in SIGNED_T) != (b[2] in SIGNED_T):
            # same bits printed as signed and as unsigned only agree for non-negative values
            sx = x if is_sym(x) else y
            return z3.And(eq, sx >= 0)
        return eq
    if a[0] == 'Bool': return a[1] == b[1]
    return a == b

def same_text(e, a, b, msg, info):
    e.check(len(a) == len(b), msg + ' (length %d vs %d)' % (len(a), len(b)), info)
    for x, y in zip(a, b): e.check(elem_eq(x, y), msg, info)

def same_values(e, a, b, msg, info):
    e.check(len(a) == len(b), msg, info)
    for x, y in zip(a, b): e.check(struct_eq(e, x, y), msg, info)

def entry_for(item, sampler, out):
    fam, backend, toggles, vtype = item
    def entry(e):
        sq = SQ(e)
        if fam == 'tricky':
            from props.families import Fam
            f = Fam(e, backend, toggles); st = tricky_family(f)
        else: st, f = build_family(e, fam, backend, toggles)
        if vtype != 'Int': st = retype(e, st, vtype, [0])
        info = {'stmt': st}
        kind = st['k']
        stmt_v = sq.stmt(st); pre = sq.stmt(st)
        inline, _ = sqstmt.render(sq, kind, stmt_v, backend, 'to_string'); inline = list(inline)
        sql, values = sqstmt.render(sq, kind, stmt_v, backend, 'build'); sql = list(sql)
        # (1) substitute the backend's literal for every placeholder
        ph = scan_placeholders(sql, backend)
        e.check(len(ph) == len(values), 'build(): %d placeholders, %d values' % (len(ph), len(values)), info)
        subst = []; last = 0
        for (a, b, num), v in zip(ph, values):
            subst.extend(sql[last:a]); subst.extend(sq.value_to_string(backend, v)); last = b
        subst.extend(sql[last:])
        same_text(e, inline, subst, 'to_string() differs from build() with the placeholders replaced by the literals of their values', info)
        # (2) all entry points agree
        for entry_name in sqstmt.ENTRIES[2:]:
            s2, v2 = sqstmt.render(sq, kind, stmt_v, backend, entry_name)
            same_text(e, list(s2), sql, 'entry point %s renders different SQL than build()' % entry_name, info)
            same_values(e, v2, values, 'entry point %s binds different values than build()' % entry_name, info)
        # (3) rendering twice gives the same result
        s3, v3 = sqstmt.render(sq, kind, stmt_v, backend, 'build')
        same_text(e, list(s3), sql, 'rendering twice gives different SQL', info)
        same_values(e, v3, values, 'rendering twice binds different values', info)
        i3, _ = sqstmt.render(sq, kind, stmt_v, backend, 'to_string')
        same_text(e, list(i3), inline, 'to_string() twice gives different SQL', info)
        # (4) rendering does not modify the statement
        e.check(struct_eq(e, stmt_v, pre), 'rendering modified the statement', info)
        if sampler.want():
            m = e.ensure_model()
            out.append({'stmt': to_json(st, m), 'backend': backend, 'inline': expand(inline, m, None) if not any(isinstance(c, tuple) and c[0] == 'Flt' for c in inline) else None})
    return entry

def work(w):
    item, prefix, seed = w
    eng = ENG; reset_stats(eng); eng.solver = z3.Solver()
    samples = []; sampler = Sampler(seed, first=1, every=80)
    try:
        viol = eng.run_all(entry_for(item, sampler, samples), prefix=prefix)
    except (Budget, Unsupported) as ex:
        return {'inconclusive': '%s: %s' % (type(ex).__name__, ex), 'item': repr(item)}
    vs = [{'kind': k, 'msg': msg, 'item': [item[0], item[1], item[3]], 'stmt': to_json(info['stmt'], m) if (info and m is not None) else None} for k, msg, m, info in viol]
    return {'stats': eng.stats, 'executed': eng.executed, 'models_used': eng.models_used, 'violations': vs, 'samples': samples, 'item': repr(item)}

def native_verdict(nat, backend, st):
    """C02 evaluated natively on a concrete statement"""
    base = {'op': 'render', 'backend': backend, 'stmt': st}
    inl = nat.ask(dict(base, entry='to_string')); bld = nat.ask(dict(base, entry='build'))
    if inl.get('panic') is not None or bld.get('panic') is not None: return 'panic: %s' % (inl.get('panic') or bld.get('panic'))
    sql = bld['sql']; ph = scan_placeholders(sql, backend)
    if len(ph) != len(bld['values']): return 'placeholder / value count mismatch'
    out = []; last = 0
    for (a, b, num), v in zip(ph, bld['values']):
        lit = nat.ask({'op': 'value_to_string', 'backend': backend, 'value': v})['sql']
        out.extend(sql[last:a]); out.extend(lit); last = b
    out.extend(sql[last:])
    if out != inl['sql']: return 'to_string() [%s] differs from build() with literals substituted [%s]' % (text(inl['sql']), text(out))
    for en in ['build_any', 'build_collect', 'build_collect_any', 'build_collect_into', 'build_collect_any_into']:
        r = nat.ask(dict(base, entry=en))
        if r.get('sql') != sql or r.get('values') != bld['values']: return 'entry point %s differs from build()' % en
    return None

def run(ctx):
    global ENG
    quick = ctx.tier == 'quick'
    ENG = eng = ctx.engine()
    nat = ctx.nat()
    from props.c01 import family_items
    items = []
    # C02 renders every path through seven entry points: it keeps the quick toggle groups of C01 in both tiers (larger SELECT groups did not finish within the thorough budget); the thorough tier adds the ten value types on INSERT and SELECT families
    for fam, b, tg in family_items(True): items.append((fam, b, tg, 'Int'))
    for b in BACKENDS: items.append(('tricky', b, ('like', 'str', 'limit'), 'Int'))
    for b in BACKENDS:
        for vt in ('String', 'Bytes'): items.append(('select', b, ('from',), vt))      # one VALUES-list cell of the text-like types (more cells did not finish within the quick budget)
    for b in BACKENDS:
        for vt in VTYPES[1:]:
            items.append(('update', b, ('set2', 'where'), vt))
            if not quick:
                # text-like payloads fork in the escaping loops: one row for them (two rows x two columns did not finish within the thorough budget)
                items.append(('insert', b, ('cols', 'conflict') if vt in ('String', 'Char', 'Bytes') else ('rows', 'cols', 'conflict'), vt)); items.append(('select', b, ('valitem', 'w1', 'order', 'limit'), vt))
    ctx.bounds = {'families': sorted(set('%s: optional clauses %s, value type %s' % (i[0], list(i[2]), i[3]) for i in items if i[1] == 'mysql')),
                  'value_types': VTYPES, 'payloads': 'symbolic: full-width integers, one arbitrary non-NUL char (String of 2, Char), one arbitrary byte (Bytes of 2), Bool; NULL',
                  'entry_points': sqstmt.ENTRIES, 'backends': list(BACKENDS)}
    ctx.assumptions += ['"returns the same rows on a live engine" is outside the technique: the claim is textual identity modulo literal substitution, which implies it',
                        'floats and value types behind with-* features are outside the claim', 'the literal of a value is what QueryBuilder::value_to_string returns (its correctness is C03)']
    work_items = []
    for it in items:
        for p in eng.frontier(entry_for(it, Sampler(0, first=0, every=10**9), []), 6): work_items.append((it, p, ctx.seed))
    ctx.families = ['%s/%s/%s %s' % (i[0], i[1], i[3], '+'.join(i[2])) for i in items]
    for res in ctx.pmap(work, work_items):
        if not merge_worker(ctx, res): continue
        for s in res['samples']:
            why = native_verdict(nat, s['backend'], s['stmt'])
            r = nat.ask({'op': 'render', 'backend': s['backend'], 'entry': 'to_string', 'stmt': s['stmt']})
            if why is None and (s['inline'] is None or r.get('sql') == s['inline']):
                ctx.validated += 1
                if len(ctx.samples) < 12: ctx.samples.append({'backend': s['backend'], 'inline': text(r['sql'])})
            else: ctx.inconclusive.append('passing path does not agree with the native build: %r -> %r %r' % (s, why, r))
        for v in res['violations']:
            if v['stmt'] is None: ctx.inconclusive.append('violation without model: %r' % (v,)); continue
            why = native_verdict(nat, v['item'][1], v['stmt'])
            if why:
                ctx.violations.append({'key': '%s:%s:%s' % tuple(v['item']), 'msg': v['msg'] + ' / native: ' + why, 'stmt': v['stmt'], 'backend': v['item'][1], 'replay': {'backend': v['item'][1], 'stmt': v['stmt']}})
            else:
                ctx.inconclusive.append('counterexample does not reproduce natively: %r' % (v,))

def replay(ctx, data):
    why = native_verdict(ctx.nat(), data['replay']['backend'], data['replay']['stmt'])
    print('native dev ->', why)
    return 1 if why else 0
