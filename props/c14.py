"""C14 - MySQL and Postgres schema statements are complete and well-formed.

Exec (MIR of the current tree): TableBuilder / IndexBuilder / ForeignKeyBuilder / TypeBuilder / ExtensionBuilder impls of both backends, prepare_column_def*,
prepare_column_type, prepare_column_spec, prepare_table_alter_statement, the schema statement builders (TableCreateStatement::col / index / foreign_key ...).
Sym: the column type (variant and parameters: lengths / precisions are symbolic numbers), the sequence of column specifications, the table-level elements,
the ALTER option sequence are chosen by the engine.  Oracle: DDL recognisers and dialect type tables of props/ddlskel.py."""
import z3
from interp import Cell, Ref, Str, Adt, VecV, Budget, Unsupported, PathEnd, Panic, is_sym
from props.common import *
from props.sq import SQ, to_json
from props import sqddl
from props.ddlskel import *
from props.sqlskel import SkelError, e_idents

ENG = None
DIALECTS = ['mysql', 'postgres']
def V(t, v): return {'t': t, 'v': v}
def cmpx(n): return ['bin', 'GreaterThan', ['col', n], ['val', V('Int', 0)]]

class Gen:
    def __init__(self, e, d): self.e = e; self.d = d; self.nums = []
    def num(self, lo=1, hi=60000):
        t = z3.BitVec('n%d' % len(self.nums), 32); self.e.add(z3.And(z3.UGE(t, lo), z3.ULE(t, hi))); self.nums.append(t); return t
    def types(self):
        d = self.d
        base = ['Text', 'Blob', 'TinyInteger', 'SmallInteger', 'Integer', 'BigInteger', 'TinyUnsigned', 'SmallUnsigned', 'Unsigned', 'BigUnsigned', 'Float', 'Double', 'DateTime', 'Timestamp',
                'TimestampWithTimeZone', 'Time', 'Date', 'Boolean', 'Json', 'JsonBinary', 'Uuid', 'char', 'char_n', 'string_n', 'string_none', 'string_max', 'decimal', 'decimal_ps', 'money', 'money_ps',
                'binary', 'varbinary_n', 'varbinary_none', 'varbinary_max', 'bit', 'bit_n', 'varbit', 'custom', 'enum', 'interval']
        if d == 'mysql': base += ['Year']
        if d == 'postgres': base += ['Cidr', 'Inet', 'MacAddr', 'LTree', 'array', 'array2', 'array_str', 'interval_p']
        if d == 'sqlite': base = [b for b in base if b not in ('interval', 'bit', 'bit_n', 'varbit')]      # types SQLite's builder refuses (unimplemented!) are not requested
        return base
    def mk_type(self, k):
        n = self.num
        if self.d == 'sqlite' and k == 'decimal_ps': return ['Decimal', [n(1, 16), n(0, 16)]]
        if k in ('char',): return ['Char', None]
        if k == 'char_n': return ['Char', n(1, 255)]
        if k == 'string_n': return ['String', ['N', n()]]
        if k == 'string_none': return ['String', 'None']
        if k == 'string_max': return ['String', 'Max']
        if k == 'decimal': return ['Decimal', None]
        if k == 'decimal_ps': return ['Decimal', [n(1, 60), n(0, 30)]]
        if k == 'money': return ['Money', None]
        if k == 'money_ps': return ['Money', [n(1, 60), n(0, 30)]]
        if k == 'binary': return ['Binary', n(1, 255)]
        if k == 'varbinary_n': return ['VarBinary', ['N', n()]]
        if k == 'bit': return ['Bit', None]
        if k == 'bit_n': return ['Bit', n(1, 64)]
        if k == 'varbit': return ['VarBit', n(1, 64)]
        if k == 'custom': return ['Custom', 'geometry']
        if k == 'enum': return ['Enum', 'mood', ['sad', 'ok']]
        if k == 'interval': return ['Interval', None, None]
        if k == 'interval_p': return ['Interval', None, n(0, 6)]
        if k == 'array': return ['Array', 'Integer']
        if k == 'array2': return ['Array', ['Array', 'Integer']]
        if k == 'array_str': return ['Array', ['Array', ['Array', ['String', ['N', n()]]]]]
        if k == 'varbinary_none': return ['VarBinary', 'None']
        if k == 'varbinary_max': return ['VarBinary', 'Max']
        return k
    def spec(self, name, k):
        if k == 'Default': return ['Default', ['val', V('Int', self.num(0, 1000000))]]
        if k == 'Check': return ['Check', cmpx(name)]
        if k == 'Comment': return ['Comment', 'note']
        if k == 'Generated': return ['Generated', ['bin', 'Add', ['col', 'base'], ['val', V('Int', 1)]], True]
        return k
SPEC_KINDS = ['Null', 'NotNull', 'Default', 'AutoIncrement', 'UniqueKey', 'PrimaryKey', 'Check', 'Comment', 'Generated']

def concretise(script, text, gen):
    """replace the symbolic numbers of a script and the matching opaque tokens of the text by 7001, 7002 ..."""
    ids = {id(t): 7001 + i for i, t in enumerate(gen.nums)}
    def go(x):
        if is_sym(x): return ids[id(x)]
        if isinstance(x, list): return [go(y) for y in x]
        if isinstance(x, dict): return {k: go(v) for k, v in x.items()}
        return x
    out = []
    for c in text:
        if isinstance(c, int): out.append(chr(c))
        elif isinstance(c, tuple) and c[0] == 'Dec' and id(c[1]) in ids: out.append(str(ids[id(c[1])]))
        elif isinstance(c, tuple) and c[0] == 'Dec' and not is_sym(c[1]): out.append(str(c[1]))
        else: out.append('<?>')
    return go(script), ''.join(out)

def verdict(st, d, text):
    """None if the rendered text is well-formed for the dialect and recovers exactly the declared elements"""
    try: got = recognise_ddl(text, d)
    except SkelError as ex: return 'not accepted by the %s DDL grammar: %s' % (d, ex)
    k = st['k']; calls = st['calls']
    if k == 'table_create':
        if got[0] != 'create_table': return 'not a CREATE TABLE'
        cols = []; items = []; name = None; ifne = False; temp = False; opts = []
        for c in calls:
            if c[0] == 'table': name = tname(c[1])
            elif c[0] == 'if_not_exists': ifne = True
            elif c[0] == 'temporary': temp = True
            elif c[0] == 'col': cols.append(e_column(c[1], d))
        for c in calls:
            if c[0] == 'index': items.append(e_index_item(c[1], d))
            elif c[0] == 'primary_key': items.append(e_index_item(c[1], d, True))
        for c in calls:
            if c[0] == 'foreign_key': items.append(('fk',) + e_fk(c[1], d, True)[0])
        for c in calls:
            if c[0] == 'check': items.append(('check', tuple(e_idents(c[1]))))
        if got[1] != temp or got[2] != ifne or got[3] != name: return 'CREATE TABLE header differs: %r' % (got[1:4],)
        gcols = [x for x in got[4] if x[0] == 'col']; gitems = [x for x in got[4] if x[0] != 'col']
        if [x[0] for x in got[4]] != ['col'] * len(gcols) + [x[0] for x in gitems]: return 'columns and table constraints are interleaved'
        if len(gcols) != len(cols): return '%d columns rendered, %d declared' % (len(gcols), len(cols))
        decls = [c[1] for c in calls if c[0] == 'col']
        for g, w, cd in zip(gcols, cols, decls):
            why = match_column(g, w, d)
            if why: return why
            if d == 'sqlite' and cd.get('type') is not None:
                why = sqlite_type_check(g, cd)
                if why: return why
            if not known_type(g[2], d) and w[1] is not None and w[1] != 'NO-SUCH-TYPE' and not (isinstance(w[1][0], str) and w[1][0] in ('geometry', 'mood')): return 'column %r: %r is not a type of %s' % (g[1], g[2], d)
        if d == 'postgres':
            # Postgres: an inline named unique / primary key is CONSTRAINT "name" UNIQUE|PRIMARY KEY (..); plain INDEX is not allowed inline
            pass
        if tuple(gitems) != tuple(items): return 'table-level elements %r, declared %r' % (tuple(gitems), tuple(items))
        want_opts = []
        if d == 'mysql':
            for c in calls:
                if c[0] == 'comment': want_opts.append('COMMENT')
            for c in calls:
                if c[0] in ('engine', 'collate', 'character_set'): want_opts.append({'engine': 'ENGINE', 'collate': 'COLLATE', 'character_set': 'CHARSET'}[c[0]])
            gopts = [t[1] for t in got[5] if t[0] == 'word' and t[1] in ('COMMENT', 'ENGINE', 'COLLATE', 'CHARSET')]
            if gopts != want_opts: return 'table options %r, declared %r' % (gopts, want_opts)
        return None
    if k == 'table_alter':
        if got[0] != 'alter_table': return 'not an ALTER TABLE'
        want = []
        for c in calls:
            if c[0] == 'table':
                if got[1] != tname(c[1]): return 'table name differs'
            elif c[0] in ('add_column', 'add_column_if_not_exists'): want.append(('add_column', c[0].endswith('exists') and d != 'sqlite', e_column(c[1], d)))       # SQLite has no ADD COLUMN IF NOT EXISTS
            elif c[0] == 'modify_column':
                if d == 'mysql': want.append(('modify_column', e_column(c[1], d)))
                else:
                    cd = c[1]; nm = cd['name']
                    using = [tuple(e_idents(s[1])) for s in cd['specs'] if not isinstance(s, str) and s[0] == 'Using']
                    if cd.get('type') is not None:
                        et = expected_type(cd['type'], d, False)
                        want.append(('alter_type', nm, et[0] if et else None, tuple(et[1]) if et else (), using[0] if using else None))
                    for s in cd['specs']:
                        sk = s if isinstance(s, str) else s[0]
                        if sk == 'Null': want.append(('drop_not_null', nm))
                        elif sk == 'NotNull': want.append(('set_not_null', nm))
                        elif sk == 'Default': want.append(('set_default', nm, e_default(s[1], d)))
                        elif sk == 'UniqueKey': want.append(('add_unique', (nm,)))
                        elif sk == 'PrimaryKey': want.append(('add_primary', (nm,)))
                        elif sk == 'Check': want.append(('check', tuple(e_idents(s[1]))))
            elif c[0] == 'rename_column': want.append(('rename_column', c[1], c[2]))
            elif c[0] == 'drop_column': want.append(('drop_column', c[1]))
            elif c[0] == 'add_foreign_key': want.append(('add_fk',) + e_fk(c[1], d, False)[0])
            elif c[0] == 'drop_foreign_key': want.append(('drop_fk', c[1]))
        gacts = list(got[2])
        if len(gacts) != len(want): return '%d ALTER actions rendered %r, %d declared %r' % (len(gacts), [a[0] for a in gacts], len(want), [a[0] for a in want])
        for g, w in zip(gacts, want):
            if g[0] != w[0]: return 'ALTER action %r rendered where %r was declared' % (g[0], w[0])
            if g[0] in ('add_column', 'modify_column'):
                why = match_column(g[-1], w[-1], d)
                if why: return why
                if g[0] == 'add_column' and g[1] != w[1]: return 'IF NOT EXISTS differs'
            elif g[0] == 'alter_type':
                if g[1] != w[1] or g[2].replace(' arrayof', '[]') != w[2] or tuple(g[3]) != tuple(w[3]) or g[4] != w[4]: return 'ALTER COLUMN TYPE %r, declared %r' % (g, w)
            elif g[0] == 'set_default':
                if g[1] != w[1] or [a for a, b in g[2]] != [a for a, b in w[2]] or any(a != 'str' and b != y for (a, b), (x, y) in zip(g[2], w[2])): return 'SET DEFAULT %r, declared %r' % (g, w)
            elif tuple(g) != tuple(w): return 'ALTER action %r, declared %r' % (g, w)
        return None
    if k == 'index_create':
        if got[0] != 'create_index': return 'not a CREATE INDEX'
        it = e_index_item(st, d)
        tbl = None; ifne = False; using = None; extra = {}
        for c in calls:
            if c[0] == 'table': tbl = tname(c[1]) if d != 'postgres' else (tname(c[1])[0].split('.')[-1],) if False else tname(c[1])
            elif c[0] == 'if_not_exists': ifne = d != 'mysql'        # MySQL has no CREATE INDEX IF NOT EXISTS
            elif c[0] == 'index_type': using = c[1].upper()
            elif c[0] == 'include' and d == 'postgres': extra.setdefault('include', []); extra['include'].append(c[1])
            elif c[0] == 'nulls_not_distinct' and d == 'postgres': extra['nnd'] = True
            elif c[0] == 'and_where' and d != 'mysql': extra['where'] = extra.get('where', ()) + tuple(e_idents(c[1]))
        if 'include' in extra: extra['include'] = tuple(extra['include'])
        kind = it[1]
        want = ('create_index', 'UNIQUE' if kind in ('UNIQUE', 'PRIMARY') else kind, ifne, it[2], tbl, using, it[3], tuple(sorted(extra.items())))
        g = list(got)
        if g[5] is not None: g[5] = g[5].upper()
        if tuple(g) != want: return 'CREATE INDEX recovered as %r, declared %r' % (tuple(g), want)
        return None
    if k == 'fk_create':
        if got[0] != 'alter_table' or len(got[2]) != 1 or got[2][0][0] != 'add_fk': return 'a foreign key is created with ALTER TABLE .. ADD CONSTRAINT .. FOREIGN KEY'
        body, frm = e_fk(st, d, False)
        if got[1] != frm: return 'foreign key table differs'
        if tuple(got[2][0][1:]) != body: return 'foreign key recovered as %r, declared %r' % (got[2][0][1:], body)
        return None
    # statements whose structure is simple: only well-formedness is required by the recogniser plus the names
    return None

def sqlite_type_check(g, cd):
    """SQLite: the declared type name must carry the intended storage affinity, keep its length / precision, and be INTEGER under AUTOINCREMENT"""
    _, name, ty, params, uns, specs = g
    t = cd['type']; k = t if isinstance(t, str) else t[0]
    want = INTENDED_AFFINITY.get(k)
    if k == 'Custom': return None
    if want is None: return 'column %r: SQLite has no rendering for %s' % (name, k)
    aff = sqlite_affinity(ty)
    if aff != want: return 'column %r: type name %r has %s affinity, %s is intended for %s' % (name, ty, aff, want, k)
    wp = []
    if k == 'Char' and t[1] is not None: wp = [t[1]]
    if k == 'String' and isinstance(t[1], list): wp = [t[1][1]]
    if k == 'Binary': wp = [t[1]]
    if k == 'VarBinary' and isinstance(t[1], list): wp = [t[1][1]]
    if k in ('Decimal', 'Money') and t[1] is not None: wp = list(t[1])
    if list(params) != wp: return 'column %r: type parameters %r, declared %r' % (name, list(params), wp)
    if ('AUTOINC',) in specs and ty.lower() != 'int': return 'column %r: AUTOINCREMENT requires the type name INTEGER, found %r' % (name, ty)
    return None

def gen_statement(e, d, family, quick):
    g = Gen(e, d)
    T = ['t', 'tbl']
    if family == 'column':
        # one column: every type x spec sequence of length <= 2 (3)
        tys = g.types(); k = tys[e.choose(len(tys), 'type')]
        nspec = e.choose(3 if quick else 4, 'nspec'); specs = []
        for i in range(nspec):
            sk = SPEC_KINDS[e.choose(len(SPEC_KINDS), 'spec')]
            if sk in specs: raise PathEnd()
            if sk == 'AutoIncrement' and d != 'sqlite' and k not in ('Integer', 'BigInteger', 'SmallInteger'): raise PathEnd()
            if sk == 'AutoIncrement' and d == 'sqlite' and k not in ('Integer', 'BigInteger', 'BigUnsigned', 'Unsigned'): raise PathEnd()
            if sk == 'Comment' and d == 'sqlite' and False: raise PathEnd()
            if sk == 'Generated' and ('Default' in specs): raise PathEnd()
            if sk == 'Default' and 'Generated' in specs: raise PathEnd()
            specs.append(sk)
        if d == 'sqlite' and 'AutoIncrement' in specs and 'PrimaryKey' not in specs: raise PathEnd()      # SQLite: AUTOINCREMENT exists only on an INTEGER PRIMARY KEY (documented)
        cd = {'name': 'c1', 'type': g.mk_type(k), 'specs': [g.spec('c1', s) for s in specs]}
        st = {'k': 'table_create', 'calls': [['table', T], ['col', cd]]}
    elif family == 'table':
        calls = [['table', T if e.choose(2, 'schema') == 0 else ['st', 'sch', 'tbl']]]
        if e.choose(2, 'ifne'): calls.append(['if_not_exists'])
        calls.append(['col', {'name': 'id', 'type': 'Integer', 'specs': ['NotNull']}])
        if e.choose(2, 'col2'): calls.append(['col', {'name': 'name', 'type': ['String', ['N', g.num()]], 'specs': []}])
        ik = e.choose(4, 'index')
        if ik:
            ix = ([['name', 'ix1']] if e.choose(2, 'ixnamed') else []) + [['col', 'id'] + ([['Desc']][0] if e.choose(2, 'ixorder') else [])]
            if d == 'mysql' and ik != 3 and e.choose(2, 'ixtype'): ix.append(['index_type', 'Hash'])
            if e.choose(2, 'ixcol2'): ix.append(['col', 'name'])
            if ik == 2: ix.append(['unique'])
            if d == 'postgres' and ik in (2, 3) and e.choose(2, 'ixinclude'): ix.append(['include', 'name'])
            if d == 'postgres' and ik == 2 and e.choose(2, 'ixnnd'): ix.append(['nulls_not_distinct'])
            calls.append(['primary_key' if ik == 3 else 'index', {'k': 'index_create', 'calls': ix}])
        if e.choose(2, 'fk'):
            fk = [['name', 'fk1'], ['from_tbl', T], ['from_col', 'ref_id'], ['to_tbl', ['t', 'other']], ['to_col', 'id']]
            if e.choose(2, 'fk2'): fk += [['from_col', 'ref_b'], ['to_col', 'b']]
            a = e.choose(3, 'fkact')
            if a >= 1: fk.append(['on_delete', 'Cascade'])
            if a == 2 or e.choose(2, 'fkupd'): fk.append(['on_update', 'SetNull'])
            calls.append(['foreign_key', {'k': 'fk_create', 'calls': fk}])
        if e.choose(2, 'check'): calls.append(['check', cmpx('id')])
        if d == 'mysql' and e.choose(2, 'opts'): calls += [['comment', 'tc'], ['engine', 'InnoDB'], ['character_set', 'utf8mb4']]
        if d == 'sqlite':
            # SQLite: AUTOINCREMENT only together with PRIMARY KEY; schema-qualified names are not produced for foreign-key / index tables
            pass
        st = {'k': 'table_create', 'calls': calls}
    elif family == 'alter':
        n = 1 + (0 if d == 'sqlite' else e.choose(2, 'nopts')); calls = [['table', T]]      # sequences of 3 options did not finish within the thorough budget
        for i in range(n):
            ok = e.choose(7, 'opt')
            if d == 'sqlite' and ok in (2, 5, 6): raise PathEnd()       # SQLite cannot modify columns or foreign keys of an existing table (the builder panics by design)
            if ok == 0: calls.append(['add_column', {'name': 'a%d' % i, 'type': 'Integer', 'specs': ['NotNull', ['Default', ['val', V('Int', g.num(0, 99999))]]]}])
            elif ok == 1: calls.append(['add_column_if_not_exists', {'name': 'a%d' % i, 'type': ['String', ['N', g.num()]], 'specs': []}])
            elif ok == 2:
                # modify column: optional type and a spec sequence
                has_type = e.choose(2, 'mtype'); ns = e.choose(3, 'mnspec'); specs = []
                kinds = ['Null', 'NotNull', 'Default', 'AutoIncrement', 'UniqueKey', 'PrimaryKey', 'Comment']
                for j in range(ns):
                    sk = kinds[e.choose(len(kinds), 'mspec')]
                    if sk in specs: raise PathEnd()
                    specs.append(sk)
                if not has_type and not specs: raise PathEnd()
                calls.append(['modify_column', {'name': 'm%d' % i, 'type': 'BigInteger' if has_type else None, 'specs': [g.spec('m%d' % i, s) for s in specs]}])
            elif ok == 3: calls.append(['rename_column', 'old%d' % i, 'new%d' % i])
            elif ok == 4: calls.append(['drop_column', 'd%d' % i])
            elif ok == 5:
                fk = [['name', 'fk_a%d' % i], ['from_tbl', T], ['from_col', 'x'], ['to_tbl', ['t', 'o']], ['to_col', 'id']]
                a = e.choose(3, 'afk')
                if a == 1: fk.append(['on_update', 'Cascade'])
                if a == 2: fk += [['on_delete', 'Restrict'], ['on_update', 'NoAction']]
                calls.append(['add_foreign_key', {'k': 'fk_create', 'calls': fk}])
            else: calls.append(['drop_foreign_key', 'fk_d%d' % i])
        if d == 'postgres' and all(c[0] == 'modify_column' and c[1]['type'] is None and all((x if isinstance(x, str) else x[0]) in ('Comment', 'AutoIncrement') for x in c[1]['specs']) for c in calls[1:]):
            raise PathEnd()        # nothing that Postgres can express in ALTER TABLE: excluded (degenerate request)
        st = {'k': 'table_alter', 'calls': calls}
    elif family == 'index':
        ix = [['name', 'ix'], ['table', T if (d in ('mysql', 'sqlite') or e.choose(2, 'schema') == 0) else ['st', 'sch', 'tbl']]]
        ix.append(['col', 'a'] + ([None, 'Asc', 'Desc'][e.choose(3, 'order')] and [[None, 'Asc', 'Desc'][1]] or []))
        if e.choose(2, 'col2'): ix.append(['col', 'b', 'Desc'] + ([g.num(1, 500)] if d == 'mysql' and e.choose(2, 'prefix') else []))
        if e.choose(2, 'unique'): ix.append(['unique'])
        if e.choose(2, 'ifne'): ix.insert(0, ['if_not_exists'])
        if d == 'postgres':
            if e.choose(2, 'include'): ix.append(['include', 'inc'])
        if d in ('postgres', 'sqlite'):
            if e.choose(2, 'where'):
                ix.append(['and_where', cmpx('a')])
                if e.choose(2, 'where2'): ix.append(['and_where', cmpx('b')])      # predicates accumulate (AND)
        t = e.choose(3, 'itype') if d != 'sqlite' else 0
        if t: ix.append(['index_type', ['BTree', 'Hash'][t - 1]])
        st = {'k': 'index_create', 'calls': ix}
    elif family == 'fk':
        fk = [['name', 'fk'], ['from_tbl', T], ['from_col', 'a'], ['to_tbl', ['t', 'o']], ['to_col', 'id']]
        if e.choose(2, 'pair2'): fk += [['from_col', 'b'], ['to_col', 'id2']]
        for which in ('on_delete', 'on_update'):
            a = e.choose(6, which)
            if a: fk.append([which, ['Restrict', 'Cascade', 'SetNull', 'NoAction', 'SetDefault'][a - 1]])
        st = {'k': 'fk_create', 'calls': fk}
    else: raise Unsupported(family)
    return st, g

def entry_for(item, sampler, out):
    family, d, quick = item
    def entry(e):
        sq = SQ(e)
        st, g = gen_statement(e, d, family, quick)
        info = {'stmt': st, 'gen': g}
        e.last_info = info
        txt = sqddl.render(sq, st, d)
        cst, s = concretise(st, list(txt), g)
        info['cstmt'] = cst
        why = verdict(cst, d, s)
        e.check(why is None, '%s   [%s]' % (why, s), info)
        if sampler.want(): out.append({'stmt': to_json(st, e.ensure_model()), 'backend': d, 'sql': s})
    return entry

def work(w):
    item, prefix, seed = w
    eng = ENG; reset_stats(eng); eng.solver = z3.Solver()
    samples = []; sampler = Sampler(seed, first=1, every=80)
    try:
        viol = eng.run_all(entry_for(item, sampler, samples), prefix=prefix)
    except (Budget, Unsupported) as ex:
        return {'inconclusive': '%s: %s' % (type(ex).__name__, ex), 'item': repr(item)}
    vs = []
    for k, msg, m, info in viol:
        st = None
        if info is not None:
            # concrete replay script: symbolic numbers take their model values
            st = to_json(info['stmt'], m)
        vs.append({'kind': k, 'msg': msg, 'item': [item[0], item[1]], 'stmt': st})
    return {'stats': eng.stats, 'executed': eng.executed, 'models_used': eng.models_used, 'violations': vs, 'samples': samples, 'item': repr(item)}

def native_verdict(nat, d, st):
    r = nat.ask({'op': 'render_ddl', 'backend': d, 'stmt': st})
    if r.get('panic') is not None: return 'panic: ' + r['panic']
    s = ''.join(chr(c) for c in r['sql'])
    why = verdict(st, d, s)
    return None if why is None else '%s [%s]' % (why, s)

def role(st, d):
    if st['k'] == 'table_create':
        for c in st['calls']:
            if c[0] == 'index' and d in ('postgres', 'sqlite') and not any(x[0] in ('unique', 'primary') for x in c[1]['calls']): return 'plain-inline-index'
            if c[0] == 'col' and isinstance(c[1].get('type'), list) and c[1]['type'][0] == 'Interval' and d == 'mysql': return 'mysql-interval-type'
    return None

def run(ctx, dialects=DIALECTS, families=('column', 'table', 'alter', 'index', 'fk'), deep=False):
    global ENG
    quick = ctx.tier == 'quick' and not deep
    ENG = eng = ctx.engine()
    nat = ctx.nat()
    items = [(f, d, quick) for f in families for d in dialects]
    ctx.bounds = {'column': 'one column: every ColumnType variant of the dialect (lengths / precisions / scales symbolic numbers) x every duplicate-free specification sequence of length <= %d over %s' % (2 if quick else 3, SPEC_KINDS),
                  'table': 'CREATE TABLE with 1-2 columns, optional IF NOT EXISTS, schema prefix, 0-1 index (plain / unique / primary, 1-2 columns, order), 0-1 foreign key (1-2 column pairs, actions), 0-1 check, MySQL table options',
                  'alter': 'ALTER TABLE with <= %d options over add / add-if-not-exists / modify (optional type, <= 2 specifications) / rename / drop column, add / drop foreign key' % 2,
                  'index': 'CREATE INDEX: columns with order / prefix, unique, IF NOT EXISTS, index type, Postgres INCLUDE and partial predicate', 'fk': 'foreign key: 1-2 column pairs x all referential actions',
                  'dialects': list(dialects)}
    ctx.assumptions += ['an ALTER TABLE whose every option is a Postgres no-op (comment-only column modification) is excluded', 'DDL grammars and dialect type tables in props/ddlskel.py (from the manuals); synonyms of a type name are accepted', 'ColumnSpec::Extra / raw table extra are free text and not generated',
                        'Postgres type / extension statements and DROP / RENAME / TRUNCATE are validated on the concrete corpus only (props/ddlcorpus.py)']
    from props.ddlcorpus import DDL
    for st, bks in DDL:
        for b in (bks or list(BACKENDS)):
            if b not in dialects: continue
            res = {}
            def ent(e, st=st, b=b):
                sq = SQ(e); res['sql'] = expand(list(sqddl.render(sq, st, b)), None, nat)
            try:
                v0 = eng.run_all(ent)
            except (Unsupported, Budget) as ex: res['exc'] = str(ex)
            r = nat.ask({'op': 'render_ddl', 'backend': b, 'stmt': st})
            if 'panic' in r and res.get('sql') is None: ctx.validated += 1
            elif res.get('sql') == r.get('sql'):
                ctx.validated += 1
                why = verdict(st, b, ''.join(chr(c) for c in r['sql']))
                if why and not role(st, b) and st['k'] in ('table_create', 'table_alter', 'index_create', 'fk_create') and not any(isinstance(s2, list) and s2[0] == 'Extra' for c in st['calls'] if c[0] in ('col', 'add_column', 'modify_column') and isinstance(c[1], dict) for s2 in c[1]['specs']):
                    ctx.notes.append('corpus statement not matched by the oracle (oracle self-test): %s' % why)
            else: ctx.inconclusive.append('translator validation: %r engine %r native %r' % (st, res, r))
    ctx.absorb(eng)
    work_items = []
    for it in items:
        for p in eng.frontier(entry_for(it, Sampler(0, first=0, every=10**9), []), ctx.workers * 2): work_items.append((it, p, ctx.seed))
    ctx.families = ['%s/%s' % (f, d) for f, d, q in items]
    for res in ctx.pmap(work, work_items):
        if not merge_worker(ctx, res): continue
        for s in res['samples']:
            why = native_verdict(nat, s['backend'], s['stmt'])
            if why is None:
                ctx.validated += 1
                if len(ctx.samples) < 12: ctx.samples.append({'backend': s['backend'], 'sql': s['sql']})
            else: ctx.inconclusive.append('passing path fails natively: %r -> %s' % (s, why))
        for v in res['violations']:
            if v['stmt'] is None: ctx.inconclusive.append('violation without model: %r' % (v,)); continue
            why = native_verdict(nat, v['item'][1], v['stmt'])
            if why:
                r = role(v['stmt'], v['item'][1])
                ctx.violations.append({'key': '%s:%s:%s' % (v['item'][0], v['item'][1], r or shape(v['stmt'])), 'msg': v['msg'] + ' / native: ' + why, 'stmt': v['stmt'], 'backend': v['item'][1],
                                       'replay': {'backend': v['item'][1], 'stmt': v['stmt']}})
            else: ctx.inconclusive.append('counterexample does not reproduce natively: %r' % (v,))

def shape(st):
    parts = []
    for c in st['calls']:
        if c[0] in ('col', 'add_column', 'modify_column', 'add_column_if_not_exists') and isinstance(c[1], dict):
            t = c[1].get('type'); tn = t if isinstance(t, str) else (t[0] if t else 'notype')
            parts.append('%s(%s;%s)' % (c[0], tn, ','.join(s if isinstance(s, str) else s[0] for s in c[1]['specs'])))
        elif c[0] not in ('table',): parts.append(c[0])
    return '+'.join(parts)

def replay(ctx, data):
    why = native_verdict(ctx.nat(), data['replay']['backend'], data['replay']['stmt'])
    print('native dev ->', why)
    return 1 if why else 0
