"""C10 - INSERT rows always match the column list; mismatches are reported and leave the statement unchanged.

Exec (MIR of the current tree): InsertStatement::{new, into_table, columns, values, values_panic, values_from_panic, select_from, or_default_values, or_default_values_many},
Error::ColValNumMismatch, the derived Clone / PartialEq of the statement, prepare_insert_statement on the three backends.
Sym: the call history (kinds, column counts, row lengths) is chosen by the engine and explored exhaustively; every cell value is a symbolic Int."""
import z3
from interp import Cell, Ref, Str, Adt, VecV, Budget, Unsupported, PathEnd, Panic, is_sym
from props.common import *
from props.sq import SQ, to_json
from props import sqstmt

ENG = None
def V(t, v): return {'t': t, 'v': v}
COLS = ['c0', 'c1', 'c2', 'c3']

def gen_history(e, H, N, M):
    """list of calls; cell values are fresh symbolic ints tagged (call index, position)"""
    calls = []; cells = {}
    n = e.choose(H + 1, 'ncalls')
    for ci in range(n):
        k = ['columns', 'values', 'values_panic', 'select_from', 'or_default_values', 'or_default_values_many', 'values_from_panic'][e.choose(7, 'kind')]
        if k == 'columns':
            calls.append(['columns', COLS[:e.choose(N + 1, 'ncols')]])
        elif k in ('values', 'values_panic'):
            m = e.choose(M + 1, 'len'); row = []
            for j in range(m):
                t = z3.BitVec('v_%d_%d' % (ci, j), 32); cells[(ci, j)] = t
                row.append(['val', V('Int', t)])
            calls.append([k, row])
        elif k == 'values_from_panic':
            rows = []
            for ri in range(2):
                m = e.choose(M + 1, 'len'); row = []
                for j in range(m):
                    t = z3.BitVec('v_%d_%d_%d' % (ci, ri, j), 32); cells[(ci, ri, j)] = t
                    row.append(['val', V('Int', t)])
                rows.append(row)
            calls.append([k, rows])
        elif k == 'select_from':
            m = e.choose(M + 1, 'len')
            calls.append(['select_from', {'k': 'select', 'calls': [['expr', ['col', 's%d_%d' % (ci, j)]] for j in range(m)] + [['from', ['t', 'src']]]}])
        elif k == 'or_default_values': calls.append(['or_default_values'])
        else: calls.append(['or_default_values_many', 2])
    return calls, cells

def spec(calls):
    """reference model of the builder: returns (ncols, source, default, outcomes) ; source = ('values', rows) | ('select', n) | None"""
    ncols = 0; source = None; default = None; outcomes = []; redeclared = False
    for c in calls:
        k = c[0]
        if k == 'columns':
            if source is not None and len(c[1]) != ncols: redeclared = True
            ncols = len(c[1])
        elif k in ('values', 'values_panic'):
            m = len(c[1])
            if m != ncols:
                outcomes.append({'err': 'ColValNumMismatch', 'col_len': ncols, 'val_len': m, 'unchanged': True} if k == 'values' else 'panic')
                if k == 'values_panic': return ncols, source, default, outcomes, redeclared, True
            else:
                if k == 'values': outcomes.append('ok')
                if m > 0:
                    if source is None or source[0] != 'values': source = ('values', [])
                    source[1].append(c[1])
        elif k == 'values_from_panic':
            for row in c[1]:
                if len(row) != ncols: return ncols, source, default, outcomes, redeclared, True
                if len(row) > 0:
                    if source is None or source[0] != 'values': source = ('values', [])
                    source[1].append(row)
        elif k == 'select_from':
            m = len([x for x in c[1]['calls'] if x[0] == 'expr'])
            if m != ncols: outcomes.append({'err': 'ColValNumMismatch', 'col_len': ncols, 'val_len': m, 'unchanged': True})
            else:
                outcomes.append('ok'); source = ('select', m, c[1])
        elif k == 'or_default_values': default = 1
        else: default = c[1]
    return ncols, source, default, outcomes, redeclared, False

def split_top(chars, sep=0x2c):
    out = [[]]; d = 0
    for c in chars:
        if c == 0x28: d += 1
        elif c == 0x29: d -= 1
        if c == sep and d == 0: out.append([]); continue
        out[-1].append(c)
    return out

def strip(xs):
    while xs and xs[0] == 0x20: xs = xs[1:]
    while xs and xs[-1] == 0x20: xs = xs[:-1]
    return xs

def parse_insert(txt, backend):
    """-> dict(columns=[names] | None, rows=[[cell elements]] | None, select=int | None, default=int | None); raises ValueError if malformed"""
    s = list(txt)
    def find(sub, start=0):
        n = len(sub)
        for i in range(start, len(s) - n + 1):
            if s[i:i+n] == sub: return i
        return -1
    q = '`' if backend == 'mysql' else '"'
    head = [ord(c) for c in 'INSERT INTO %st%s ' % (q, q)]
    if s[:len(head)] != head: raise ValueError('unexpected statement head')
    rest = s[len(head):]
    res = {'columns': None, 'rows': None, 'select': None, 'default': None}
    if rest and rest[0] == 0x28:
        # column list
        d = 0; j = 0
        for j, c in enumerate(rest):
            if c == 0x28: d += 1
            elif c == 0x29:
                d -= 1
                if d == 0: break
        inner = rest[1:j]
        res['columns'] = [] if not strip(inner) else [''.join(chr(c) for c in strip(x)).strip(q) for x in split_top(inner)]
        rest = strip(rest[j+1:])
    txt_rest = ''.join(chr(c) if isinstance(c, int) else '\x00' for c in rest)
    if txt_rest.startswith('DEFAULT VALUES'): res['default'] = 1; return res
    if txt_rest.startswith('VALUES '):
        body = rest[7:]
        groups = [strip(g) for g in split_top(body)]
        rows = []
        for g in groups:
            gt = ''.join(chr(c) if isinstance(c, int) else '\x00' for c in g)
            if gt in ('()', '(DEFAULT)', 'DEFAULT'): rows.append('default'); continue
            if not (g and g[0] == 0x28 and g[-1] == 0x29): raise ValueError('malformed VALUES group')
            inner = g[1:-1]
            cells = [] if not strip(inner) else [strip(x) for x in split_top(inner)]
            rows.append(cells)
        if rows and all(r == 'default' for r in rows): res['default'] = len(rows)
        else: res['rows'] = rows
        return res
    if txt_rest.startswith('SELECT '):
        sel = rest[7:]
        k = txt_rest.find(' FROM ')
        lst = rest[7:k]
        res['select'] = len(split_top(lst)) if strip(lst) else 0
        return res
    if txt_rest == '': return res
    raise ValueError('unexpected text after the column list: %r' % txt_rest[:40])

def entry_for(item, sampler, out):
    H, N, M = item
    def entry(e):
        sq = SQ(e)
        calls, cells = gen_history(e, H, N, M)
        ncols, source, default, want_out, redeclared, panics = spec(calls)
        st = {'k': 'insert', 'calls': [['into_table', ['t', 't']]] + calls}
        info = {'stmt': st, 'cells': cells}
        try:
            stmt_v, log = sqstmt.insert(sq, st)
        except Panic as ex:
            e.check(panics, 'a builder call panicked although every row matched the column list: %s' % ex, info)
            return
        e.check(not panics, 'values_panic accepted a row whose length differs from the column list', info)
        got_out = []
        for o in log:
            if isinstance(o, dict) and 'unchanged' in o:
                o = dict(o); u = o['unchanged']
                o['unchanged'] = True
                e.check(u, 'a rejected row / select changed the statement', info)
            got_out.append(o)
        e.check(got_out == want_out, 'outcomes of values()/select_from() differ: got %r, expected %r' % (got_out, want_out), info)
        for b in BACKENDS:
            txt, _ = sqstmt.render(sq, 'insert', stmt_v, b)
            txt = list(txt)
            info2 = dict(info, backend=b, sql=text_tok(txt))
            try: p = parse_insert(txt, b)
            except ValueError as ex:
                e.check(False, 'rendered INSERT is malformed: %s   [%s]' % (ex, text_tok(txt)), info2)
            use_default = default is not None and ncols == 0 and source is None
            if use_default:
                e.check((p['default'] == default or (b == 'sqlite' and p['default'] is not None)) and p['rows'] is None and p['select'] is None, 'default-values form expected (%d rows)   [%s]' % (default, text_tok(txt)), info2)
                continue
            e.check(p['default'] is None, 'default values rendered although columns or a source were given   [%s]' % text_tok(txt), info2)
            e.check(p['columns'] == COLS[:ncols], 'column list %r differs from the declared one %r' % (p['columns'], COLS[:ncols]), info2)
            if source is None:
                e.check(p['rows'] is None and p['select'] is None, 'a source is rendered although none was accepted', info2)
            elif source[0] == 'values':
                e.check(p['rows'] is not None and len(p['rows']) == len(source[1]), 'VALUES has %s rows, %d were accepted' % (p['rows'] and len(p['rows']), len(source[1])), info2)
                for ri, (grow, wrow) in enumerate(zip(p['rows'], source[1])):
                    e.check(len(grow) == len(p['columns']), 'row %d has %d cells, the column list has %d (not rectangular)   [%s]' % (ri, len(grow), len(p['columns']), text_tok(txt)), info2)
                    e.check(len(grow) == len(wrow), 'row %d has %d cells, %d were given' % (ri, len(grow), len(wrow)), info2)
                    for ci2, (gc, wc) in enumerate(zip(grow, wrow)):
                        term = wc[1]['v']
                        ok = len(gc) == 1 and isinstance(gc[0], tuple) and gc[0][0] == 'Dec' and gc[0][1] is term
                        e.check(ok, 'cell (%d, %d) is not the value given at that position (rows / cells out of call order)' % (ri, ci2), info2)
            else:
                e.check(p['select'] == source[1], 'INSERT .. SELECT list has %r items, %d were accepted' % (p['select'], source[1]), info2)
                e.check(p['select'] == len(p['columns']), 'select list (%r) does not match the column list (%d)   [%s]' % (p['select'], len(p['columns']), text_tok(txt)), info2)
        if sampler.want():
            m = e.ensure_model()
            out.append({'stmt': to_json(st, m)})
    return entry

def text_tok(xs): return ''.join(chr(x) if isinstance(x, int) else '<v>' for x in xs)

def work(w):
    item, prefix, seed = w
    eng = ENG; reset_stats(eng); eng.solver = z3.Solver()
    samples = []; sampler = Sampler(seed, first=1, every=200)
    try:
        viol = eng.run_all(entry_for(item, sampler, samples), prefix=prefix)
    except (Budget, Unsupported) as ex:
        return {'inconclusive': '%s: %s' % (type(ex).__name__, ex), 'item': repr(item)}
    vs = []
    for k, msg, m, info in viol:
        st = to_json(info['stmt'], m) if info and m is not None else None
        vs.append({'kind': k, 'msg': msg, 'item': list(item), 'stmt': st, 'backend': info and info.get('backend')})
    return {'stats': eng.stats, 'executed': eng.executed, 'models_used': eng.models_used, 'violations': vs, 'samples': samples, 'item': list(item)}

def native_verdict(nat, st):
    """the property on the native build for a concrete history; returns (description | None, role key)"""
    calls = st['calls'][1:]
    ncols, source, default, want_out, redeclared, panics = spec(calls)
    key = 'columns-redeclared-after-source' if redeclared else 'other'
    r = nat.ask({'op': 'render', 'backend': 'mysql', 'entry': 'to_string', 'stmt': st})
    if r.get('panic') is not None:
        return (None if panics else 'panic: ' + r['panic']), key
    if panics: return 'values_panic accepted a mismatching row', key
    if r['log'] != want_out: return 'outcomes %r, expected %r' % (r['log'], want_out), key
    for b in BACKENDS:
        r = nat.ask({'op': 'render', 'backend': b, 'entry': 'to_string', 'stmt': st})
        sql = r['sql']
        try: p = parse_insert(sql, b)
        except ValueError as ex: return 'malformed INSERT on %s: %s [%s]' % (b, ex, text(sql)), key
        if default is not None and ncols == 0 and source is None:
            if p['default'] != default and not (b == 'sqlite' and p['default'] is not None): return 'default-values form expected on %s [%s]' % (b, text(sql)), key
            continue
        if p['default'] is not None: return 'default values rendered although columns or a source were given [%s]' % text(sql), key
        if p['columns'] != COLS[:ncols]: return 'column list differs [%s]' % text(sql), key
        if source is None:
            if p['rows'] is not None or p['select'] is not None: return 'source rendered although none accepted [%s]' % text(sql), key
        elif source[0] == 'values':
            want = [[str(c[1]['v']) for c in row] for row in source[1]]
            got = None if p['rows'] is None else [[''.join(chr(x) for x in cell) for cell in row] for row in p['rows']]
            if got is None or any(len(r_) != len(p['columns']) for r_ in got): return 'VALUES list is not rectangular / does not match the column list on %s [%s]' % (b, text(sql)), key
            if got != want: return 'rows / cells differ from the accepted ones on %s: %r vs %r' % (b, got, want), key
        else:
            if p['select'] != source[1] or p['select'] != len(p['columns']): return 'select list does not match the column list on %s [%s]' % (b, text(sql)), key
    return None, key

def run(ctx):
    global ENG
    quick = ctx.tier == 'quick'
    ENG = eng = ctx.engine()
    nat = ctx.nat()
    items = [(3, 2, 2)] if quick else [(4, 2, 2), (3, 3, 3)]
    ctx.bounds = {'history': ['<= %d calls, column counts 0..%d, row / select-list lengths 0..%d' % it for it in items],
                  'calls': 'columns, values, values_panic, select_from, or_default_values, or_default_values_many (2)', 'cells': 'every cell value is a distinct symbolic Int', 'backends': list(BACKENDS)}
    ctx.assumptions += ['reference model of the builder in props/c10.py (spec())', 'SQLite has no multi-row DEFAULT VALUES: the row count of or_default_values_many is not checked there', 'INSERT text is read back by a small recogniser of INSERT INTO t (cols) VALUES (..),(..) | SELECT .. | DEFAULT VALUES']
    from props.corpus import STATEMENTS
    for st in [s for s in STATEMENTS if s['k'] == 'insert']:
        for b in BACKENDS:
            res = {}
            def ent(e, st=st, b=b):
                sq = SQ(e); v, log = sqstmt.insert(sq, st); txt, _ = sqstmt.render(sq, 'insert', v, b); res['sql'] = expand(list(txt), None, nat); res['log'] = log
            eng.run_all(ent)
            r = nat.ask({'op': 'render', 'backend': b, 'entry': 'to_string', 'stmt': to_json(st)})
            if res.get('sql') == r.get('sql') and res.get('log') == r.get('log'): ctx.validated += 1
            else: ctx.inconclusive.append('translator validation: %r engine %r native %r' % (st, res, r))
    ctx.absorb(eng)
    work_items = []
    for it in items:
        for p in eng.frontier(entry_for(it, Sampler(0, first=0, every=10**9), []), ctx.workers * 4): work_items.append((it, p, ctx.seed))
    ctx.families = ['H<=%d N<=%d M<=%d' % it for it in items]
    seen = set()
    for res in ctx.pmap(work, work_items):
        if not merge_worker(ctx, res): continue
        for s in res['samples']:
            why, key = native_verdict(nat, s['stmt'])
            if why is None:
                ctx.validated += 1
                if len(ctx.samples) < 12: ctx.samples.append({'calls': s['stmt']['calls'][1:]})
            elif key == 'other': ctx.inconclusive.append('passing path fails natively: %r -> %s' % (s, why))
        for v in res['violations']:
            if v['stmt'] is None: ctx.inconclusive.append('violation without model: %r' % (v,)); continue
            why, key = native_verdict(nat, v['stmt'])
            if why:
                ctx.violations.append({'key': key, 'msg': v['msg'] + ' / native: ' + why, 'stmt': v['stmt'], 'replay': {'stmt': v['stmt']}})
            else:
                ctx.inconclusive.append('counterexample does not reproduce natively: %r' % (v,))

def replay(ctx, data):
    why, key = native_verdict(ctx.nat(), data['replay']['stmt'])
    print('native dev ->', why)
    return 1 if why else 0
