"""Reference lexers for literal and identifier tokens of MySQL, PostgreSQL and SQLite, written from the engines' manuals:
MySQL 8.0 Reference Manual 9.1.1 "String Literals" (default sql_mode) and 9.1.4 "Hexadecimal Literals", 9.2 "Schema Object Names";
PostgreSQL 16 4.1.2.1/4.1.2.2 (standard_conforming_strings = on, E'' escape strings), 8.4.1 "bytea Hex Format", 4.1.1 (quoted identifiers);
SQLite "SQL As Understood By SQLite: Literal Values" and "SQLite Keywords" (identifier quoting).
They operate on lists of characters that may be z3 terms and fork through the engine (e.branch)."""
import z3
from interp import is_sym
from models import ch_eq, zor, zand

class LexFail(Exception):
    pass

def is_(e, c, k):
    return e.branch(ch_eq(c, k))

def in_range(e, c, lo, hi):
    if type(c) is tuple: return False
    if is_sym(c): return e.branch(z3.And(z3.UGE(c, lo), z3.ULE(c, hi)))
    return lo <= c <= hi

def hexval(e, c):
    """value of a hex digit char (forks); LexFail if not a hex digit"""
    if type(c) is tuple: raise LexFail('opaque token where a hex digit is expected')
    if in_range(e, c, 0x30, 0x39): return c - 0x30
    if in_range(e, c, 0x41, 0x46): return c - 0x37
    if in_range(e, c, 0x61, 0x66): return c - 0x57
    raise LexFail('not a hex digit')

MYSQL_ESC = {0x30: [0], 0x27: [0x27], 0x22: [0x22], 0x62: [8], 0x6e: [10], 0x72: [13], 0x74: [9], 0x5a: [26], 0x5c: [0x5c],
             0x25: [0x5c, 0x25], 0x5f: [0x5c, 0x5f]}

def mysql_string(e, s, i):
    n = len(s)
    if i >= n or not is_(e, s[i], 0x27): raise LexFail('string literal does not start with a quote')
    j = i + 1; dec = []
    while True:
        if j >= n: raise LexFail('unterminated string literal')
        c = s[j]
        if is_(e, c, 0x27):
            if j + 1 < n and is_(e, s[j+1], 0x27): dec.append(0x27); j += 2; continue
            return j + 1, dec
        if is_(e, c, 0x5c):
            if j + 1 >= n: raise LexFail('unterminated string literal (trailing backslash)')
            d = s[j+1]
            for k, rep in MYSQL_ESC.items():
                if is_(e, d, k): dec.extend(rep); break
            else: dec.append(d)
            j += 2; continue
        dec.append(c); j += 1

def quote_doubling_string(e, s, i):
    """SQLite strings and PostgreSQL standard-conforming strings: only '' is special"""
    n = len(s)
    if i >= n or not is_(e, s[i], 0x27): raise LexFail('string literal does not start with a quote')
    j = i + 1; dec = []
    while True:
        if j >= n: raise LexFail('unterminated string literal')
        c = s[j]
        if is_(e, c, 0x27):
            if j + 1 < n and is_(e, s[j+1], 0x27): dec.append(0x27); j += 2; continue
            return j + 1, dec
        dec.append(c); j += 1

PG_ESC = {0x62: 8, 0x66: 12, 0x6e: 10, 0x72: 13, 0x74: 9}

def postgres_string(e, s, i):
    n = len(s)
    if i < n and (is_(e, s[i], 0x45) or is_(e, s[i], 0x65)):
        j = i + 1
        if j >= n or not is_(e, s[j], 0x27): raise LexFail("E not followed by a quote")
        j += 1; dec = []
        while True:
            if j >= n: raise LexFail('unterminated string literal')
            c = s[j]
            if is_(e, c, 0x27):
                if j + 1 < n and is_(e, s[j+1], 0x27): dec.append(0x27); j += 2; continue
                return j + 1, dec
            if is_(e, c, 0x5c):
                if j + 1 >= n: raise LexFail('unterminated string literal (trailing backslash)')
                d = s[j+1]
                done = False
                for k, rep in PG_ESC.items():
                    if is_(e, d, k): dec.append(rep); j += 2; done = True; break
                if done: continue
                if in_range(e, d, 0x30, 0x37):
                    v = d - 0x30; j += 2; cnt = 1
                    while cnt < 3 and j < n and in_range(e, s[j], 0x30, 0x37):
                        v = v * 8 + (s[j] - 0x30); j += 1; cnt += 1
                    dec.append(v & 0xff if not is_sym(v) else v & 0xff); continue
                if is_(e, d, 0x78):
                    # \xh or \xhh ; a bare \x is the letter x
                    j += 2; v = None; cnt = 0
                    while cnt < 2 and j < n:
                        try: h = hexval(e, s[j])
                        except LexFail: break
                        v = h if v is None else v * 16 + h; j += 1; cnt += 1
                    dec.append(0x78 if v is None else v); continue
                if is_(e, d, 0x75) or is_(e, d, 0x55):
                    raise LexFail('unicode escape in E string (not produced by the renderer; refused by the reference lexer)')
                dec.append(d); j += 2; continue
            dec.append(c); j += 1
    return quote_doubling_string(e, s, i)

def hex_pairs(e, s, j, end_quote=True):
    """decode hex digit pairs up to the closing quote; returns (index after quote, bytes)"""
    n = len(s); out = []
    while True:
        if j >= n: raise LexFail('unterminated hex literal')
        if is_(e, s[j], 0x27): return j + 1, out
        if j + 1 >= n: raise LexFail('odd number of hex digits')
        hi = hexval(e, s[j]); lo = hexval(e, s[j+1])
        out.append(hi * 16 + lo); j += 2

def x_hex_literal(e, s, i):
    """MySQL / SQLite  x'..' / X'..'"""
    n = len(s)
    if i + 1 >= n or not (is_(e, s[i], 0x78) or is_(e, s[i], 0x58)) or not is_(e, s[i+1], 0x27): raise LexFail("hex literal does not start with x'")
    return hex_pairs(e, s, i + 2)

def postgres_bytea(e, s, i):
    """a string literal whose content is the bytea hex format \\x.."""
    end, content = postgres_string(e, s, i)
    if len(content) < 2 or not is_(e, content[0], 0x5c) or not is_(e, content[1], 0x78): raise LexFail('bytea literal is not in hex format')
    body = content[2:]
    if len(body) % 2: raise LexFail('odd number of hex digits')
    out = []
    for k in range(0, len(body), 2): out.append(hexval(e, body[k]) * 16 + hexval(e, body[k+1]))
    return end, out

STRING = {'mysql': mysql_string, 'postgres': postgres_string, 'sqlite': quote_doubling_string}
BYTES = {'mysql': x_hex_literal, 'postgres': postgres_bytea, 'sqlite': x_hex_literal}

def quoted_identifier(e, s, i, q):
    """back-tick (MySQL) or double-quote (PostgreSQL, SQLite) identifier with doubling; returns (end, decoded)"""
    n = len(s)
    if i >= n or not is_(e, s[i], q): raise LexFail('identifier does not start with the quote character')
    j = i + 1; dec = []
    while True:
        if j >= n: raise LexFail('unterminated quoted identifier')
        c = s[j]
        if is_(e, c, q):
            if j + 1 < n and is_(e, s[j+1], q): dec.append(q); j += 2; continue
            return j + 1, dec
        dec.append(c); j += 1

IDQUOTE = {'mysql': 0x60, 'postgres': 0x22, 'sqlite': 0x22}
