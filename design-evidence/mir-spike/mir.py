"""Spike: parse rustc -Zunpretty=mir text into a small AST."""
import re, sys

class Fn:
    def __init__(self, name, params, ret):
        self.name = name; self.params = params; self.ret = ret
        self.locals = {}      # idx -> type string
        self.blocks = {}      # idx -> (stmts, term)
    def __repr__(self): return f"<Fn {self.name}>"

def split_top(s, sep=','):
    """split s at top-level separators (ignoring nested brackets and string/char literals)"""
    out = []; depth = 0; cur = []; i = 0; n = len(s)
    while i < n:
        c = s[i]
        if c == '"':
            j = i + 1
            while j < n and s[j] != '"':
                if s[j] == '\\': j += 1
                j += 1
            cur.append(s[i:j+1]); i = j + 1; continue
        if c == "'" :
            # char literal or lifetime
            m = re.match(r"'(\\.[^']*|[^'\\])'", s[i:])
            if m:
                cur.append(m.group(0)); i += len(m.group(0)); continue
        if c in '([{<':
            # '<' only counts as bracket if it looks like generics; MIR operands never use '<' as less-than
            depth += 1
        elif c in ')]}>':
            if c == '>' and i > 0 and s[i-1] == '-':
                pass
            else:
                depth -= 1
        if c == sep and depth == 0:
            out.append(''.join(cur).strip()); cur = []
        else:
            cur.append(c)
        i += 1
    t = ''.join(cur).strip()
    if t: out.append(t)
    return out

def find_matching(s, i):
    """s[i] is an opening bracket; return index of matching close (handles string/char literals)"""
    pairs = {'(': ')', '[': ']', '{': '}', '<': '>'}
    depth = 0; n = len(s)
    while i < n:
        c = s[i]
        if c == '"':
            j = i + 1
            while j < n and s[j] != '"':
                if s[j] == '\\': j += 1
                j += 1
            i = j + 1; continue
        if c == "'":
            m = re.match(r"'(\\.[^']*|[^'\\])'", s[i:])
            if m: i += len(m.group(0)); continue
        if c in '([{': depth += 1
        elif c in ')]}':
            depth -= 1
            if depth == 0: return i
        i += 1
    raise ValueError("unbalanced: " + s)

def parse_mir(text):
    fns = {}
    lines = text.split('\n')
    i = 0; n = len(lines)
    while i < n:
        ln = lines[i]
        if ln.startswith('fn ') or ln.startswith('const ') or ln.startswith('static '):
            j = i + 1
            while j < n and lines[j] != '}': j += 1
            body = lines[i:j+1]
            if ln.startswith('fn '):
                f = parse_fn(body)
                k = f.name
                while k in fns: k += '#dup'
                f.key = k
                fns[k] = f
            else:
                m = re.match(r'(?:const|static(?: mut)?) (.*): (.*?) = \{$', ln)
                if m:
                    f = Fn(m.group(1), [], m.group(2))
                    parse_body(f, body[1:-1])
                    fns[f.name] = f
            i = j + 1
        else:
            i += 1
    return fns

def parse_fn(body):
    hdr = body[0]
    assert hdr.startswith('fn ') and hdr.endswith('{'), hdr
    h = hdr[3:-1].strip()
    # find the parameter list: the last top-level '(' ... ')' before ' -> '
    # name may contain '<impl at ...>' and '(' inside generics; scan for "(_1:" or "()" start
    m = re.search(r'\((_1: |\) -> )', h)
    k = m.start()
    name = h[:k]
    close = find_matching(h, k)
    params = split_top(h[k+1:close])
    ret = h[close+1:].strip()
    if ret.startswith('->'): ret = ret[2:].strip()
    f = Fn(name, params, ret)
    parse_body(f, body[1:-1])
    return f

def parse_body(f, lines):
    cur = None; stmts = None
    buf = ''
    for ln in lines:
        s = ln.strip()
        if cur is None:
            m = re.match(r'let (?:mut )?_(\d+): (.*);$', s)
            if m: f.locals[int(m.group(1))] = m.group(2); continue
            m = re.match(r'bb(\d+)(?: \(cleanup\))?: \{$', s)
            if m: cur = int(m.group(1)); stmts = []; continue
            continue
        if s == '}':
            term = stmts.pop() if stmts else 'unreachable'
            f.blocks[cur] = (stmts, term); cur = None; continue
        if not s: continue
        buf += (' ' if buf else '') + s
        if buf.endswith(';'):
            stmts.append(buf[:-1]); buf = ''
    for idx, p in enumerate(f.params):
        m = re.match(r'_(\d+): (.*)$', p)
        if m: f.locals[int(m.group(1))] = m.group(2)
    f.locals[0] = f.ret
    f.nargs = len(f.params)

if __name__ == '__main__':
    fns = parse_mir(open(sys.argv[1]).read())
    print(len(fns))
    for k in list(fns)[:5]: print(k, len(fns[k].blocks))
