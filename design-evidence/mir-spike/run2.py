import sys, time, z3, traceback
from mir import parse_mir
import interp
from interp import *
from enums import parse_enums

fns = parse_mir(open('/tmp/mirprobe/mir.txt').read())
variants = parse_enums('/tmp/mirprobe/repo', {'backend-mysql','backend-postgres','backend-sqlite'})
variants.update({'Option': ['None', 'Some'], 'Result': ['Ok', 'Err']})
Engine.srcroot = '/tmp/mirprobe/repo'
eng = Engine(fns, variants)

class Writer:
    """python-side SqlWriter: collects fragments; push_param records value"""
    def __init__(self): self.chars = []; self.params = []
def some(v): return Adt('Option', 'Some', [Cell(v)])
def none(): return Adt('Option', 'None', [])
def box(v): return Ref(Cell(v))
def string(s): return new_string([ord(c) if isinstance(c, str) else c for c in s])
def alias(s): return Adt('Alias', None, [Cell(string(s))])
def dyniden(s): return Adt('SeaRc', None, [Cell(Ref(Cell(alias(s))))])   # SeaRc(Rc<dyn Iden>)
def col(s): return Adt('SimpleExpr', 'Column', [Cell(Adt('ColumnRef', 'Column', [Cell(dyniden(s))]))])
def val_int(v): return Adt('SimpleExpr', 'Value', [Cell(Adt('Value', 'Int', [Cell(some(v))]))])
def binop(name): return Adt('BinOper', name, [])

def entry(e):
    x = z3.BitVec('x', 32)
    expr = Adt('SimpleExpr', 'Binary', [Cell(box(col('a'))), Cell(binop('Equal')), Cell(box(val_int(x)))])
    w = Adt('PyWriter', None, [Cell(Writer())])
    me = Adt('MysqlQueryBuilder', None, [])
    e.call('<backend::mysql::MysqlQueryBuilder as QueryBuilder>::prepare_simple_expr', [Ref(Cell(me)), Ref(Cell(expr)), Ref(Cell(w), True)])
    wr = w.fields[0].v
    print(''.join(chr(c) if isinstance(c, int) else '<%s>' % (c,) for c in wr.chars), wr.params)
try:
    v = eng.run_all(entry)
    print(eng.stats, v)
except Exception as ex:
    traceback.print_exc()
