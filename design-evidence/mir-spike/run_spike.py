import sys, time, z3
from mir import parse_mir
import interp
from interp import *

t0 = time.time()
fns = parse_mir(open('/tmp/mirprobe/mir.txt').read())
variants = {'Option': ['None', 'Some'], 'Result': ['Ok', 'Err'], 'Token': ['Quoted', 'Unquoted', 'Space', 'Punctuation']}
Engine.srcroot = '/tmp/mirprobe/repo'
eng = Engine(fns, variants)
print('parsed+indexed', round(time.time()-t0, 2), 's')

def sym_chars(n, tag):
    cs = [z3.BitVec(f'{tag}{i}', 32) for i in range(n)]
    return cs
def valid_char(c): return z3.Or(z3.ULT(c, 0xD800), z3.And(z3.UGE(c, 0xE000), z3.ULE(c, 0x10FFFF)))

def check_escape(backend, n):
    cs = sym_chars(n, 'c')
    def entry(e):
        for c in cs: e.solver.add(valid_char(c))
        me = Adt(backend, None, [])
        s = Ref(Cell(Str(cs)))
        esc = e.call('<Self as EscapeBuilder>::escape_string', [Ref(Cell(me)), s])
        un = e.call('<Self as EscapeBuilder>::unescape_string', [Ref(Cell(me)), Ref(Cell(esc))])
        out = as_str(un).chars
        e.check(len(out) == n, f'{backend}: unescape(escape(s)) length {len(out)} != {n}')
        for i in range(n):
            e.check(out[i] == cs[i], f'{backend}: char {i} differs')
    eng.stats = dict(paths=0, queries=0, steps=0)
    t = time.time()
    v = eng.run_all(entry)
    print(backend, 'n=', n, eng.stats, 'violations', len(v), round(time.time()-t, 2), 's')
    for kind, msg, m in v[:3]:
        print('  ', kind, msg, [m.eval(c, model_completion=True) for c in cs] if m else None)

def check_tok(n):
    cs = sym_chars(n, 't')
    def entry(e):
        for c in cs: e.solver.add(valid_char(c))
        tk = Adt('Tokenizer', None, [Cell(VecV([Cell(c) for c in cs])), Cell(0)])
        cell = Cell(tk)
        pos = 0; ntok = 0
        while True:
            r = e.call('<token::Tokenizer as Iterator>::next', [Ref(cell, True)])
            if r.variant == 'None': break
            tok = r.fields[0].v
            s = as_str(tok.fields[0].v).chars
            e.check(len(s) > 0, 'empty token')
            for ch in s:
                e.check(pos < n, 'token stream longer than input')
                e.check(ch == cs[pos], f'char {pos} differs')
                pos += 1
            ntok += 1
            if ntok > n: e.check(False, 'too many tokens')
        e.check(pos == n, f'tokens cover {pos} of {n} chars')
    eng.stats = dict(paths=0, queries=0, steps=0)
    t = time.time()
    v = eng.run_all(entry)
    print('tokenizer n=', n, eng.stats, 'violations', len(v), round(time.time()-t, 2), 's')
    for kind, msg, m in v[:3]:
        print('  ', kind, msg, [m.eval(c, model_completion=True) for c in cs] if m else None)

for b in ('MysqlQueryBuilder', 'SqliteQueryBuilder'):
    for n in (1, 2, 3):
        check_escape(b, n)
for n in (1, 2, 3, 4):
    check_tok(n)
