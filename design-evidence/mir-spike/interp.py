"""Spike: KLEE-style symbolic interpreter for rustc MIR text (subset), z3 as the decision procedure.
Heap shape is concrete along every path; scalars (ints, bools, chars, enum discriminants) may be symbolic.
Forking is done by re-execution with a recorded decision prefix."""
import re, sys, copy
import z3
from mir import parse_mir, split_top, find_matching

# ---------------------------------------------------------------- values
class Cell:
    __slots__ = ('v',)
    def __init__(self, v=None): self.v = v
class Ref:
    __slots__ = ('cell', 'mut')
    def __init__(self, cell, mut=False): self.cell = cell; self.mut = mut
class Adt:
    """struct / enum variant / tuple; fields are Cells"""
    __slots__ = ('ty', 'variant', 'fields')
    def __init__(self, ty, variant, fields): self.ty = ty; self.variant = variant; self.fields = fields
    def __repr__(self): return f"{self.ty}::{self.variant}({', '.join(repr(c.v) for c in self.fields)})"
class Str:
    """String / str contents: python list of char values (int or z3 BitVec32)"""
    __slots__ = ('chars',)
    def __init__(self, chars): self.chars = list(chars)
    def __repr__(self): return 'Str(' + ''.join(chr(c) if isinstance(c, int) else '?' for c in self.chars) + ')'
class VecV:
    __slots__ = ('items',)
    def __init__(self, items): self.items = items   # list of Cells
class Unit:
    def __repr__(self): return '()'
UNIT = Unit()
class FmtArg:
    def __init__(self, kind, ref): self.kind = kind; self.ref = ref
class FmtArgs:
    def __init__(self, template, args): self.template = template; self.args = args
class Iter:
    def __init__(self, seq, pos=0): self.seq = seq; self.pos = pos

def deep(v):
    """copy a value (fresh cells); references stay shared"""
    if isinstance(v, Adt): return Adt(v.ty, v.variant, [Cell(deep(c.v)) for c in v.fields])
    if isinstance(v, Str): return Str(v.chars)
    if isinstance(v, VecV): return VecV([Cell(deep(c.v)) for c in v.items])
    if isinstance(v, Iter): return Iter(v.seq, v.pos)
    return v

def is_sym(v): return isinstance(v, z3.ExprRef)

class PathEnd(Exception): pass
class Panic(Exception): pass
class Unsupported(Exception): pass

# ---------------------------------------------------------------- engine
class Engine:
    def __init__(self, fns, variants):
        self.fns = fns
        self.variants = variants    # type basename -> [variant names]
        self.solver = z3.Solver()
        self.index()
        self.stats = dict(paths=0, queries=0, steps=0)

    def index(self):
        """canonical name index: inherent/trait impl methods keyed by (Type, Trait|None, method)"""
        self.byname = {}
        self.impls = {}
        srccache = {}
        for name, f in self.fns.items():
            name = name.replace('#dup', '')
            m = re.search(r'<impl at (src/[^:]+):(\d+):(\d+): (\d+):(\d+)>::(.*)$', name)
            if m:
                path, line, meth = m.group(1), int(m.group(2)), m.group(6)
                c0, l1, c1 = int(m.group(3)), int(m.group(4)), int(m.group(5))
                if path not in srccache:
                    srccache[path] = open(self.srcroot + '/' + path).read().split('\n')
                hdr = srccache[path][line-1]
                k = line
                while '{' not in hdr and k < len(srccache[path]):
                    hdr += ' ' + srccache[path][k].strip(); k += 1
                mm = re.match(r'\s*(?:unsafe )?impl(?:<[^>]*>)?\s+(?:(.*?)\s+for\s+)?(.*?)\s*(?:where.*)?\{', hdr)
                mv = re.match(r'\s*type_to_(?:box_)?value!\(\s*([^,]+),\s*(\w+)', hdr)
                if mv:
                    t = base(mv.group(1))
                    if meth == 'from': self.impls[('Value', 'From<%s>' % t, 'from')] = f
                    elif meth == 'null': self.impls[(t, 'Nullable', 'null')] = f
                    else: self.impls[(t, 'ValueType', meth)] = f
                    continue
                if not mm:
                    # derive-generated impl: the span is the trait name inside #[derive(..)]
                    if l1 != line: continue
                    trait = srccache[path][line-1][c0-1:c1-1]
                    ty = None
                    for k2 in range(line-1, min(line+40, len(srccache[path]))):
                        m2 = re.match(r'\s*(?:pub(?:\([^)]*\))?\s+)?(?:struct|enum)\s+(\w+)', srccache[path][k2])
                        if m2: ty = m2.group(1); break
                    if ty is None: continue
                    self.impls[(ty, trait, meth)] = f
                    continue
                trait = mm.group(1); ty = mm.group(2)
                tb = base(trait) if trait else None
                if trait and is_forwarder(f, meth, base(ty)):
                    self.impls[(base(ty), None, meth)] = f      # #[inherent] forwarder
                    continue
                self.impls[(base(ty), tb, meth)] = f
                if trait and '<' in trait:
                    tk = tkey(trait)
                    if '$' in tk and f.params:
                        pt = f.params[0].split(': ', 1)[1]
                        tk = re.sub(r'\$\w+', base(pt), tk)
                    self.impls[(base(ty), tk, meth)] = f
            else:
                self.byname[name] = f
                # trait default methods:  backend::EscapeBuilder::escape_string
                parts = name.split('::')
                if len(parts) >= 2:
                    self.impls.setdefault((None, parts[-2], parts[-1]), f)

    # ---- solver helpers
    def feasible(self, cond):
        self.stats['queries'] += 1
        self.solver.push(); self.solver.add(cond)
        r = self.solver.check(); self.solver.pop()
        return r == z3.sat

    def branch(self, cond):
        """decide a symbolic boolean; returns python bool, records decision"""
        if not is_sym(cond): return bool(cond)
        cond = z3.simplify(cond)
        if z3.is_true(cond): return True
        if z3.is_false(cond): return False
        if self.dpos < len(self.decisions):
            d = self.decisions[self.dpos]; self.dpos += 1
            self.solver.add(cond if d else z3.Not(cond)); self.pc.append(cond if d else z3.Not(cond))
            return d
        t = self.feasible(cond); f = self.feasible(z3.Not(cond))
        if t and f:
            self.pending.append(self.decisions[:self.dpos] + [False])
            d = True
        elif t: d = True
        elif f: d = False
        else: raise PathEnd()
        self.decisions.append(d); self.dpos += 1
        self.solver.add(cond if d else z3.Not(cond)); self.pc.append(cond if d else z3.Not(cond))
        return d

    def run_all(self, entry):
        """entry(engine) runs one path; explores all paths. returns list of violations"""
        self.pending = [[]]
        viol = []
        while self.pending:
            self.decisions = self.pending.pop(); self.dpos = 0; self.pc = []
            self.solver.push()
            try:
                entry(self)
                self.stats['paths'] += 1
            except PathEnd:
                pass
            except Panic as e:
                self.stats['paths'] += 1
                m = self.model()
                viol.append(('panic', str(e), m))
            except AssertionViolation as e:
                viol.append(('assert', e.msg, e.model))
            self.solver.pop()
        return viol

    def model(self):
        if self.solver.check() == z3.sat:
            return self.solver.model()
        return None

    def check(self, cond, msg):
        """assert cond holds on this path for all inputs; else raise violation with model"""
        if not is_sym(cond):
            if not cond: raise AssertionViolation(msg, self.model())
            return
        self.stats['queries'] += 1
        self.solver.push(); self.solver.add(z3.Not(cond))
        r = self.solver.check()
        if r == z3.sat:
            m = self.solver.model(); self.solver.pop()
            raise AssertionViolation(msg, m)
        self.solver.pop()

    # ---- calls
    def call(self, callee, args):
        f = self.resolve(callee, args)
        if callable(f): return f(self, callee, args)
        return self.exec_fn(f, args)

    def resolve(self, callee, args):
        self.cur_callee = callee
        m0 = re.match(r'<(.*) as (.*?)>::(\w+)$', strip_generics(callee))
        if m0 and not m0.group(1).startswith('&'):
            k0 = (base(m0.group(1)), base(m0.group(2)), m0.group(3))
            if k0 in self.impls: return self.impls[k0]
        for pat, fn in MODELS:
            if pat.match(callee): return fn
        if callee in self.byname: return self.byname[callee]
        c = strip_generics(callee)
        if c in self.byname: return self.byname[c]
        # <Type as Trait>::method
        m = re.match(r'<(.*) as (.*?)>::(\w+)$', c)
        if m:
            ty, trait, meth = m.group(1), base(m.group(2)), m.group(3)
            tb = base(ty)
            if trait == 'Into':
                tgt = base(re.match(r'<.* as Into<(.*)>>::into$', c).group(1))
                src = self.runtime_type(args[0]) if isinstance(args[0], (Adt, Ref)) else PRIM.get(base(ty), base(ty))
                if src == tgt: return lambda e, c_, a: a[0]
                if src == 'str' and tgt == 'String': return m_str_into_string
                key = (tgt, 'From<%s>' % src, 'from')
                if key in self.impls: return self.impls[key]
                gen = [k for k in self.impls if k[0] == tgt and k[2] == 'from' and k[1] and re.match(r'^From<[A-Z]>$', k[1])]
                if len(gen) == 1: return self.impls[gen[0]]
                raise Unsupported('into %s -> %s' % (src, tgt))
            if re.match(r'^[A-Z]\w?$|^Self$', tb) or tb.startswith('dyn '):
                tb = self.runtime_type(args[0])
            for key in ((tb, trait, meth), (None, trait, meth)):
                if key in self.impls: return self.impls[key]
            # blanket impls: impl<T: Bound> Trait for T
            cands = [k for k in self.impls if k[1] == trait and k[2] == meth and k[0] and re.match(r'^[A-Z]$', k[0])]
            if len(cands) == 1: return self.impls[cands[0]]
        # Type::method (inherent)
        parts = c.split('::')
        if len(parts) >= 2:
            key = (base(parts[-2]), None, parts[-1])
            if key in self.impls: return self.impls[key]
        raise Unsupported('call ' + callee + ' args=' + repr([self.runtime_type(a) if isinstance(a,(Ref,Adt)) else a for a in args[:1]]))

    def runtime_type(self, v):
        while isinstance(v, Ref): v = v.cell.v
        if isinstance(v, Adt): return base(v.ty)
        if isinstance(v, Str): return 'str'
        if isinstance(v, VecV): return 'Vec'
        if isinstance(v, Iter): return 'Iter'
        raise Unsupported('runtime type of ' + repr(v) + ' in ' + getattr(self,'cur_callee','?'))

    def exec_fn(self, f, args):
        self.depth = getattr(self, 'depth', 0) + 1
        if self.depth > 60:
            self.depth = 0
            raise Unsupported('call depth: ' + f.name)
        try:
            return self.exec_fn2(f, args)
        finally:
            self.depth -= 1

    def exec_fn2(self, f, args):
        loc = {}
        for i, a in enumerate(args): loc[i+1] = Cell(a)
        bb = 0
        while True:
            stmts, term = f.blocks[bb]
            for s in stmts:
                self.stats['steps'] += 1
                try:
                    self.exec_stmt(f, loc, s)
                except Unsupported as ex:
                    if not getattr(ex, 'tagged', False):
                        ex.tagged = True; ex.args = (ex.args[0] + ' @ ' + f.name + ' :: ' + s,)
                    raise
            self.stats['steps'] += 1
            # terminator
            if term == 'return':
                c = loc.get(0); return c.v if c else UNIT
            if term.startswith('goto -> '):
                bb = int(term[len('goto -> bb'):]); continue
            if term.startswith('switchInt('):
                close = find_matching(term, len('switchInt'))
                v = self.operand(f, loc, term[len('switchInt('):close])
                targets = re.findall(r'(\w+): bb(\d+)', term[close:])
                bb = self.switch(v, targets); continue
            if term.startswith('drop('):
                bb = int(re.search(r'return: bb(\d+)', term).group(1)); continue
            if term.startswith('assert('):
                close = find_matching(term, len('assert'))
                inner = split_top(term[len('assert('):close])
                c = inner[0]; neg = c.startswith('!')
                v = self.operand(f, loc, c[1:] if neg else c)
                v = self.to_bool(v)
                ok = self.branch(z3.Not(v) if (neg and is_sym(v)) else ((not v) if neg else v))
                if not ok: raise Panic(inner[1])
                bb = int(re.search(r'success: bb(\d+)', term).group(1)); continue
            if term in ('unreachable', 'resume'):
                raise Panic('reached ' + term + ' in ' + f.name)
            m = re.match(r'(.*?) = (.*) -> (.*)$', term)
            if m:
                dest, callexpr, tgt = m.group(1), m.group(2), m.group(3)
                k = callexpr.rindex('(') if not callexpr.endswith(')') else None
                # split callee and args: find the '(' matching the final ')'
                depth = 0; j = len(callexpr) - 1
                # scan backwards for matching paren (literals with parens are rare in operands)
                open_idx = matching_open(callexpr)
                callee = callexpr[:open_idx]
                argstrs = split_top(callexpr[open_idx+1:-1])
                args = [self.operand(f, loc, a) for a in argstrs]
                r = self.call(callee.strip(), args)
                self.place(f, loc, dest, create=True).v = r
                mm = re.search(r'return: bb(\d+)', tgt)
                if not mm: raise Panic('diverging call returned')
                bb = int(mm.group(1)); continue
            raise Unsupported('terminator ' + term)

    def switch(self, v, targets):
        if not is_sym(v):
            iv = int(v) if not isinstance(v, bool) else int(v)
            for val, b in targets:
                if val != 'otherwise' and int(val) == iv: return int(b)
            for val, b in targets:
                if val == 'otherwise': return int(b)
            raise Panic('switch fallthrough')
        conds = []
        for val, b in targets:
            if val == 'otherwise': continue
            if z3.is_bool(v): c = v if int(val) else z3.Not(v)
            else: c = v == z3.BitVecVal(int(val), v.size())
            if self.branch(c): return int(b)
        for val, b in targets:
            if val == 'otherwise': return int(b)
        raise PathEnd()

    def to_bool(self, v):
        return v

    # ---- statements
    def exec_stmt(self, f, loc, s):
        if s.startswith(('StorageLive', 'StorageDead', 'nop', 'PlaceMention', 'FakeRead', 'AscribeUserType', 'Retag', 'Coverage', 'ConstEvalCounter', 'Deinit', 'BackwardIncompatibleDropHint')):
            return
        m = re.match(r'(.*?) = (.*)$', s)
        if not m: raise Unsupported('stmt ' + s)
        dest, rv = m.group(1), m.group(2)
        if dest.startswith('discriminant('):
            raise Unsupported('set discriminant')
        val = self.rvalue(f, loc, rv)
        self.place(f, loc, dest, create=True).v = val

    def rvalue(self, f, loc, rv):
        rv = rv.strip()
        if rv.startswith('no_retag '): rv = rv[len('no_retag '):]
        if rv.startswith(('copy ', 'move ', 'const ')):
            # maybe a cast: "copy _3 as u32 (IntToInt)"
            m = re.match(r'(.*) as (.*) \((\w+)(?:\(.*\))?\)$', rv)
            if m and not rv.startswith('const "'):
                v = self.operand(f, loc, m.group(1))
                return self.cast(v, m.group(2), m.group(3))
            return self.operand(f, loc, rv)
        if rv.startswith('&'):
            m = re.match(r'&(?:raw (?:const|mut) )?(mut )?(.*)$', rv)
            return Ref(self.place(f, loc, m.group(2)), bool(m.group(1)))
        m = re.match(r'(\w+)\((.*)\)$', rv)
        if m and m.group(1) in BINOPS | UNOPS | {'discriminant', 'Len', 'PtrMetadata'}:
            op = m.group(1); ops = split_top(m.group(2))
            if op == 'discriminant':
                v = self.place(f, loc, ops[0]).v
                return self.discr(v)
            if op in UNOPS:
                a = self.operand(f, loc, ops[0])
                if op == 'Not': return z3.Not(a) if z3.is_bool(a) else (~a if is_sym(a) else (not a if isinstance(a, bool) else ~a))
                raise Unsupported(op)
            if op in ('Len', 'PtrMetadata'):
                v = self.place(f, loc, ops[0]).v if op == 'Len' else self.operand(f, loc, ops[0])
                while isinstance(v, Ref): v = v.cell.v
                if isinstance(v, Str): return len(v.chars)
                if isinstance(v, VecV): return len(v.items)
                raise Unsupported('Len of ' + repr(v))
            a = self.operand(f, loc, ops[0]); b = self.operand(f, loc, ops[1])
            return self.binop(op, a, b)
        if rv.startswith('(') and rv.endswith(')'):
            items = split_top(rv[1:-1])
            return Adt('tuple', 0, [Cell(self.operand(f, loc, x)) for x in items])
        if rv == '()': return UNIT
        if rv.startswith('[') and rv.endswith(']'):
            items = split_top(rv[1:-1])
            return VecV([Cell(self.operand(f, loc, x)) for x in items])
        m = re.match(r'(\{closure@[^}]*\})(?: \{ (.*) \})?$', rv)
        if m:
            fields = [self.operand(f, loc, x.split(': ', 1)[1]) for x in split_top(m.group(2))] if m.group(2) else []
            return Adt(m.group(1), None, [Cell(x) for x in fields])
        # aggregate: Path::Variant(args) | Path { f: v } | Path::Variant (unit)
        m = re.match(r'([\w:<>, &\'\[\]\(\);]+?)(?:\((.*)\)| \{ (.*) \})?$', rv)
        if m:
            path = strip_generics(m.group(1))
            parts = path.split('::')
            if m.group(2) is not None: fields = [self.operand(f, loc, x) for x in split_top(m.group(2))]
            elif m.group(3) is not None: fields = [self.operand(f, loc, x.split(': ', 1)[1]) for x in split_top(m.group(3))]
            else: fields = []
            ty = base('::'.join(parts[:-1])) if len(parts) > 1 else parts[0]
            var = parts[-1]
            if ty in self.variants and var in self.variants[ty]:
                return Adt(ty, var, [Cell(x) for x in fields])
            return Adt(base(path), None, [Cell(x) for x in fields])
        raise Unsupported('rvalue ' + rv)

    def discr(self, v):
        if isinstance(v, Adt):
            if isinstance(v.variant, str): return self.variants[v.ty].index(v.variant)
            return v.variant
        raise Unsupported('discriminant of ' + repr(v))

    def cast(self, v, ty, kind):
        w = INTW.get(ty)
        if kind in ('IntToInt',) and w:
            if is_sym(v):
                if z3.is_bool(v): v = z3.If(v, z3.BitVecVal(1, w), z3.BitVecVal(0, w))
                if v.size() > w: return z3.Extract(w-1, 0, v)
                if v.size() < w: return z3.ZeroExt(w - v.size(), v)
                return v
            return int(v) & ((1 << w) - 1)
        if kind in ('Transmute', 'PtrToPtr', 'Unsize', 'PointerCoercion'): return v
        return v

    def binop(self, op, a, b):
        if isinstance(a, bool) and not is_sym(b): a = int(a);
        if isinstance(b, bool) and not is_sym(a): b = int(b)
        if is_sym(a) and not is_sym(b) and not z3.is_bool(a): b = z3.BitVecVal(int(b), a.size())
        if is_sym(b) and not is_sym(a) and not z3.is_bool(b): a = z3.BitVecVal(int(a), b.size())
        if op == 'Eq': return a == b
        if op == 'Ne': return a != b
        sym = is_sym(a) or is_sym(b)
        if op == 'Lt': return z3.ULT(a, b) if sym else a < b
        if op == 'Le': return z3.ULE(a, b) if sym else a <= b
        if op == 'Gt': return z3.UGT(a, b) if sym else a > b
        if op == 'Ge': return z3.UGE(a, b) if sym else a >= b
        if op in ('Add', 'AddUnchecked'): return a + b
        if op in ('Sub', 'SubUnchecked'): return a - b
        if op == 'Mul': return a * b
        if op == 'BitAnd': return a & b
        if op == 'BitOr': return a | b
        if op == 'BitXor': return a ^ b
        if op in ('AddWithOverflow', 'SubWithOverflow'):
            if sym: raise Unsupported('symbolic checked arith')
            r = a + b if op[0] == 'A' else a - b
            return Adt('tuple', 0, [Cell(r), Cell(r < 0 or r >= 2**64)])
        raise Unsupported('binop ' + op)

    # ---- operands & places
    def operand(self, f, loc, s):
        s = s.strip()
        if s.startswith('no_retag '): s = s[9:]
        if s.startswith('copy '): return deep(self.place(f, loc, s[5:]).v)
        if s.startswith('move '): return self.place(f, loc, s[5:]).v
        if s.startswith('const '): return self.const(s[6:])
        raise Unsupported('operand ' + s)

    def const(self, c):
        c = c.strip()
        if c == 'true': return True
        if c == 'false': return False
        if c == '()': return UNIT
        m = re.match(r'(-?\d+)_(\w+)$', c)
        if m: return int(m.group(1))
        if c.startswith('"'): return Ref(Cell(Str([ord(ch) for ch in unescape_rust(c[1:-1])])))
        if c.startswith("'"): return ord(unescape_rust(c[1:-1]))
        if c.startswith('b"'): return Ref(Cell(Str(list(unescape_rust_bytes(c[2:-1])))))
        if c in self.fns: return self.exec_fn(self.fns[c], [])
        m = re.match(r'<(.*?) as (.*?)>::(.*)$', c)
        if m:
            nm = m.group(2) + '::' + m.group(3)
            while nm:
                if nm in self.fns: return self.exec_fn(self.fns[nm], [])
                if '::' not in nm: break
                nm = nm.split('::', 1)[1]
        m = re.match(r'(.*)<impl (.*?)>::(.*)$', c)
        if m:
            # path::<impl Trait for Type>::method::promoted[i]  ->  find def by impl header
            hdr = m.group(2); rest = m.group(3)
            mm = re.match(r'(?:(.*) for )?(.*)$', hdr)
            meth = rest.split('::')[0]
            key = (base(mm.group(2)), base(mm.group(1)) if mm.group(1) else None, meth)
            f = self.impls.get(key)
            if f:
                nm = f.name + rest[len(meth):]
                if nm in self.fns: return self.exec_fn(self.fns[nm], [])
        raise Unsupported('const ' + c)

    def place(self, f, loc, p, create=False):
        p = p.strip()
        m = re.match(r'_(\d+)$', p)
        if m:
            i = int(m.group(1))
            if i not in loc: loc[i] = Cell(None)
            return loc[i]
        if p.startswith('(*') and p.endswith(')'):
            v = self.place(f, loc, p[2:-1]).v
            if isinstance(v, Ref): return v.cell
            raise Unsupported('deref of ' + repr(v))
        if p.startswith('('):
            close = find_matching(p, 0)
            inner = p[1:close]; rest = p[close+1:]
            # (P.N: T)   or (P as Variant)
            m = re.match(r'(.*) as (\w+)$', inner)
            if m and not rest.startswith('['):
                cell = self.place(f, loc, m.group(1))
                v = cell.v
                if not (isinstance(v, Adt) and v.variant == m.group(2)):
                    raise Panic(f'downcast {m.group(2)} of {v!r}')
                base_cell = cell
            else:
                # find ".N: " at top level from the right
                mm = re.match(r'(.*)\.(\d+): (.*)$', inner)
                # the greedy match may split inside the type; retry scanning candidates
                base_cell = None
                for cand in re.finditer(r'\.(\d+): ', inner):
                    head = inner[:cand.start()]
                    if balanced(head):
                        try:
                            bc = self.place(f, loc, head)
                        except Unsupported:
                            continue
                        v = bc.v
                        idx = int(cand.group(1))
                        if isinstance(v, Adt):
                            base_cell = v.fields[idx]
                        elif isinstance(v, Ref) and idx == 0:
                            base_cell = Cell(v)      # Box/Unique/NonNull wrappers are transparent
                        else:
                            raise Unsupported(f'field {idx} of {v!r} in {p}')
                        break
                if base_cell is None: raise Unsupported('place ' + p)
            if rest:
                return self.proj_rest(f, loc, base_cell, rest)
            return base_cell
        m = re.match(r'(.*)\[(_\d+)\]$', p)
        if m:
            v = self.place(f, loc, m.group(1)).v
            i = self.place(f, loc, m.group(2)).v
            return self.index_cell(v, i)
        raise Unsupported('place ' + p)

    def proj_rest(self, f, loc, cell, rest):
        m = re.match(r'\[(_\d+)\]$', rest)
        if m:
            return self.index_cell(cell.v, self.place(f, loc, m.group(1)).v)
        raise Unsupported('projection ' + rest)

    def index_cell(self, v, i):
        while isinstance(v, Ref): v = v.cell.v
        if is_sym(i): raise Unsupported('symbolic index')
        if isinstance(v, VecV):
            if i >= len(v.items): raise Panic('index out of bounds')
            return v.items[i]
        raise Unsupported('index of ' + repr(v))

class AssertionViolation(Exception):
    def __init__(self, msg, model): self.msg = msg; self.model = model

BINOPS = {'Eq', 'Ne', 'Lt', 'Le', 'Gt', 'Ge', 'Add', 'Sub', 'Mul', 'Div', 'Rem', 'BitAnd', 'BitOr', 'BitXor', 'Shl', 'Shr',
          'AddWithOverflow', 'SubWithOverflow', 'MulWithOverflow', 'AddUnchecked', 'SubUnchecked', 'Offset', 'Cmp'}
UNOPS = {'Not', 'Neg'}
INTW = {'u8': 8, 'i8': 8, 'u16': 16, 'i16': 16, 'u32': 32, 'i32': 32, 'u64': 64, 'i64': 64, 'usize': 64, 'isize': 64, 'char': 32, 'u128': 128, 'i128': 128}

def is_forwarder(f, meth, tyb):
    if len(f.blocks) > 3: return False
    stmts, term = f.blocks[0]
    m = re.search(r'= <(.*?) as .*>::%s(::<.*>)?\(' % re.escape(meth), term)
    return bool(m) and base(m.group(1)) in (tyb, 'Self')
def balanced(s):
    d = 0
    for c in s:
        if c in '([{': d += 1
        elif c in ')]}': d -= 1
        if d < 0: return False
    return d == 0

def matching_open(s):
    """s ends with ')'; index of its matching '('"""
    d = 0
    for i in range(len(s) - 1, -1, -1):
        c = s[i]
        if c == ')': d += 1
        elif c == '(':
            d -= 1
            if d == 0: return i
    raise ValueError(s)

def strip_generics(s):
    """remove ::<...> turbofish segments"""
    out = []; i = 0; n = len(s)
    while i < n:
        if s.startswith('::<', i):
            j = i + 2; d = 0
            while j < n:
                if s[j] == '<': d += 1
                elif s[j] == '>' and s[j-1] != '-':
                    d -= 1
                    if d == 0: break
                j += 1
            i = j + 1; continue
        out.append(s[i]); i += 1
    return ''.join(out)

PRIM = {}
def tkey(trait):
    m = re.match(r'(.*?)<(.*)>$', trait.strip())
    return base(m.group(1)) + '<' + ', '.join(base(x) for x in split_top(m.group(2))) + '>'
def base(t):
    """last path segment of a type, generics removed:  backend::mysql::MysqlQueryBuilder -> MysqlQueryBuilder"""
    if t is None: return None
    t = t.strip()
    t = re.sub(r"^&(?:'\w+ )?(?:mut )?", '', t)
    if t.startswith('dyn '): return 'dyn ' + base(t[4:])
    # cut generics
    k = t.find('<')
    if k > 0: t = t[:k]
    return t.split('::')[-1]

def unescape_rust(s):
    out = []; i = 0
    while i < len(s):
        c = s[i]
        if c == '\\':
            n = s[i+1]
            if n == 'n': out.append('\n'); i += 2
            elif n == 't': out.append('\t'); i += 2
            elif n == 'r': out.append('\r'); i += 2
            elif n == '0': out.append('\0'); i += 2
            elif n == '\\': out.append('\\'); i += 2
            elif n == "'": out.append("'"); i += 2
            elif n == '"': out.append('"'); i += 2
            elif n == 'x': out.append(chr(int(s[i+2:i+4], 16))); i += 4
            elif n == 'u':
                j = s.index('}', i); out.append(chr(int(s[i+3:j], 16))); i = j + 1
            else: raise ValueError(s)
        else:
            out.append(c); i += 1
    return ''.join(out)

def unescape_rust_bytes(s):
    return bytes(ord(c) for c in unescape_rust(s))

# ---------------------------------------------------------------- std models
def as_str(v):
    while isinstance(v, Ref): v = v.cell.v
    if isinstance(v, Adt) and v.ty == 'String': v = v.fields[0].v
    if isinstance(v, Str): return v
    raise Unsupported('not a string: ' + repr(v))

def new_string(chars): return Adt('String', None, [Cell(Str(chars))])

def m_string_new(e, c, a): return new_string([])
def m_unwrap(e, c, a):
    v = a[0]
    if isinstance(v, Adt) and v.variant in ('Ok', 'Some'): return v.fields[0].v
    raise Panic('unwrap on ' + repr(v))
def m_new_display(e, c, a):
    fa = FmtArg('display', a[0]); fa.ty = re.search(r'new_display::<(.*)>$', c).group(1); return fa
def m_args_new(e, c, a): return FmtArgs(as_str(a[0]).chars, [x.v for x in a[1].cell.v.items])
def m_args_from_str(e, c, a): return FmtArgs(None, [as_str(a[0])])
def fmt_value(v):
    while isinstance(v, Ref): v = v.cell.v
    if isinstance(v, Adt) and v.ty == 'String': return v.fields[0].v.chars
    if isinstance(v, Str): return v.chars
    if isinstance(v, int) or is_sym(v): return [v]     # char
    raise Unsupported('display of ' + repr(v))
def render_args(fa):
    if fa.template is None: return list(fa.args[0].chars)
    out = []; t = fa.template; i = 0; argi = 0
    while i < len(t):
        b = t[i]
        if b == 0: break
        if b < 0x80:
            out.extend(t[i+1:i+1+b]); i += 1 + b
        elif b == 0x80:
            n = t[i+1] | (t[i+2] << 8); out.extend(t[i+3:i+3+n]); i += 3 + n
        elif b == 0xc0:
            arg = fa.args[argi]
            if base(getattr(arg, 'ty', '')) in INTW and base(arg.ty) != 'char':
                v = arg.ref
                while isinstance(v, Ref): v = v.cell.v
                out.extend([ord(ch) for ch in str(v)] if isinstance(v, int) else [('Dec', v)])
            else:
                out.extend(fmt_value(arg.ref))
            argi += 1; i += 1
        else:
            raise Unsupported('fmt template opcode %#x' % b)
    return out
def m_write_fmt(e, c, a):
    s = as_str(a[0])
    s.chars.extend(render_args(a[1]))
    return Adt('Result', 'Ok', [Cell(UNIT)])
def m_is_empty(e, c, a): return len(as_str(a[0]).chars) == 0
def m_vec_len(e, c, a):
    v = a[0]
    while isinstance(v, Ref): v = v.cell.v
    return len(v.items)
def m_vec_index(e, c, a):
    v = a[0]
    while isinstance(v, Ref): v = v.cell.v
    i = a[1]
    if i >= len(v.items): raise Panic('index out of bounds')
    return Ref(v.items[i])
ALPHA = z3.Function('unicode_alphabetic', z3.BitVecSort(32), z3.BoolSort())
def m_is_alphabetic(e, c, a):
    x = a[0]
    if not is_sym(x):
        ch = chr(x)
        return ch.isalpha()   # concrete: python approximation, only used for concrete literals
    asc = z3.Or(z3.And(z3.UGE(x, 0x61), z3.ULE(x, 0x7a)), z3.And(z3.UGE(x, 0x41), z3.ULE(x, 0x5a)))
    return z3.Or(asc, z3.And(z3.UGT(x, 0x7f), ALPHA(x)))
def m_is_ascii_digit(e, c, a):
    x = a[0]
    while isinstance(x, Ref): x = x.cell.v
    if not is_sym(x): return 0x30 <= x <= 0x39
    return z3.And(z3.UGE(x, 0x30), z3.ULE(x, 0x39))
def m_deref(e, c, a):
    return a[0]
def m_replace_char(e, c, a):
    s = as_str(a[0]).chars; pat = a[1]; to = as_str(a[2]).chars
    out = []
    for ch in s:
        if e.branch(ch == pat if is_sym(ch) or is_sym(pat) else ch == pat): out.extend(to)
        else: out.append(ch)
    return new_string(out)
def m_replace_str(e, c, a):
    s = as_str(a[0]).chars; pat = as_str(a[1]).chars; to = as_str(a[2]).chars
    out = []; i = 0; n = len(pat)
    if n == 0: raise Unsupported('empty pattern')
    while i < len(s):
        if i + n <= len(s):
            conds = [(s[i+k] == pat[k]) for k in range(n)]
            cnd = conds[0] if n == 1 else z3.And(*[x if is_sym(x) else z3.BoolVal(bool(x)) for x in conds])
            if e.branch(cnd):
                out.extend(to); i += n; continue
        out.append(s[i]); i += 1
    return new_string(out)
def m_chars(e, c, a): return Iter(as_str(a[0]).chars)
def m_into_iter(e, c, a): return a[0]
def m_iter_next(e, c, a):
    it = a[0].cell.v
    if it.pos < len(it.seq):
        v = it.seq[it.pos]; it.pos += 1
        return Adt('Option', 'Some', [Cell(v)])
    return Adt('Option', 'None', [])
def m_collect_chars(e, c, a):
    it = a[0]
    return VecV([Cell(x) for x in it.seq[it.pos:]])

def pywriter(v):
    while isinstance(v, Ref): v = v.cell.v
    if isinstance(v, Adt) and v.ty == 'PyWriter': return v.fields[0].v
    return None
def m_dyn_write_fmt(e, c, a):
    w = pywriter(a[0])
    if w is not None:
        w.chars.extend(render_args(a[1])); return Adt('Result', 'Ok', [Cell(UNIT)])
    v = a[0]
    while isinstance(v, Ref): v = v.cell.v
    if isinstance(v, Adt) and v.ty != 'String':
        key = (base(v.ty), 'Write', 'write_str')
        if key in e.impls:
            return e.exec_fn(e.impls[key], [a[0], Ref(Cell(Str(render_args(a[1]))))])
    return m_write_fmt(e, c, a)
def m_as_writer(e, c, a): return a[0]
def m_push_param(e, c, a):
    w = pywriter(a[0])
    if w is None:
        return e.exec_fn(e.impls[(e.runtime_type(a[0]), 'SqlWriter', 'push_param')], a)
    w.chars.append(('PARAM', len(w.params))); w.params.append(a[1]); return UNIT
def m_ident(e, c, a): return a[0]
def m_deref_generic(e, c, a):
    v = a[0]
    if isinstance(v, Ref) and isinstance(v.cell.v, Ref): return v.cell.v
    return v
def m_clone(e, c, a):
    v = a[0]
    while isinstance(v, Ref) and not c.startswith(('<Rc<', '<&')): v = v.cell.v; break
    return deep(v)
def m_from_utf8(e, c, a):
    v = a[0]
    while isinstance(v, Ref): v = v.cell.v
    chars = [x.v for x in v.items] if isinstance(v, VecV) else v.chars
    return Adt('Result', 'Ok', [Cell(Ref(Cell(Str(chars))))])
def m_repeat(e, c, a): return new_string(as_str(a[0]).chars * a[1])
def m_as_str(e, c, a): return Ref(Cell(as_str(a[0])))
def m_char_from_u8(e, c, a): return a[0]
def zand(xs):
    xs = [x for x in xs if not (isinstance(x, bool) and x)]
    if any(isinstance(x, bool) and not x for x in xs): return False
    if not xs: return True
    return z3.And(*xs) if len(xs) > 1 else xs[0]
def struct_eq(e, a, b):
    while isinstance(a, Ref): a = a.cell.v
    while isinstance(b, Ref): b = b.cell.v
    if isinstance(a, Adt) and isinstance(b, Adt):
        key = (base(a.ty), 'PartialEq', 'eq')
        if key in e.impls: return e.exec_fn(e.impls[key], [Ref(Cell(a)), Ref(Cell(b))])
        if a.variant != b.variant or len(a.fields) != len(b.fields): return False
        return zand([struct_eq(e, x.v, y.v) for x, y in zip(a.fields, b.fields)])
    if isinstance(a, Str) and isinstance(b, Str):
        if len(a.chars) != len(b.chars): return False
        return zand([x == y for x, y in zip(a.chars, b.chars)])
    if isinstance(a, VecV) and isinstance(b, VecV):
        if len(a.items) != len(b.items): return False
        return zand([struct_eq(e, x.v, y.v) for x, y in zip(a.items, b.items)])
    if isinstance(a, Unit): return True
    return a == b
def m_eq(e, c, a): return struct_eq(e, a[0], a[1])
def m_ne(e, c, a):
    r = struct_eq(e, a[0], a[1])
    return z3.Not(r) if is_sym(r) else (not r)
def m_default(e, c, a):
    t = re.match(r'<(.*) as Default>::default$', c).group(1)
    if t.startswith(('Option<', 'std::option::Option<')): return Adt('Option', 'None', [])
    if t.startswith(('Vec<', 'std::vec::Vec<')): return VecV([])
    if t == 'bool': return False
    if t in INTW: return 0
    if t.endswith('String'): return new_string([])
    raise Unsupported('default of ' + t)
def vec_of(v):
    while isinstance(v, Ref): v = v.cell.v
    if isinstance(v, VecV): return v
    raise Unsupported('not a vec ' + repr(v))
def m_vec_push(e, c, a): vec_of(a[0]).items.append(Cell(a[1])); return UNIT
def m_vec_new(e, c, a): return VecV([])
def m_vec_is_empty(e, c, a): return len(vec_of(a[0]).items) == 0
def m_box_new(e, c, a): return Ref(Cell(a[0]))
def m_rc_new(e, c, a): return Ref(Cell(a[0]))
def m_slice_iter(e, c, a): return Iter([Ref(x) for x in vec_of(a[0]).items])
def m_fold(e, c, a):
    it, acc, clo = a[0], a[1], a[2]
    f = clo_body(e, clo)
    while it.pos < len(it.seq):
        x = it.seq[it.pos]; it.pos += 1
        acc = e.exec_fn(f, [Ref(Cell(clo), True), acc, x])
    return acc
def m_for_each(e, c, a):
    it, clo = a[0], a[1]
    f = clo_body(e, clo)
    while it.pos < len(it.seq):
        x = it.seq[it.pos]; it.pos += 1
        e.exec_fn(f, [Ref(Cell(clo), True), x])
    return UNIT
def clo_body(e, clo):
    if not hasattr(e, 'closures'):
        e.closures = {}
        for n, f in e.fns.items():
            if '{closure#' in n and f.params:
                mm = re.search(r'(\{closure@[^}]*\})', f.params[0])
                if mm: e.closures[mm.group(1)] = f
    return e.closures[clo.ty]
def m_enumerate(e, c, a):
    it = a[0]
    return Iter([Adt('tuple', 0, [Cell(i), Cell(x)]) for i, x in enumerate(it.seq[it.pos:])])
def m_mem_take(e, c, a):
    t = re.match(r'std::mem::take::<(.*)>$', c).group(1)
    cell = a[0].cell; old = cell.v
    cell.v = e.call('<%s as Default>::default' % t, [])
    return old
def m_mem_replace(e, c, a):
    cell = a[0].cell; old = cell.v; cell.v = a[1]; return old
def m_ref_vec_into_iter(e, c, a): return Iter([Ref(x) for x in vec_of(a[0]).items])
def m_vec_into_iter(e, c, a): return Iter([x.v for x in vec_of(a[0]).items])
def m_str_into_string(e, c, a): return new_string(as_str(a[0]).chars)
MODELS = [(re.compile(p), f) for p, f in [
    (r'std::mem::take::<.*>$', m_mem_take),
    (r'std::mem::replace::<.*>$', m_mem_replace),
    (r'<.* as Default>::default$', m_default),
    (r'Vec::<.*>::push$', m_vec_push),
    (r'Vec::<.*>::new$', m_vec_new),
    (r'Vec::<.*>::is_empty$|core::slice::<impl \[.*\]>::is_empty$', m_vec_is_empty),
    (r'Box::<.*>::new$', m_box_new),
    (r'Rc::<.*>::new$|std::rc::Rc::<.*>::new$', m_rc_new),
    (r'core::slice::<impl \[.*\]>::iter$', m_slice_iter),
    (r'<std::slice::Iter<.*> as Iterator>::fold::<.*>$', m_fold),
    (r'<std::slice::Iter<.*> as Iterator>::for_each::<.*>$', m_for_each),
    (r'<std::slice::Iter<.*> as IntoIterator>::into_iter$', m_into_iter),
    (r'<&Vec<.*> as IntoIterator>::into_iter$', m_ref_vec_into_iter),
    (r'<Vec<.*> as IntoIterator>::into_iter$', m_vec_into_iter),
    (r'<std::vec::IntoIter<.*> as Iterator>::next$', m_iter_next),
    (r'<std::vec::IntoIter<.*> as IntoIterator>::into_iter$', m_into_iter),
    (r'<std::slice::Iter<.*> as Iterator>::enumerate$', m_enumerate),
    (r'<Enumerate<.*> as IntoIterator>::into_iter$', m_into_iter),
    (r'<Enumerate<.*> as Iterator>::next$', m_iter_next),
    (r'<std::slice::Iter<.*> as Iterator>::next$', m_iter_next),
    (r'<&str as Into<std::string::String>>::into$|<str as ToOwned>::to_owned$', m_str_into_string),
    (r'<.* as PartialEq(<.*>)?>::eq$', m_eq),
    (r'<.* as PartialEq(<.*>)?>::ne$', m_ne),
    (r'<dyn .* as std::fmt::Write>::write_fmt$', m_dyn_write_fmt),
    (r'<dyn prepare::SqlWriter as prepare::SqlWriter>::as_writer$', m_as_writer),
    (r'<dyn prepare::SqlWriter as prepare::SqlWriter>::push_param$', m_push_param),
    (r'<Box<.*> as AsRef<.*>>::as_ref$', m_deref_generic),
    (r'<.* as Deref>::deref$', m_deref_generic),
    (r'<.* as Clone>::clone$', m_clone),
    (r'(std::str::)?from_utf8$', m_from_utf8),
    (r'core::str::<impl str>::repeat$|std::str::<impl str>::repeat$', m_repeat),
    (r'std::string::String::as_str$', m_as_str),
    (r'<char as From<u8>>::from$', m_char_from_u8),
    (r'std::string::String::(new|with_capacity)$', m_string_new),
    (r'Vec::<.*>::with_capacity$', m_vec_new),
    (r'std::result::Result::<.*>::unwrap$', m_unwrap),
    (r'(std::option::)?Option::<.*>::unwrap$', m_unwrap),
    (r'core::fmt::rt::Argument::<.*>::new_display::<.*>$', m_new_display),
    (r'Arguments::<.*>::new::<\d+, \d+>$', m_args_new),
    (r'Arguments::<.*>::from_str(_nonconst)?$', m_args_from_str),
    (r'<std::string::String as std::fmt::Write>::write_fmt$', m_write_fmt),
    (r'std::string::String::is_empty$', m_is_empty),
    (r'Vec::<.*>::len$', m_vec_len),
    (r'<Vec<.*> as std::ops::Index<usize>>::index$', m_vec_index),
    (r'char::methods::<impl char>::is_alphabetic$', m_is_alphabetic),
    (r'char::methods::<impl char>::is_ascii_digit$', m_is_ascii_digit),
    (r'<std::string::String as Deref>::deref$', m_deref),
    (r'std::str::<impl str>::replace::<char>$', m_replace_char),
    (r'std::str::<impl str>::replace::<&str>$', m_replace_str),
    (r'core::str::<impl str>::chars$', m_chars),
    (r'<Chars<.*> as IntoIterator>::into_iter$', m_into_iter),
    (r'<Chars<.*> as Iterator>::next$', m_iter_next),
    (r'<Chars<.*> as Iterator>::collect::<Vec<char>>$', m_collect_chars),
]]
