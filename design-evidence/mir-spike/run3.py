import sys, time, z3, traceback
from mir import parse_mir
import interp
from interp import *
from enums import parse_enums

fns = parse_mir(open('/tmp/mirprobe/mir.txt').read())
variants = parse_enums('/tmp/mirprobe/repo', {'backend-mysql','backend-postgres','backend-sqlite'})
variants.update({'Option': ['None', 'Some'], 'Result': ['Ok', 'Err']})
Engine.srcroot = '/tmp/mirprobe/repo'
eng = Engine(fns, variants)
class Writer:
    def __init__(self): self.chars = []; self.params = []
def string(s): return new_string([ord(c) for c in s])
def alias(s): return Adt('Alias', None, [Cell(string(s))])

def entry(e):
    x = z3.BitVec('x', 32)
    q = e.call('query::Query::select', [])
    qc = Cell(q)
    e.call('query::select::SelectStatement::column::<types::Alias>', [Ref(qc, True), alias('a')])
    e.call('query::select::SelectStatement::from::<types::Alias>', [Ref(qc, True), alias('t')])
    w = Adt('PyWriter', None, [Cell(Writer())])
    me = Adt('MysqlQueryBuilder', None, [])
    e.call('<backend::mysql::MysqlQueryBuilder as QueryBuilder>::prepare_select_statement', [Ref(Cell(me)), Ref(qc), Ref(Cell(w), True)])
    wr = w.fields[0].v
    print(''.join(chr(c) if isinstance(c, int) else '<%s>' % (c,) for c in wr.chars), wr.params)
try:
    v = eng.run_all(entry)
    print(eng.stats, v)
except Exception as ex:
    traceback.print_exc()
