import sys, time, z3, traceback
from mir import parse_mir
import interp
from interp import *
from enums import parse_enums
fns = parse_mir(open('/tmp/mirprobe/mir.txt').read())
variants = parse_enums('/tmp/mirprobe/repo', {'backend-mysql','backend-postgres','backend-sqlite'})
variants.update({'Option': ['None', 'Some'], 'Result': ['Ok', 'Err']})
Engine.srcroot = '/tmp/mirprobe/repo'
eng = Engine(fns, variants)
def string(s): return new_string([ord(c) for c in s])
def alias(s): return Adt('Alias', None, [Cell(string(s))])
def show(chars): return ''.join(chr(c) if isinstance(c, int) else '<%s>' % (c,) for c in chars)
def entry(e):
    x = z3.BitVec('x', 32); has_where = z3.Bool('has_where'); pg = z3.Bool('pg')
    q = e.call('query::Query::select', []); qc = Cell(q)
    e.call('query::select::SelectStatement::column::<types::Alias>', [Ref(qc, True), alias('a')])
    e.call('query::select::SelectStatement::from::<types::Alias>', [Ref(qc, True), alias('t')])
    if e.branch(has_where):
        col = e.call('expr::Expr::col::<types::Alias>', [alias('c')])
        xv = Adt('SimpleExpr', 'Value', [Cell(Adt('Value', 'Int', [Cell(Adt('Option','Some',[Cell(x)]))]))])
        cond = e.call('expr::Expr::eq::<expr::SimpleExpr>', [col, xv])
        e.call('<query::select::SelectStatement as ConditionalStatement>::and_where', [Ref(qc, True), cond])
    e.call('query::select::SelectStatement::limit', [Ref(qc, True), 7])
    if e.branch(pg):
        r = e.call('query::select::SelectStatement::build::<backend::postgres::PostgresQueryBuilder>', [Ref(qc), Adt('PostgresQueryBuilder', None, [])])
    else:
        r = e.call('query::select::SelectStatement::build::<backend::mysql::MysqlQueryBuilder>', [Ref(qc), Adt('MysqlQueryBuilder', None, [])])
    sql = as_str(r.fields[0].v).chars; vals = r.fields[1].v
    print(show(sql), vals)
try:
    v = eng.run_all(entry); print(eng.stats, v)
except Exception as ex:
    traceback.print_exc()
