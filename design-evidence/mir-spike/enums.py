import re, os, glob
def parse_enums(srcroot, features):
    out = {}
    for path in glob.glob(srcroot + '/src/**/*.rs', recursive=True):
        src = open(path).read()
        src = re.sub(r'//[^\n]*', '', src)
        for m in re.finditer(r'\benum\s+(\w+)\s*(?:<[^>{]*>)?\s*\{', src):
            name = m.group(1)
            i = m.end(); d = 1; j = i
            while d:
                c = src[j]
                if c == '{': d += 1
                elif c == '}': d -= 1
                j += 1
            body = src[i:j-1]
            # split top-level by commas
            items = []; cur = ''; dd = 0
            for c in body:
                if c in '([{<': dd += 1
                elif c in ')]}>': dd -= 1
                if c == ',' and dd == 0: items.append(cur); cur = ''
                else: cur += c
            if cur.strip(): items.append(cur)
            vs = []
            for it in items:
                it = it.strip()
                if not it: continue
                enabled = True
                while it.startswith('#['):
                    k = it.index(']') ; 
                    # handle nested brackets in attribute
                    d2 = 0
                    for k in range(len(it)):
                        if it[k] == '[': d2 += 1
                        elif it[k] == ']':
                            d2 -= 1
                            if d2 == 0: break
                    attr = it[:k+1]; it = it[k+1:].strip()
                    mm = re.match(r'#\[cfg\(feature\s*=\s*"([^"]+)"\)\]', attr)
                    if mm and mm.group(1) not in features: enabled = False
                    mm = re.match(r'#\[cfg\(not\(feature\s*=\s*"([^"]+)"\)\)\]', attr)
                    if mm and mm.group(1) in features: enabled = False
                if not enabled: continue
                vm = re.match(r'(\w+)', it)
                if vm: vs.append(vm.group(1))
            out.setdefault(name, vs)
    return out
if __name__ == '__main__':
    e = parse_enums('/tmp/mirprobe/repo', {'backend-mysql','backend-postgres','backend-sqlite'})
    print(len(e)); print(e['Value']); print(e['SimpleExpr']); print(e['BinOper'])
