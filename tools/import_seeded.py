#!/usr/bin/env python3
"""copy confirmed mutations from /tmp/mut/<ID>/_out into /verif/seeded/<ID>-m<k>/ (patch.diff, demo.rs, meta.json)"""
import glob, json, os, shutil, sys
V = os.path.dirname(os.path.dirname(os.path.abspath(__file__)))
for cf in sorted(glob.glob('/tmp/mut/*/_out/m*.confirm.json')):
    out = os.path.dirname(cf); k = os.path.basename(cf).split('.')[0]; pid = out.split('/')[-2]
    try: c = json.load(open(cf))
    except Exception: continue
    if not (c.get('demo_on_original_exit') == 0 and c.get('demo_on_mutant_exit') not in (0, None) and c.get('suite_on_mutant_exit') == 0):
        print('NOT confirmed:', pid, k, c); continue
    d = os.path.join(V, 'seeded', '%s-%s' % (pid, k))
    if os.path.exists(os.path.join(d, 'meta.json')): continue
    os.makedirs(d, exist_ok=True)
    shutil.copy(os.path.join(out, k + '.diff'), os.path.join(d, 'patch.diff'))
    shutil.copy(os.path.join(out, k + '_demo.rs'), os.path.join(d, 'demo.rs'))
    try: m = json.load(open(os.path.join(out, k + '.json')))
    except Exception: m = {}
    meta = {'property': __import__('re').match(r'C\d+', pid).group(0), 'breaks': m.get('what'), 'needs': m.get('needs'), 'files': m.get('files'), 'features': m.get('features', ''),
            'author': 'independent sub-agent given only the property text and a scratch worktree',
            'confirmed': {'how': 'tools/confirm_mutant.sh in a scratch worktree: demo passes on the original tree, fails with the patch; '
                                 'cargo test --workspace --offline --no-fail-fast passes with the patch', **c},
            'detected_by': None}
    json.dump(meta, open(os.path.join(d, 'meta.json'), 'w'), indent=1)
    print('imported', d)
