#!/bin/sh
# offline setup: build the native replay binaries once (checks rebuild them incrementally against /repo's working tree)
set -e
cd /verif
export CARGO_NET_OFFLINE=true
mkdir -p .cache
CARGO_TARGET_DIR=/verif/.cache/replay-target cargo build --offline --quiet --manifest-path replay/Cargo.toml
CARGO_TARGET_DIR=/verif/.cache/replay-target-more-parens cargo build --offline --quiet --manifest-path replay/Cargo.toml --features more-parens
python3-vt -c "import z3; print('z3', z3.get_version_string())"
