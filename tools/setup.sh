#!/bin/sh
# offline setup: build the native replay binary once (checks rebuild it incrementally against /repo's working tree)
set -e
cd /verif
export CARGO_NET_OFFLINE=true
mkdir -p .cache
CARGO_TARGET_DIR=/verif/.cache/replay-target cargo build --offline --quiet --manifest-path replay/Cargo.toml
python3-vt -c "import z3; print('z3', z3.get_version_string())"
