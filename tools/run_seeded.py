#!/usr/bin/env python3
"""apply each seeded mutation to /repo, run the quick check(s) of the property it breaks, restore /repo, record the outcome in meta.json
usage: run_seeded.py [name ...]   (default: all under /verif/seeded)"""
import json, os, subprocess, sys, glob
V = os.path.dirname(os.path.dirname(os.path.abspath(__file__)))
REPO = '/repo'
def sh(cmd, **kw): return subprocess.run(cmd, shell=True, stdout=subprocess.PIPE, stderr=subprocess.STDOUT, text=True, **kw)
def main():
    names = sys.argv[1:] or sorted(os.listdir(os.path.join(V, 'seeded')))
    if sh('git -C %s status --porcelain --untracked-files=no' % REPO).stdout.strip():
        print('refusing: /repo has uncommitted changes'); sys.exit(2)
    manifest = json.load(open(os.path.join(V, 'MANIFEST.json')))
    claimed = {c['property_id'] for c in manifest['checks']}
    for n in names:
        d = os.path.join(V, 'seeded', n)
        meta = json.load(open(os.path.join(d, 'meta.json')))
        props = [meta['property']] + [p for p in meta.get('also_run', []) if p != meta['property']]
        r = sh('git -C %s apply %s/patch.diff' % (REPO, d))
        if r.returncode != 0:
            print(n, 'patch does not apply:', r.stdout[:200]); meta['detected_by'] = 'patch no longer applies to the current tree'; continue
        res = {}
        try:
            for p in props:
                if p not in claimed and not os.path.exists(os.path.join(V, 'props', p.lower() + '.py')): res[p] = 'no check'; continue
                out = sh('cd %s && VERIF_BUDGET_S=${VERIF_BUDGET_S:-600} timeout 1800 ./check %s --tier quick' % (V, p))
                lines = [l for l in out.stdout.split('\n') if l.startswith(('VIOLATION', 'INCONCLUSIVE'))]
                res[p] = {'exit': out.returncode, 'lines': [l[:300] for l in lines[:4]]}
        finally:
            sh('git -C %s checkout -- .' % REPO)
        det = [p for p, v in res.items() if isinstance(v, dict) and v['exit'] == 1]
        meta['detected_by'] = det
        meta['check_results'] = res
        json.dump(meta, open(os.path.join(d, 'meta.json'), 'w'), indent=1)
        print(n, 'DETECTED by ' + ','.join(det) if det else 'MISSED', {p: (v['exit'] if isinstance(v, dict) else v) for p, v in res.items()})
    # restore evidence for the unchanged tree is the caller's job (re-run the checks)
main()
