#!/bin/bash
# usage: confirm_mutant.sh <worktree> <k>   -- confirms mutation k in <worktree>/_out: suite passes + demo fails with it, demo passes without
# writes <worktree>/_out/m<k>.confirm.json
WT=$1; K=$2; OUT=$WT/_out
export CARGO_NET_OFFLINE=true
cd $WT || exit 2
git checkout -q -- . ; rm -f tests/demo_m*.rs
FEAT=$(python3 -c "import json;print(json.load(open('$OUT/m$K.json')).get('features','') or '')" 2>/dev/null)
FARG=""; [ -n "$FEAT" ] && FARG="--features $FEAT"
cp $OUT/m${K}_demo.rs tests/demo_m$K.rs
# 1. demo on the original code
cargo test --offline --test demo_m$K $FARG > $OUT/m$K.demo_orig.log 2>&1; D0=$?
# 2. apply mutation
git apply $OUT/m$K.diff || { echo '{"error":"patch does not apply"}' > $OUT/m$K.confirm.json; exit 1; }
cargo test --offline --test demo_m$K $FARG > $OUT/m$K.demo_mut.log 2>&1; D1=$?
rm -f tests/demo_m$K.rs
# 3. full existing suite with the mutation
cargo test --workspace --offline --no-fail-fast > $OUT/m$K.suite.log 2>&1; S=$?
git checkout -q -- . 
NP=$(grep -E "^test result: " $OUT/m$K.suite.log | awk '{p+=$4; f+=$6} END {print p" "f}')
echo "{\"demo_on_original_exit\": $D0, \"demo_on_mutant_exit\": $D1, \"suite_on_mutant_exit\": $S, \"suite_passed_failed\": \"$NP\", \"features\": \"$FEAT\"}" > $OUT/m$K.confirm.json
cat $OUT/m$K.confirm.json
