#!/bin/bash
# usage: confirm_round.sh <ID-with-suffix>...   confirm m1/m2 of /tmp/mut/<ID>/_out, import into /verif/seeded, remove the worktree
for id in "$@"; do
  for k in 1 2 3; do
    [ -f /tmp/mut/$id/_out/m$k.diff ] || continue
    /verif/tools/confirm_mutant.sh /tmp/mut/$id $k > /tmp/mut/$id/_out/confirm$k.log 2>&1
  done
  python3 /verif/tools/import_seeded.py
done
