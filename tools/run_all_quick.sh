#!/bin/sh
cd /verif && mkdir -p .cache/logs
rm -f .cache/logs/quick-summary.txt
for id in C01 C02 C03 C04 C05 C06 C07 C08 C09 C10 C11 C12 C13 C14 C15 C16 C17 C18 C19; do
  s=$(date +%s)
  timeout 2400 ./check $id > .cache/logs/quick-$id.log 2>&1
  rc=$?
  echo "$id rc=$rc wall=$(( $(date +%s) - s ))s $(tail -1 .cache/logs/quick-$id.log | cut -c1-160)" >> .cache/logs/quick-summary.txt
done
