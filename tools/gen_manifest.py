#!/usr/bin/env python3
"""Regenerate MANIFEST.json from the table below (claimed checks + not_applicable with reasons)."""
import json, os
V = os.path.dirname(os.path.dirname(os.path.abspath(__file__)))
ENGINE_M = 'mir-symex'
ENGINE_K = 'kani'
TRUST_M = ('Trusted base: the nightly compiler\'s MIR dump of the current tree, the MIR interpreter (engine/interp.py), the std library models '
           'listed in the evidence file (engine/models.py), z3. Every run validates the interpreter against the native build on a concrete corpus, '
           'replays sampled passing paths and every counterexample natively; disagreement is reported as INCONCLUSIVE (exit 2), never as a verdict. ')
CHECKS = {
 'C16': dict(text='Bounded symbolic execution of the real tokenizer MIR: for every input of up to L Unicode scalar values (L=4 quick, 6 thorough; each character a 32-bit solver variable, '
                  'alphabetic-ness beyond ASCII an uninterpreted predicate) z3 discharges termination, non-empty tokens, concatenation = input and coincidence of Quoted tokens with the quoted '
                  'regions found by an independent reference scanner on every feasible path. Nothing is claimed beyond the length bound.',
             note=TRUST_M + 'Oracle: reference quoted-region scanner in props/c16.py (matching delimiters, doubled delimiters except for brackets, backslash escapes).',
             technique='symbolic execution of rustc MIR (KLEE-style path exploration) with z3 deciding every path assertion', ref='6/C16', engine=ENGINE_M),
 'C17': dict(text='Bounded symbolic execution of the real escape_string/unescape_string MIR (default bodies and SQLite overrides): for every string of up to L Unicode scalar values '
                  '(L=4 quick, 5 thorough) on the three backends z3 proves unescape(escape(s)) = s character by character on every feasible path.',
             note=TRUST_M, technique='symbolic execution of rustc MIR (KLEE-style path exploration) with z3 deciding every path assertion', ref='6/C17', engine=ENGINE_M),
}
CHECKS['C03'] = dict(text='Bounded symbolic execution of the real literal writers (value_to_string, write_string_quoted, write_bytes, escape_string, the inline SqlWriter, '
                  'prepare_constant, ORDER BY FIELD, IN list, LIKE pattern / ESCAPE, and the schema builders at DEFAULT / CHECK / COMMENT / ENUM label / CREATE and ALTER TYPE label / partial-index positions) for every string of up to L Unicode scalar values (L=3 quick (2 at schema positions), 5 thorough), every char and every byte string '
                  '(L=2/4) on the three backends: z3 proves on every path that the emitted text is exactly one literal token of the engine (reference lexer) whose decoded content equals the value.',
             note=TRUST_M + 'Oracle: reference lexers of MySQL / PostgreSQL / SQLite literal syntax in props/lexers.py. NUL excluded for PostgreSQL/SQLite text. Known finding: U+001A is written as \\z (see known_findings.txt).',
             technique='symbolic execution of rustc MIR with z3 deciding per-path assertions against reference lexers', ref='6/C03', engine=ENGINE_M)
CHECKS['C04'] = dict(text='Bounded symbolic execution of the real identifier quoting (Iden::prepare/quoted, prepare_column_ref, prepare_table_ref, select/join/order/group renderers, Postgres enum cast) '
                  'for every identifier of up to L Unicode scalar values (L=3 quick, 3 to 5 thorough) at 78 identifier positions (SELECT, INSERT / upsert, UPDATE, DELETE, WITH, window names, CREATE / ALTER / DROP / RENAME TABLE, index, constraint, foreign-key and Postgres type names) on the three backends: z3 proves on every path that exactly one quoted-identifier '
                  'token is emitted at each occurrence, that it decodes to the supplied name, and that the rest of the statement is unchanged.',
             note=TRUST_M + 'Oracle: quoted-identifier lexers (back-tick / double quote with doubling). Positions a dialect does not have are skipped (listed in props/c04.py NOT_ON). Known findings: Postgres ALTER TYPE .. RENAME TO writes a string literal, Postgres enum column type name is written unquoted.',
             technique='symbolic execution of rustc MIR with z3 deciding per-path assertions against reference lexers', ref='6/C04', engine=ENGINE_M)
CHECKS['C11'] = dict(text='Bounded symbolic execution of the real CustomWithExpr renderer, Tokenizer, SqlWriterValues / inline writer and inject_parameters for every template of up to L Unicode scalar values '
                  '(L=4 quick on the principal combinations and 3 on all, 5 thorough) with 2 symbolic values on the three backends, in inline, parameterised and inject_parameters(build) modes: z3 proves on every path that the output equals an '
                  'independent reference substitution (placeholders outside quoted text replaced by the value they designate, doubled marks collapsed, everything else unchanged) and that the bound values are the designated ones in order.',
             note=TRUST_M + 'Oracle: reference substitution + quoted-text scanner in props/c11.py. Preconditions (documented misuse otherwise): every placeholder designates an existing value; `$<digits><word char>` and `_$` excluded as ambiguous. '
                  'Known finding: inject_parameters re-reads the literal mark produced by a doubled mark.',
             technique='symbolic execution of rustc MIR with z3 deciding per-path equality with a reference substitution', ref='6/C11', engine=ENGINE_M)
CHECKS['C05'] = dict(text='Bounded symbolic execution of the real expression renderer (prepare_simple_expr, binary_expr, the precedence and associativity deciders of the three backends, the ExprTrait encodings of BETWEEN / LIKE..ESCAPE / IN / CAST / IS NULL / NOT) '
                  'over all expression trees of depth <= 2 (19 node kinds at every operand position; depth 3 through enum casts in both tiers and over 8 core kinds in the thorough tier) in which every plain binary operator is a symbolic discriminant over 17 operators: on every feasible path the rendered text is parsed by a '
                  'reference precedence-climbing parser of the target dialect and must yield exactly the built tree (extra parentheses are accepted).',
             note=TRUST_M + 'Oracle: props/sqlparse.py - precedence levels / associativity of MySQL 8.0, PostgreSQL 16 and SQLite 3.45 from their manuals and grammar files; an operator unknown to a dialect must be fully parenthesised. Both the default build and the option-more-parentheses build are explored (own MIR dump and native replay binary each).',
             technique='symbolic execution of rustc MIR with symbolic operator discriminants; z3 decides path feasibility, a reference parser decides each path', ref='6/C05', engine=ENGINE_M)
TRUST_K = ('Trusted base: Kani 0.68 / CBMC 6.11 (cadical) over the compiled crate (path dependency on /repo, dev profile, overflow checks on); harnesses in /verif/kani/src. '
           'Every harness has a kani::cover reachability witness (vacuity guard) and runs with unwinding assertions; a failed harness is replayed natively with Kani concrete playback before a VIOLATION is reported; '
           'timeouts / OOM / non-reproducing counterexamples are INCONCLUSIVE (exit 2). ')
CHECKS['C12'] = dict(text='Kani proof harnesses decide, for the full range of every scalar type (bool, i8..i64, u8..u64, f32/f64 by bit pattern, char), Option of each, short Strings / byte vectors, every (source variant, target type) pair of the 14 default variants, tuples of every arity 1..12 (and extraction at a different arity, which must fail), and (harness crate feature `ext`) Uuid, Decimal, the chrono and time date / time types, MacAddress, IpNetwork and Vec<i32> arrays built from arbitrary inputs through their own checked constructors, '
                  'that Value::from / ValueType::try_from / Nullable::null / as_null / dummy_value / into_value_tuple / from_value_tuple round-trip exactly, fail on a foreign variant and keep arity and order. CBMC proves each assertion for every input within the stated sizes.',
             note=TRUST_K + 'Outside: serde_json::Value and BigDecimal (CBMC does not finish even the NULL round trip of these recursive / heap-backed payloads within 300 s), DateTime<Local>, pgvector, arrays of other element types, strings longer than 2.',
             technique='bounded model checking of the compiled code with Kani/CBMC (SAT) over kani::any() inputs', ref='6/C12', engine=ENGINE_K)
CHECKS['C18'] = dict(text='Kani proof harnesses over the crate built with hashable-value decide, for all values of the 14 default variants (floats by arbitrary bit pattern: every NaN payload, signed zeros, infinities), reflexivity, symmetry, per-variant transitivity, '
                  'inequality of different variants, equality of cloned payloads, the documented float semantics, and that equal values feed identical byte streams to a recording Hasher (hence equal hashes for every Hasher); likewise for ValueTuple.',
             note=TRUST_K + 'ordered-float is compiled and checked as real code. Outside: JSON key order, arrays, pgvector (other features / external crates).',
             technique='bounded model checking of the compiled code with Kani/CBMC (SAT) over kani::any() inputs', ref='6/C18', engine=ENGINE_K)
CHECKS['C06'] = dict(text='Bounded symbolic execution of the real condition machinery (Condition::add / add_option / not / to_simple_expr, ConditionHolder::add_condition, cond_where / and_where / cond_having / and_having, join conditions, CASE WHEN) and of the renderer: '
                  'the engine explores every call history (<= 2 calls quick, <= 3 thorough) and every any/all tree (depth <= 2, width <= 2..3, negated or not, empty groups, add_option(None) and add_option(Some(expression | group)) members) on SELECT WHERE/HAVING, UPDATE, DELETE, JOIN ON and CASE; '
                  'for every shape z3 proves that the re-parsed rendered predicate is equivalent under SQL three-valued logic to the AND of the supplied conditions for all TRUE/FALSE/NULL assignments of the atoms, and that no predicate is rendered when no condition was given.',
             note=TRUST_M + 'Oracle: Kleene evaluation (two solver Booleans per atom) of the specification and of the predicate read back by props/sqlparse.py. The #[doc(hidden)] and_or_where chain API is outside the property.',
             technique='symbolic execution of rustc MIR (shape forking) + one z3 validity query per shape over three-valued atom assignments', ref='6/C06', engine=ENGINE_M)
CHECKS['C10'] = dict(text='Bounded symbolic execution of the real InsertStatement builder (columns, values, values_panic, values_from_panic, select_from, or_default_values*) and of prepare_insert_statement: the engine explores every call history (<= 3 calls quick, <= 4 thorough) with column counts and row lengths 0..2 (0..3) '
                  'and symbolic cell values; on every path the outcomes of values()/select_from() (Ok iff the lengths agree, else ColValNumMismatch with both counts and an unchanged statement, compared with the crate own PartialEq) and the rendered INSERT on the three backends '
                  '(rectangular VALUES list matching the column list, rows and cells in call order by term identity, default-values form only without columns and source) are checked against a reference model.',
             note=TRUST_M + 'Oracle: spec() and parse_insert() in props/c10.py. Known finding: columns() re-declared after a source was accepted.',
             technique='symbolic execution of rustc MIR (history forking, symbolic cell values) checked against a reference model; z3 decides path feasibility and term identities', ref='6/C10', engine=ENGINE_M)
CHECKS['C15'] = dict(text='Bounded symbolic execution of SelectStatement::take / Clone / clear_selects / from_clear / reset_limit / reset_offset / clear_order_by, WindowStatement::take, and take / Clone of the seven schema statement builders (table create / alter / drop / rename / truncate, index create, foreign key create) with the crate own derived PartialEq and the three renderers: '
                  'for every subset of at most 2 (quick; 3, and all 2^16 for take, thorough) of the 16 SelectStatement fields populated, every operation and 6 follow-up changes after clone, the result is compared structurally (crate PartialEq run from MIR) and textually with independently rebuilt statements: '
                  'taken = before, left-behind = new(), clone = source and unaffected by later changes to the other copy, a clear removes exactly its clause.',
             note=TRUST_M + 'Schema statements have no PartialEq; for them equal means rendering identically on every backend that has the statement (subsets of at most 2 optional builder calls quick, all subsets thorough). Insert / Update / Delete have no take().',
             technique='symbolic execution of rustc MIR (field-subset and operation forking, symbolic payloads) with structural and textual comparison', ref='6/C15', engine=ENGINE_M)
CHECKS['C01'] = dict(text='Bounded symbolic execution of build() through the crate own SqlWriterValues and the whole prepare_* renderer of the three backends over statement families (SELECT / INSERT / UPDATE / DELETE / WITH) whose optional clauses - sub-selects in FROM / IN / UNION / CTE, VALUES lists of arity 1..4, joins, '
                  'CASE, custom templates incl. a Postgres template that reorders $2/$1, ORDER BY FIELD, NULLS emulation, LIMIT/OFFSET, window frames, upsert, RETURNING - are chosen by the engine (all combinations within each toggle group) and whose values are distinct symbolic terms: '
                  'on every path a reference scanner counts the placeholders outside quoted text (bare ? / $1..$n ascending) and a marker next to each placeholder identifies the value it stands for; z3 decides that the i-th bound value is that term and that no value is lost or duplicated.',
             note=TRUST_M + 'Oracle: scan_placeholders() / marker_of() in props/families.py. The documented MySQL NULLS FIRST/LAST emulation and ORDER BY FIELD on an expression render the expression (and its value) more than once by design.',
             technique='symbolic execution of rustc MIR (clause-combination forking, symbolic values) with term-identity assertions decided by z3', ref='6/C01', engine=ENGINE_M)
CHECKS['C02'] = dict(text='On the same families, with payloads of ten value types symbolic (full-width integers, chars, bytes, bool, NULL): z3 proves on every path that to_string() equals build() with each placeholder replaced by value_to_string() of its value (element-wise over symbolic text), '
                  'that the seven rendering entry points return the same SQL and values (also on a family with quoting-sensitive text - aliases ending in a backslash, strings holding placeholder marks, LIKE .. ESCAPE - ahead of bound values), that rendering twice gives the same result and that the statement is structurally unchanged (crate PartialEq) after rendering.',
             note=TRUST_M + 'Execution on a live engine ("return the same rows") is outside the technique; textual identity modulo literal substitution implies it. The correctness of the literal itself is C03.',
             technique='symbolic execution of rustc MIR with element-wise symbolic text equality decided by z3', ref='6/C02', engine=ENGINE_M)
CHECKS['C08'] = dict(text='Bounded symbolic execution of the whole MySQL and Postgres renderers (build and to_string) over the statement families incl. the dialect-specific toggles (ON DUPLICATE KEY UPDATE, UPDATE..JOIN..ON, VALUES ROW, index hints, NULLS emulation; DISTINCT ON, TABLESAMPLE, locking, '
                  'SEARCH/CYCLE, MATERIALIZED, ON CONFLICT .. DO UPDATE .. WHERE, RETURNING): on every path a clause-skeleton recogniser of the dialect (nested sub-selects recursively) must accept the text and recover exactly the clauses the builder was given, each once, in grammar order, items in call order, identified by the identifiers they mention.',
             note=TRUST_M + 'Oracle: props/sqlskel.py, written from the MySQL 8.0 / PostgreSQL 16 statement synopses. Clauses a dialect lacks are not requested from it. Known findings: named WINDOW clause, MySQL multi-table UPDATE, MySQL DO NOTHING without keys, MySQL OFFSET without LIMIT.',
             technique='symbolic execution of rustc MIR (clause-combination forking) with a reference clause recogniser deciding each path', ref='6/C08', engine=ENGINE_M)
CHECKS['C07'] = dict(text='STRUCTURAL PART ONLY. The C08 harness with the SQLite grammar: every SELECT / INSERT (upsert, RETURNING) / UPDATE / DELETE / WITH of the families is accepted by a recogniser of the SQLite statement grammar and the recovered clause skeleton equals the builder calls (every clause once, SQLite order, items in call order, nothing dropped), inline and parameterised. '
                  'Execution on a real SQLite engine (same rows, same table contents) cannot be decided by symbolic execution and is not claimed.',
             note=TRUST_M + 'Trusted: my reading of the SQLite railroad diagrams in props/sqlskel.py. Known findings: named WINDOW clause, LIMIT inside a compound-select member.',
             technique='symbolic execution of rustc MIR (clause-combination forking) with a reference clause recogniser deciding each path', ref='6/C07', engine=ENGINE_M)
CHECKS['C09'] = dict(text='STRUCTURAL PART ONLY. For the portable sub-families the three backends are rendered along the same symbolic path; after the documented lexical map (identifier quotes, placeholder style, set-operation parentheses, VALUES ROW, function-name substitutions, MySQL NULLS emulation) the token sequences must be identical and the bound values must be the same terms in the same order (z3 / structural equality). '
                  'Result equality on live engines and the semantic equivalence of each documented substitution are outside the technique and not claimed.',
             note=TRUST_M + 'Trusted: the lexical map in props/c09.py and the equivalence of the documented substitutions themselves.',
             technique='symbolic execution of rustc MIR on three backends per path, token-level comparison after a lexical map, term identity of bound values', ref='6/C09', engine=ENGINE_M)
CHECKS['C14'] = dict(text='Bounded symbolic execution of the MySQL and Postgres schema builders (prepare_table_create_statement, prepare_column_def / type / spec, prepare_table_alter_statement, index and foreign-key builders): the engine chooses the column type among all variants of the dialect '
                  '(lengths / precisions / scales are symbolic numbers), every duplicate-free specification sequence of length <= 2 (3 thorough), table-level indexes / foreign keys / checks / options, ALTER option sequences of length <= 2, CREATE INDEX and foreign-key variants; '
                  'on every path a DDL recogniser of the dialect must accept the text and recover exactly the declared elements in order, the type name must be the dialect type of the abstract type (synonyms accepted) with parameters preserved by term identity and unsigned-ness preserved.',
             note=TRUST_M + 'Oracle: props/ddlskel.py (DDL grammars and type tables from the MySQL 8.0 / PostgreSQL 16 manuals). Postgres type / extension statements and DROP / RENAME / TRUNCATE are checked on the concrete corpus only. Known findings: inline plain index on Postgres, MySQL Interval type.',
             technique='symbolic execution of rustc MIR (type / specification / option forking, symbolic type parameters) with a reference DDL recogniser deciding each path', ref='6/C14', engine=ENGINE_M)
CHECKS['C13'] = dict(text='STRUCTURAL PART ONLY. The C14 harness with the SQLite DDL grammar (CREATE TABLE, column constraints with PRIMARY KEY [AUTOINCREMENT] last, table constraints, ALTER TABLE single option, CREATE INDEX with partial predicate) plus the type-affinity check: for every SQLite-supported ColumnType variant with symbolic '
                  'lengths / precisions the rendered type name is fed to the documented five-rule affinity algorithm and must give the intended affinity; AUTOINCREMENT requires the name INTEGER. Execution on a real SQLite engine and catalogue introspection are outside the technique and not claimed.',
             note=TRUST_M + 'Trusted: my reading of the SQLite DDL diagrams and of "Datatypes in SQLite" 3.1 in props/ddlskel.py; the intended-affinity table. Known finding: inline plain index.',
             technique='symbolic execution of rustc MIR with a reference DDL recogniser and the SQLite affinity algorithm deciding each path', ref='6/C13', engine=ENGINE_M)
CHECKS['C19'] = dict(text='(1) Bounded symbolic execution of sea_query_derive::must_be_valid_iden (the per-type predicate that selects the generated quoting fast path; interpreted from the derive crate MIR) over every name of up to L Unicode scalar values (L=4 quick, 6 thorough): '
                  'z3 proves that an accepted name holds no identifier quote of any backend, and symbolic execution of Iden::prepare (sea-query MIR) proves that the general quoting of a name without the quote character is left + name + right, i.e. what the fast path writes. '
                  '(2) Programs cannot be made symbolic (macro expansion runs inside rustc): a generated fixture family of derive inputs (PascalCase, acronym, digit, underscore names; #[iden = ..], rename, method, flatten; unit structs; enum_def prefix / suffix / table_name) is compiled against the current /repo, '
                  'its MIR is interpreted for unquoted / prepare of every variant and compared with an independent snake_case reference and with the general quoting for both quote characters.',
             note=TRUST_M + 'Part (2) is an enumeration of a fixed family of programs decided by interpreting the generated code, not a solver verdict over all programs; stated as such. enum_def: a field variant spells the field name (fixture fields are their own snake_case).',
             technique='symbolic execution of rustc MIR (derive crate predicate + generated impls of a compiled fixture crate) with z3 deciding the per-path assertions of the predicate', ref='6/C19', engine=ENGINE_M)
NA = {'C20': 'Send + Sync of the statement / value types is a type-level fact decided by the Rust trait solver at compile time (auto traits over the field types under thread-safe); there is no input, schedule or state to make symbolic and no assertion a SAT/SMT solver could decide. '
             'A compile-time assertion (fn assert_send_sync<T: Send + Sync>()) would settle it, but that is type checking, not solver-based checking of the code, so by the rules of this task it is declined rather than claimed with another technique.'}
def load_props():
    return [json.loads(l) for l in open(os.path.join(V, 'properties.jsonl'))]
def main():
    na_default = 'check not built yet in this session (work in progress; see DESIGN.md section 6)'
    checks = []; na = []
    for p in load_props():
        pid = p['id']
        if pid in CHECKS:
            c = CHECKS[pid]
            checks.append({
                'property_id': pid,
                'quick_cmd': './check %s --tier quick' % pid,
                'thorough_cmd': './check %s --tier thorough' % pid,
                'evidence_file': '/verif/evidence/%s.json' % pid,
                'replay_cmd_template': './check %s --replay {path}' % pid,
                'engine': c['engine'],
                'level_claimed': {'category': 'model_checking', 'text': c['text'], 'design_ref': 'DESIGN.md section ' + c['ref']},
                'level_note': c['note'],
                'technique': c['technique'],
            })
        else:
            na.append({'property_id': pid, 'reason': NA.get(pid, na_default)})
    m = {
        'version': 1,
        'setup_cmd': 'cd /verif && sh tools/setup.sh',
        'hooks': {
            'guard': '--cfg seaql_sea_query_verif',
            'enable': 'no source hooks are used: the MIR engine reads private items from the compiler\'s MIR dump of /repo\'s working tree, the Kani harness crate and the replay crate use the public API through a path dependency on /repo',
            'baseline_off_cmd': 'cd /repo && cargo test --workspace --no-fail-fast --offline',
            'source_commits': [],
            'add_only': True,
        },
        'engines': [
            {'name': ENGINE_M, 'path': '/verif/engine', 'serves_properties': [k for k, c in CHECKS.items() if c['engine'] == ENGINE_M],
             'kind_free_text': 'symbolic executor for rustc MIR text (nightly -Zunpretty=mir of the current tree) with z3; harnesses in /verif/props; native replay crate in /verif/replay'},
            {'name': ENGINE_K, 'path': '/verif/kani', 'serves_properties': [k for k, c in CHECKS.items() if c['engine'] == ENGINE_K],
             'kind_free_text': 'Kani 0.68 / CBMC proof harnesses over the compiled crate (path dependency on /repo)'},
        ],
        'checks': checks,
        'notes': 'All checks rebuild their encoding from /repo\'s working tree on every run (MIR dump cached by source hash under /verif/.cache). Exit 0 = held within bounds, 1 = VIOLATION (natively reproduced), 2 = inconclusive.',
        'not_applicable': na,
    }
    json.dump(m, open(os.path.join(V, 'MANIFEST.json'), 'w'), indent=1)
if __name__ == '__main__': main()
