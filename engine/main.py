import sys, os, json, argparse, importlib, time, traceback
HERE = os.path.dirname(os.path.abspath(__file__))
sys.path.insert(0, HERE); sys.path.insert(0, os.path.dirname(HERE))
sys.setrecursionlimit(20000)
import framework
from framework import Ctx, finish, Inconclusive
from interp import Budget, Unsupported

def main():
    ap = argparse.ArgumentParser()
    ap.add_argument('pid')
    ap.add_argument('--tier', default=os.environ.get('VERIF_TIER', 'quick'))
    ap.add_argument('--replay')
    a = ap.parse_args()
    seed = int(os.environ.get('VERIF_SEED', '0') or 0)
    pid = a.pid.upper()
    mod = importlib.import_module('props.' + pid.lower())
    ctx = Ctx(pid, a.tier if a.tier in ('quick', 'thorough') else 'quick', seed)
    if a.replay:
        data = json.load(open(a.replay))
        rc = mod.replay(ctx, data)
        print('reproduces' if rc else 'does not reproduce')
        sys.exit(rc)
    # wall-clock budget of the whole check: exploration stops with INCONCLUSIVE (exit 2) instead of running on
    budget = float(os.environ.get('VERIF_BUDGET_S', '0') or 0) or (1500.0 if ctx.tier == 'quick' else 5400.0)
    os.environ['VERIF_DEADLINE'] = str(time.time() + budget)
    try:
        mod.run(ctx)
    except (Budget, Unsupported, Inconclusive) as ex:
        ctx.inconclusive.append('%s: %s' % (type(ex).__name__, ex))
    except Exception:
        ctx.inconclusive.append('framework error: ' + traceback.format_exc()[-2000:])
    rc = finish(ctx)
    st = ctx.stats
    print('%s tier=%s paths=%d steps=%d queries=%d solver=%.1fs validated=%d known=%d wall=%.1fs rc=%d' % (
        pid, ctx.tier, st.get('paths', 0), st.get('steps', 0), st.get('queries', 0), st.get('solver_s', 0.0), ctx.validated,
        len(ctx.known_hit), time.time() - ctx.t0, rc))
    if ctx.native: ctx.native.close()
    sys.exit(rc)

if __name__ == '__main__':
    main()
