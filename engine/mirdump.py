"""Dump the MIR of /repo's *current working tree* with the nightly toolchain (offline), cached by source hash.

The sources (src/, sea-query-derive/, Cargo.toml, Cargo.lock) are copied to a scratch directory outside /repo and
/verif, built there with a private target dir, and the scratch directory is removed afterwards.  The MIR text is
cached under /verif/.cache/mir/<hash>-<featkey>.mir so that the checks of one batch dump once."""
import hashlib, os, shutil, subprocess, sys, tempfile, time, fcntl

REPO = os.environ.get('VERIF_REPO', '/repo')
VERIF = os.path.dirname(os.path.dirname(os.path.abspath(__file__)))
CACHE = os.path.join(VERIF, '.cache', 'mir')
F0 = 'backend-mysql,backend-postgres,backend-sqlite'
COPY = ['src', 'sea-query-derive', 'Cargo.toml', 'Cargo.lock']

def source_hash(repo=REPO):
    h = hashlib.sha256()
    for top in COPY:
        p = os.path.join(repo, top)
        if os.path.isfile(p):
            h.update(top.encode()); h.update(open(p, 'rb').read()); continue
        for root, dirs, files in os.walk(p):
            dirs[:] = sorted(d for d in dirs if d != 'target')
            for fn in sorted(files):
                fp = os.path.join(root, fn)
                h.update(os.path.relpath(fp, repo).encode()); h.update(open(fp, 'rb').read())
    return h.hexdigest()[:20]

def copy_sources(dst, repo=REPO):
    for top in COPY:
        p = os.path.join(repo, top)
        if os.path.isfile(p): shutil.copy2(p, os.path.join(dst, top))
        else: shutil.copytree(p, os.path.join(dst, top), ignore=shutil.ignore_patterns('target'))
    # the workspace also names test/bench targets; keep cargo happy without copying them
    for d in ('tests', 'benches', 'examples'):
        sp = os.path.join(repo, d)
        if os.path.isdir(sp): shutil.copytree(sp, os.path.join(dst, d), ignore=shutil.ignore_patterns('target'))

def dump(features=F0, package=None, repo=REPO, quiet=True):
    """returns (path to MIR text, path to a kept copy of the sources used for the dump, hash)"""
    os.makedirs(CACHE, exist_ok=True)
    h = source_hash(repo)
    key = '%s-%s-%s' % (h, package or 'lib', hashlib.sha1(features.encode()).hexdigest()[:8])
    out = os.path.join(CACHE, key + '.mir')
    src = os.path.join(CACHE, h + '.src')
    lock = open(os.path.join(CACHE, '.lock'), 'w')
    fcntl.flock(lock, fcntl.LOCK_EX)
    try:
        if os.path.exists(out) and os.path.isdir(src):
            os.utime(out); os.utime(src)
            return out, src, h
        t0 = time.time()
        scratch = tempfile.mkdtemp(prefix='sqv-mir-', dir=os.environ.get('VERIF_SCRATCH', '/var/tmp'))
        try:
            copy_sources(scratch, repo)
            env = dict(os.environ, CARGO_NET_OFFLINE='true', CARGO_TARGET_DIR=os.path.join(scratch, 'target'))
            env.pop('RUSTFLAGS', None)
            cmd = ['cargo', '+nightly', 'rustc', '--offline', '--lib']
            if package: cmd += ['-p', package]
            else: cmd += ['--no-default-features', '--features', features]
            cmd += ['--', '-Zunpretty=mir', '-C', 'debug-assertions=off', '-C', 'overflow-checks=on']
            r = subprocess.run(cmd, cwd=scratch, env=env, stdout=subprocess.PIPE, stderr=subprocess.PIPE)
            if r.returncode != 0 or len(r.stdout) < 1000:
                sys.stderr.write(r.stderr.decode()[-4000:])
                raise RuntimeError('MIR dump failed (does /repo compile?)')
            with open(out + '.tmp', 'wb') as f: f.write(r.stdout)
            os.replace(out + '.tmp', out)
            if not os.path.isdir(src):
                tmp = src + '.tmp%d' % os.getpid()
                os.makedirs(tmp)
                for top in ('src', 'sea-query-derive'):
                    shutil.copytree(os.path.join(scratch, top), os.path.join(tmp, top), ignore=shutil.ignore_patterns('target'))
                os.replace(tmp, src)
        finally:
            shutil.rmtree(scratch, ignore_errors=True)
        if not quiet: sys.stderr.write('mir dump %s: %.1fs\n' % (key, time.time() - t0))
        prune()
        return out, src, h
    finally:
        fcntl.flock(lock, fcntl.LOCK_UN); lock.close()

def prune(keep=3):
    """keep only the newest `keep` source hashes"""
    ents = [e for e in os.listdir(CACHE) if e.endswith('.src')]
    ents.sort(key=lambda e: os.path.getmtime(os.path.join(CACHE, e)), reverse=True)
    live = set(e[:-4] for e in ents[:keep])
    for e in os.listdir(CACHE):
        if e.startswith('.'): continue
        if e.split('-')[0].split('.')[0] not in live:
            p = os.path.join(CACHE, e)
            shutil.rmtree(p, ignore_errors=True) if os.path.isdir(p) else os.remove(p)

if __name__ == '__main__':
    feats = sys.argv[1] if len(sys.argv) > 1 else F0
    pkg = sys.argv[2] if len(sys.argv) > 2 else None
    print(dump(feats, pkg, quiet=False))
