"""Library models (std / alloc / core) for the MIR interpreter - the trusted base.
Each model is written against the std documentation over the engine's value representation."""
import re
import z3
from mirparse import base, generic_args, split_top, strip_generics, Unsupported, INTW, SIGNED
from interp import (memo_cmp, Cell, Ref, Adt, Str, VecV, UNIT, Unit, FnItem, Iter, LazyIter, FmtArg, FmtArgs, SymEnum, deep, is_sym,
                    Panic, PathEnd)

def unref(v):
    while type(v) is Ref: v = v.cell.v
    return v

def as_str(v):
    v = unref(v)
    if type(v) is Str: return v
    if type(v) is Adt and v.ty == 'Cow': return as_str(v.fields[0].v)
    raise Unsupported('not a string: %r' % (v,))

def vec_of(v):
    v = unref(v)
    if type(v) is VecV: return v
    raise Unsupported('not a vec: %r' % (v,))

def some(v): return Adt('Option', 'Some', [Cell(v)])
def none(): return Adt('Option', 'None', [])
def ok(v): return Adt('Result', 'Ok', [Cell(v)])
def err(v): return Adt('Result', 'Err', [Cell(v)])
def tup(*xs): return Adt('tuple', None, [Cell(x) for x in xs])
def mkstr(s): return Str([ord(c) for c in s])

def zand(xs):
    ys = []
    for x in xs:
        if x is True: continue
        if x is False: return False
        if isinstance(x, bool):
            if not x: return False
            continue
        ys.append(x)
    if not ys: return True
    return z3.And(*ys) if len(ys) > 1 else ys[0]

def zor(xs):
    ys = []
    for x in xs:
        if isinstance(x, bool):
            if x: return True
            continue
        ys.append(x)
    if not ys: return False
    return z3.Or(*ys) if len(ys) > 1 else ys[0]

def znot(x): return z3.Not(x) if is_sym(x) else (not x)

def ch_eq(a, b):
    """equality of two string elements (int | BitVec32 | opaque token)"""
    ta = type(a) is tuple; tb = type(b) is tuple
    if ta or tb:
        if ta and tb: return a == b if a[0] != 'Dec' or a == b else tok_eq(a, b)
        other = b if ta else a
        tok = a if ta else b
        if tok[0] in ('Dec', 'Flt'):
            # a decimal rendering only contains digits, '-', '.', 'e', 'E', 'inf', 'NaN' letters
            if isinstance(other, int) and not (0x30 <= other <= 0x39 or other in (0x2d, 0x2e, 0x65, 0x45, 0x2b, 0x69, 0x6e, 0x66, 0x4e, 0x61)): return False
            raise Unsupported('opaque number token compared with %r' % (other,))
        return False
    if type(a) is int:
        if type(b) is int: return a == b
        return memo_cmp('Eq', b, a)
    if type(b) is int: return memo_cmp('Eq', a, b)
    return a == b

def tok_eq(a, b):
    if a == b: return True
    raise Unsupported('comparison of two different opaque tokens')

def utf8_len(e, chars):
    n = 0; sym = []
    for c in chars:
        if isinstance(c, int): n += 1 if c < 0x80 else (2 if c < 0x800 else (3 if c < 0x10000 else 4))
        elif type(c) is tuple: raise Unsupported('byte length of a string holding an opaque token')
        else: sym.append(c)
    if not sym: return n
    t = z3.BitVecVal(n, 64)
    for c in sym:
        t = t + z3.If(z3.ULT(c, 0x80), z3.BitVecVal(1, 64), z3.If(z3.ULT(c, 0x800), z3.BitVecVal(2, 64),
                 z3.If(z3.ULT(c, 0x10000), z3.BitVecVal(3, 64), z3.BitVecVal(4, 64))))
    return t

# ---------------------------------------------------------------- structural equality
def struct_eq(e, a, b):
    a = unref(a); b = unref(b)
    ta = type(a)
    if ta is Adt and type(b) is Adt:
        key = (base(a.ty), 'PartialEq', 'eq')
        f = e.impls.get(key)
        if f is not None: return e.exec_fn(f, [Ref(Cell(a)), Ref(Cell(b))])
        if a.variant != b.variant or len(a.fields) != len(b.fields): return False
        return zand([struct_eq(e, x.v, y.v) for x, y in zip(a.fields, b.fields)])
    if ta is SymEnum or type(b) is SymEnum:
        return e.discr_of(a) == e.discr_of(b)
    if ta is Str and type(b) is Str:
        if len(a.chars) != len(b.chars): return False     # NB: element count; tokens are one element each
        return zand([ch_eq(x, y) for x, y in zip(a.chars, b.chars)])
    if ta is VecV and type(b) is VecV:
        if len(a.items) != len(b.items): return False
        return zand([struct_eq(e, x.v, y.v) for x, y in zip(a.items, b.items)])
    if ta is Unit: return True
    if ta is tuple or type(b) is tuple: return ch_eq(a, b)
    if ta is Str or type(b) is Str or ta is VecV or type(b) is VecV: return False
    return a == b

def m_eq(e, c, a): return struct_eq(e, a[0], a[1])
def m_ne(e, c, a): return znot(struct_eq(e, a[0], a[1]))

# ---------------------------------------------------------------- basic
def m_ident(e, c, a): return a[0]
def m_unit(e, c, a): return UNIT
def m_string_new(e, c, a): return Str([])
def m_str_into_string(e, c, a): return Str(as_str(a[0]).chars)
def m_as_str(e, c, a): return Ref(Cell(as_str(a[0])))
def m_deref(e, c, a):
    v = a[0]
    if type(v) is Ref and type(v.cell.v) is Ref: return v.cell.v
    return v
def m_clone(e, c, a):
    v = a[0]
    if type(v) is Ref: v = v.cell.v
    if type(v) is Ref and v.kind == 'rc': return v
    return deep(v)
def m_unwrap(e, c, a):
    v = a[0]
    if type(v) is Adt and v.variant in ('Ok', 'Some'): return v.fields[0].v
    raise Panic('unwrap/expect on %r' % (v,))
def m_unwrap_or_default(e, c, a):
    v = a[0]
    if type(v) is Adt and v.variant in ('Ok', 'Some'): return v.fields[0].v
    t = re.search(r'(?:Option|Result)::<(.*)>::unwrap_or_default$', c).group(1)
    return default_of(e, split_top(t)[0])
def m_unwrap_or(e, c, a):
    v = a[0]
    if type(v) is Adt and v.variant in ('Ok', 'Some'): return v.fields[0].v
    return a[1]
def m_opt_is_some(e, c, a): return unref(a[0]).variant == 'Some'
def m_opt_is_none(e, c, a): return unref(a[0]).variant == 'None'
def m_res_is_ok(e, c, a): return unref(a[0]).variant == 'Ok'
def m_res_is_err(e, c, a): return unref(a[0]).variant == 'Err'
def m_opt_as_ref(e, c, a):
    v = unref(a[0])
    if v.variant == 'Some': return some(Ref(v.fields[0]))
    return none()
def m_opt_as_mut(e, c, a):
    v = unref(a[0])
    if v.variant == 'Some': return some(Ref(v.fields[0], True))
    return none()
def m_opt_take(e, c, a):
    cell = a[0].cell; old = cell.v; cell.v = none(); return old
def m_opt_map(e, c, a):
    v = a[0]
    if v.variant == 'Some': return some(e.call_closure(a[1], [v.fields[0].v]))
    return none()
def m_opt_and_then(e, c, a):
    v = a[0]
    if v.variant == 'Some': return e.call_closure(a[1], [v.fields[0].v])
    return none()
def m_opt_unwrap_or_else(e, c, a):
    v = a[0]
    if v.variant in ('Some', 'Ok'): return v.fields[0].v
    return e.call_closure(a[1], [] if v.variant == 'None' else [v.fields[0].v])
def m_opt_map_or(e, c, a):
    v = a[0]
    if v.variant == 'Some': return e.call_closure(a[2], [v.fields[0].v])
    return a[1]
def m_opt_ok_or(e, c, a):
    v = a[0]
    if v.variant == 'Some': return ok(v.fields[0].v)
    return err(a[1])
def m_opt_insert(e, c, a):
    cell = a[0].cell; cell.v = some(a[1]); return Ref(cell.v.fields[0], True)
def m_opt_get_or_insert_with(e, c, a):
    cell = a[0].cell
    if cell.v.variant == 'None': cell.v = some(e.call_closure(a[1], []))
    return Ref(cell.v.fields[0], True)
def m_opt_replace(e, c, a):
    cell = a[0].cell; old = cell.v; cell.v = some(a[1]); return old
def m_opt_cloned(e, c, a):
    v = a[0]
    if v.variant == 'Some': return some(clone_value(e, v.fields[0].v))
    return none()
def m_res_map_err(e, c, a):
    v = a[0]
    if v.variant == 'Err': return err(e.call_closure(a[1], [v.fields[0].v]))
    return v
def m_res_ok(e, c, a):
    v = a[0]
    return some(v.fields[0].v) if v.variant == 'Ok' else none()
def m_branch(e, c, a):
    v = a[0]
    if v.variant in ('Ok', 'Some'): return Adt('ControlFlow', 'Continue', [Cell(v.fields[0].v)])
    if v.variant == 'None': return Adt('ControlFlow', 'Break', [Cell(none())])
    return Adt('ControlFlow', 'Break', [Cell(Adt('Result', 'Err', [Cell(v.fields[0].v)]))])
def m_from_residual(e, c, a):
    return a[0]
def m_from_output(e, c, a):
    t = c
    if 'Option<' in t.split(' as ')[0]: return some(a[0])
    return ok(a[0])

def clone_value(e, v):
    """Clone::clone of the value behind a reference"""
    w = v
    if type(w) is Ref and w.kind == '&': w = w.cell.v
    if type(w) is Ref and w.kind == 'rc': return w
    return deep(w)

def default_of(e, t):
    t = t.strip()
    b = base(t)
    if b == 'Option': return none()
    if b == 'Vec': return VecV([])
    if t == 'bool': return False
    if t in INTW: return 0
    if b == 'String': return Str([])
    if t == '()': return UNIT
    f = e.impls.get((b, 'Default', 'default'))
    if f is not None: return e.exec_fn(f, [])
    raise Unsupported('default of ' + t)

def m_default(e, c, a):
    t = re.match(r'<(.*) as Default>::default$', c, re.S).group(1)
    return default_of(e, t)
def m_mem_take(e, c, a):
    t = re.match(r'std::mem::take::<(.*)>$', c, re.S).group(1)
    cell = a[0].cell; old = cell.v
    cell.v = default_of(e, t)
    return old
def m_mem_replace(e, c, a):
    cell = a[0].cell; old = cell.v; cell.v = a[1]; return old
def m_mem_swap(e, c, a):
    x = a[0].cell; y = a[1].cell; x.v, y.v = y.v, x.v; return UNIT
def m_drop(e, c, a): return UNIT
def m_box_new(e, c, a): return Ref(Cell(a[0]), True, 'box')
def m_rc_new(e, c, a): return Ref(Cell(a[0]), False, 'rc')
def m_rc_ptr_eq(e, c, a): return unref_once(a[0]).cell is unref_once(a[1]).cell
def unref_once(v):
    while type(v) is Ref and v.kind == '&': v = v.cell.v
    return v
def m_rc_deref(e, c, a):
    v = a[0]
    while type(v) is Ref and v.kind == '&': v = v.cell.v
    if type(v) is Ref: return Ref(v.cell)
    raise Unsupported('rc deref of %r' % (v,))
def m_as_ref_generic(e, c, a):
    v = a[0]
    if type(v) is Ref:
        w = v.cell.v
        if type(w) is Ref: return Ref(w.cell)
    return v

# ---------------------------------------------------------------- Vec / slices
def m_vec_new(e, c, a): return VecV([])
def m_vec_push(e, c, a): vec_of(a[0]).items.append(Cell(a[1])); return UNIT
def m_vec_pop(e, c, a):
    v = vec_of(a[0])
    if v.items: return some(v.items.pop().v)
    return none()
def m_vec_len(e, c, a): return len(vec_of(a[0]).items)
def m_vec_is_empty(e, c, a): return len(vec_of(a[0]).items) == 0
def m_vec_clear(e, c, a): vec_of(a[0]).items[:] = []; return UNIT
def m_vec_index(e, c, a):
    if type(unref(a[0])) is Str: return m_str_index(e, c, a)
    v = vec_of(a[0]); i = a[1]
    if is_sym(i):
        if not e.branch(z3.ULT(i, z3.BitVecVal(len(v.items), i.size()))): raise Panic('index out of bounds')
        i = e.concretize(i)
    if type(i) is Adt:      # ranges
        return Ref(Cell(slice_range(e, v, i)))
    if i >= len(v.items): raise Panic('index out of bounds')
    return Ref(v.items[i], a[0].mut if type(a[0]) is Ref else False)
def slice_range(e, v, r):
    n = len(v.items)
    lo, hi = range_bounds(e, r, n)
    if lo > hi or hi > n: raise Panic('slice index out of range')
    return VecV(v.items[lo:hi])
def range_bounds(e, r, n):
    t = r.ty
    f = [e.concretize(x.v) if is_sym(x.v) else x.v for x in r.fields]
    if t == 'Range': return f[0], f[1]
    if t == 'RangeFrom': return f[0], n
    if t == 'RangeTo': return 0, f[0]
    if t == 'RangeFull': return 0, n
    if t == 'RangeInclusive': return f[0], f[1] + 1
    if t == 'RangeToInclusive': return 0, f[0] + 1
    raise Unsupported('range ' + t)
def m_vec_get(e, c, a):
    v = vec_of(a[0]); i = a[1]
    if is_sym(i):
        if not e.branch(z3.ULT(i, z3.BitVecVal(len(v.items), i.size()))): return none()
        i = e.concretize(i)
    if i < len(v.items): return some(Ref(v.items[i]))
    return none()
def m_vec_first(e, c, a):
    v = vec_of(a[0])
    return some(Ref(v.items[0])) if v.items else none()
def m_vec_last(e, c, a):
    v = vec_of(a[0])
    return some(Ref(v.items[-1])) if v.items else none()
def m_vec_last_mut(e, c, a):
    v = vec_of(a[0])
    return some(Ref(v.items[-1], True)) if v.items else none()
def m_vec_append(e, c, a):
    d = vec_of(a[0]); s = vec_of(a[1]); d.items.extend(s.items); s.items = []; return UNIT
def m_vec_extend(e, c, a):
    d = vec_of(a[0])
    for x in drain_iter(e, into_iter_value(e, a[1])): d.items.append(Cell(x))
    return UNIT
def m_vec_insert(e, c, a):
    vec_of(a[0]).items.insert(a[1], Cell(a[2])); return UNIT
def m_vec_remove(e, c, a):
    v = vec_of(a[0])
    if a[1] >= len(v.items): raise Panic('remove index out of bounds')
    return v.items.pop(a[1]).v
def m_vec_truncate(e, c, a):
    v = vec_of(a[0]); del v.items[a[1]:]; return UNIT
def m_vec_as_slice(e, c, a): return Ref(Cell(vec_of(a[0]))) if type(a[0]) is not Ref else a[0]
def m_vec_deref(e, c, a): return a[0]
def m_slice_iter(e, c, a): return Iter([Ref(x) for x in vec_of(a[0]).items])
def m_slice_iter_mut(e, c, a): return Iter([Ref(x, True) for x in vec_of(a[0]).items])
def m_vec_into_iter(e, c, a): return Iter([x.v for x in vec_of(a[0]).items])
def m_slice_to_vec(e, c, a): return VecV([Cell(clone_value(e, x.v)) for x in vec_of(a[0]).items])
def m_vec_from_elem(e, c, a):
    return VecV([Cell(deep(a[0])) for _ in range(a[1])])
def m_slice_contains(e, c, a):
    v = vec_of(a[0]); x = a[1]
    return zor([struct_eq(e, it.v, x) for it in v.items])
def m_slice_join(e, c, a):
    v = vec_of(a[0]); sep = as_str(a[1]).chars; out = []
    for i, it in enumerate(v.items):
        if i: out.extend(sep)
        out.extend(as_str(it.v).chars)
    return Str(out)
def m_slice_concat(e, c, a):
    v = vec_of(a[0]); out = []
    for it in v.items: out.extend(as_str(it.v).chars)
    return Str(out)
def m_box_slice_into_vec(e, c, a): return unref(a[0])
def m_vec_into_boxed(e, c, a): return a[0]
def m_box_new_uninit(e, c, a): return Ref(Cell(None), True, 'box')
def _find_vec(v, depth=0):
    v = unref(v)
    if type(v) is VecV: return v
    if type(v) is Adt and depth < 6:
        for f in reversed(v.fields):
            r = _find_vec(f.v, depth + 1)
            if r is not None: return r
    return None
def m_box_assume_init_into_vec(e, c, a):
    r = _find_vec(a[0])
    if r is None: raise Unsupported('box_assume_init_into_vec_unsafe: no array written')
    return r
def m_range_iter(e, c, a):
    r = unref(a[0])
    lo, hi = r.fields[0].v, r.fields[1].v
    if is_sym(lo) or is_sym(hi): raise Unsupported('symbolic range')
    return Iter(list(range(lo, hi)))

# ---------------------------------------------------------------- iterators
def into_iter_value(e, v):
    """IntoIterator::into_iter by runtime value"""
    t = type(v)
    if t is Iter or t is LazyIter: return v
    if t is VecV: return Iter([x.v for x in v.items])
    if t is Ref:
        w = unref(v)
        if type(w) is VecV: return Iter([Ref(x, v.mut) for x in w.items])
        if type(w) is Adt and w.ty == 'Option': return Iter([Ref(w.fields[0])] if w.variant == 'Some' else [])
        if type(w) in (Iter, LazyIter): return w
    if t is Adt and v.ty == 'Option': return Iter([v.fields[0].v] if v.variant == 'Some' else [])
    if t is Adt and v.ty in ('Range', 'RangeInclusive'):
        lo, hi = v.fields[0].v, v.fields[1].v
        if is_sym(lo) or is_sym(hi): raise Unsupported('symbolic range')
        return Iter(list(range(lo, hi + (1 if v.ty == 'RangeInclusive' else 0))))
    if t is Adt and v.ty == 'tuple' and not v.fields: return Iter([])
    if t is Adt:
        f = e.impls.get((base(v.ty), 'IntoIterator', 'into_iter'))
        if f is not None: return e.exec_fn(f, [v])
    raise Unsupported('into_iter of %r' % (v,))

def iter_next(e, it):
    """returns (True, value) or (False, None)"""
    if type(it) is Ref: it = unref(it)
    if type(it) is Adt and it.ty in ('Range', 'RangeInclusive'):
        lo, hi = it.fields[0].v, it.fields[1].v
        if is_sym(lo) or is_sym(hi): raise Unsupported('symbolic range')
        if lo < hi + (1 if it.ty == 'RangeInclusive' else 0):
            it.fields[0].v = lo + 1; return (True, lo)
        return (False, None)
    if type(it) is Adt:
        f = e.impls.get((base(it.ty), 'Iterator', 'next'))
        if f is None: raise Unsupported('next on %r' % (it,))
        r = e.exec_fn(f, [Ref(Cell(it), True)])
        return (True, r.fields[0].v) if r.variant == 'Some' else (False, None)
    if it.peeked is not None:
        p = it.peeked; it.peeked = None
        return p
    if type(it) is Iter:
        if it.pos < len(it.seq):
            v = it.seq[it.pos]; it.pos += 1
            return (True, v)
        return (False, None)
    if type(it) is LazyIter:
        k = it.kind
        if k == 'peekable':
            return iter_next(e, it.inner)
        if k == 'map':
            okk, v = iter_next(e, it.inner)
            if not okk: return (False, None)
            return (True, e.call_closure(it.fn, [v]))
        if k == 'filter':
            while True:
                okk, v = iter_next(e, it.inner)
                if not okk: return (False, None)
                r = e.call_closure(it.fn, [Ref(Cell(v))])
                if e.branch(r): return (True, v)
        if k == 'filter_map':
            while True:
                okk, v = iter_next(e, it.inner)
                if not okk: return (False, None)
                r = e.call_closure(it.fn, [v])
                if r.variant == 'Some': return (True, r.fields[0].v)
        if k == 'enumerate':
            okk, v = iter_next(e, it.inner)
            if not okk: return (False, None)
            i = it.extra; it.extra += 1
            return (True, tup(i, v))
        if k == 'chain':
            okk, v = iter_next(e, it.inner)
            if okk: return (True, v)
            return iter_next(e, it.extra)
        if k == 'zip':
            ok1, v1 = iter_next(e, it.inner)
            if not ok1: return (False, None)
            ok2, v2 = iter_next(e, it.extra)
            if not ok2: return (False, None)
            return (True, tup(v1, v2))
        if k == 'cloned':
            okk, v = iter_next(e, it.inner)
            if not okk: return (False, None)
            return (True, clone_value(e, v))
        if k == 'skip':
            while it.extra > 0:
                it.extra -= 1
                okk, v = iter_next(e, it.inner)
                if not okk: return (False, None)
            return iter_next(e, it.inner)
        if k == 'take':
            if it.extra <= 0: return (False, None)
            it.extra -= 1
            return iter_next(e, it.inner)
        if k == 'flat_map' or k == 'flatten':
            while True:
                if it.extra is not None:
                    okk, v = iter_next(e, it.extra)
                    if okk: return (True, v)
                    it.extra = None
                okk, v = iter_next(e, it.inner)
                if not okk: return (False, None)
                it.extra = into_iter_value(e, e.call_closure(it.fn, [v]) if k == 'flat_map' else v)
        if k == 'rev':
            inner = it.inner
            if type(inner) is Iter:
                if inner.pos < len(inner.seq):
                    v = inner.seq.pop() if False else inner.seq[len(inner.seq) - 1 - it.extra]
                    if len(inner.seq) - 1 - it.extra < inner.pos: return (False, None)
                    it.extra += 1
                    return (True, v)
                return (False, None)
        raise Unsupported('lazy iterator ' + k)
    raise Unsupported('next on %r' % (it,))

def drain_iter(e, it):
    out = []
    while True:
        okk, v = iter_next(e, it)
        if not okk: return out
        out.append(v)

def m_into_iter(e, c, a): return into_iter_value(e, a[0])
def m_iter_next(e, c, a):
    okk, v = iter_next(e, a[0])
    return some(v) if okk else none()
def m_iter_peek(e, c, a):
    it = unref(a[0])
    if it.peeked is None: it.peeked = iter_next(e, it)
    okk, v = it.peeked
    return some(Ref(Cell(v))) if okk else none()
def m_iter_peekable(e, c, a): return LazyIter('peekable', a[0])
def m_iter_by_ref(e, c, a): return a[0]
def m_iter_map(e, c, a): return LazyIter('map', a[0], a[1])
def m_iter_filter(e, c, a): return LazyIter('filter', a[0], a[1])
def m_iter_filter_map(e, c, a): return LazyIter('filter_map', a[0], a[1])
def m_iter_enumerate(e, c, a): return LazyIter('enumerate', a[0], None, 0)
def m_iter_chain(e, c, a): return LazyIter('chain', a[0], None, into_iter_value(e, a[1]))
def m_iter_zip(e, c, a): return LazyIter('zip', a[0], None, into_iter_value(e, a[1]))
def m_iter_cloned(e, c, a): return LazyIter('cloned', a[0])
def m_iter_skip(e, c, a): return LazyIter('skip', a[0], None, a[1])
def m_iter_take(e, c, a): return LazyIter('take', a[0], None, a[1])
def m_iter_flat_map(e, c, a): return LazyIter('flat_map', a[0], a[1], None)
def m_iter_flatten(e, c, a): return LazyIter('flatten', a[0], None, None)
def m_iter_rev(e, c, a):
    it = a[0]
    if type(it) is Iter: return Iter(list(reversed(it.seq[it.pos:])))
    return Iter(list(reversed(drain_iter(e, it))))
def m_iter_fold(e, c, a):
    it, acc, clo = a[0], a[1], a[2]
    while True:
        okk, x = iter_next(e, it)
        if not okk: return acc
        acc = e.call_closure(clo, [acc, x])
def m_iter_for_each(e, c, a):
    it, clo = a[0], a[1]
    while True:
        okk, x = iter_next(e, it)
        if not okk: return UNIT
        e.call_closure(clo, [x])
def m_iter_all(e, c, a):
    it, clo = a[0], a[1]
    while True:
        okk, x = iter_next(e, it)
        if not okk: return True
        if not e.branch(e.call_closure(clo, [x])): return False
def m_iter_any(e, c, a):
    it, clo = a[0], a[1]
    while True:
        okk, x = iter_next(e, it)
        if not okk: return False
        if e.branch(e.call_closure(clo, [x])): return True
def m_iter_count(e, c, a): return len(drain_iter(e, a[0]))
def m_iter_last(e, c, a):
    xs = drain_iter(e, a[0])
    return some(xs[-1]) if xs else none()
def m_iter_nth(e, c, a):
    n = a[1]
    while n > 0:
        okk, _ = iter_next(e, a[0]); n -= 1
        if not okk: return none()
    okk, v = iter_next(e, a[0])
    return some(v) if okk else none()
def m_iter_position(e, c, a):
    i = 0
    while True:
        okk, x = iter_next(e, a[0])
        if not okk: return none()
        if e.branch(e.call_closure(a[1], [x])): return some(i)
        i += 1
def m_iter_find(e, c, a):
    while True:
        okk, x = iter_next(e, a[0])
        if not okk: return none()
        if e.branch(e.call_closure(a[1], [Ref(Cell(x))])): return some(x)
def m_iter_size_hint(e, c, a):
    it = unref(a[0])
    if type(it) is Iter:
        n = len(it.seq) - it.pos
        return tup(n, some(n))
    return tup(0, none())
def m_iter_len(e, c, a):
    it = unref(a[0])
    if type(it) is Iter: return len(it.seq) - it.pos
    raise Unsupported('len of lazy iterator')
def m_iter_collect(e, c, a):
    m = re.search(r'::collect::<(.*)>$', c, re.S)
    t = m.group(1) if m else 'Vec'
    xs = drain_iter(e, a[0])
    return collect_into(e, t, xs)
def collect_into(e, t, xs):
    b = base(t)
    if b == 'Vec' or b.startswith('['): return VecV([Cell(x) for x in xs])
    if b == 'String':
        out = []
        for x in xs:
            if type(x) in (Str, Ref): out.extend(as_str(x).chars)
            else: out.append(x)
        return Str(out)
    if b == 'Option':
        out = []
        for x in xs:
            if x.variant == 'None': return none()
            out.append(x.fields[0].v)
        return some(collect_into(e, generic_args(t)[0], out))
    if b == 'Result':
        out = []
        for x in xs:
            if x.variant == 'Err': return x
            out.append(x.fields[0].v)
        return ok(collect_into(e, generic_args(t)[0], out))
    if b == 'Box': return VecV([Cell(x) for x in xs])
    f = e.impls.get((b, 'FromIterator', 'from_iter'))
    if f is not None: return e.exec_fn(f, [Iter(xs)])
    raise Unsupported('collect into ' + t)
def m_from_iter(e, c, a):
    t = re.match(r'<(.*) as FromIterator<.*>>::from_iter', c, re.S).group(1)
    return collect_into(e, t, drain_iter(e, into_iter_value(e, a[0])))
def m_once(e, c, a): return Iter([a[0]])
def m_empty(e, c, a): return Iter([])
def m_repeat_n(e, c, a): return Iter([deep(a[0]) for _ in range(a[1])])

# ---------------------------------------------------------------- strings
def m_is_empty(e, c, a): return len(as_str(a[0]).chars) == 0
def m_str_len(e, c, a): return utf8_len(e, as_str(a[0]).chars)
def m_push_str(e, c, a): as_str(a[0]).chars.extend(as_str(a[1]).chars); return UNIT
def m_push_char(e, c, a): as_str(a[0]).chars.append(a[1]); return UNIT
def m_chars(e, c, a): return Iter(list(as_str(a[0]).chars), 0, 'chars')
def m_char_indices(e, c, a):
    # byte offsets: only supported for strings whose chars have concrete width
    out = []; off = 0
    for ch in as_str(a[0]).chars:
        out.append(tup(off, ch))
        off = off + utf8_len(e, [ch])
    return Iter(out)
def m_bytes(e, c, a): return Iter(utf8_bytes(e, as_str(a[0]).chars))
def m_as_bytes(e, c, a): return Ref(Cell(VecV([Cell(b) for b in utf8_bytes(e, as_str(a[0]).chars)])))
def m_into_bytes(e, c, a): return VecV([Cell(b) for b in utf8_bytes(e, as_str(a[0]).chars)])
def utf8_bytes(e, chars):
    out = []
    for ch in chars:
        if type(ch) is tuple: raise Unsupported('bytes of opaque token')
        if is_sym(ch):
            if e.branch(z3.ULT(ch, 0x80)): out.append(z3.Extract(7, 0, ch)); continue
            if e.branch(z3.ULT(ch, 0x800)):
                out.append(z3.Extract(7, 0, 0xC0 | z3.LShR(ch, 6))); out.append(z3.Extract(7, 0, 0x80 | (ch & 0x3F))); continue
            if e.branch(z3.ULT(ch, 0x10000)):
                out.append(z3.Extract(7, 0, 0xE0 | z3.LShR(ch, 12))); out.append(z3.Extract(7, 0, 0x80 | (z3.LShR(ch, 6) & 0x3F)))
                out.append(z3.Extract(7, 0, 0x80 | (ch & 0x3F))); continue
            out.append(z3.Extract(7, 0, 0xF0 | z3.LShR(ch, 18))); out.append(z3.Extract(7, 0, 0x80 | (z3.LShR(ch, 12) & 0x3F)))
            out.append(z3.Extract(7, 0, 0x80 | (z3.LShR(ch, 6) & 0x3F))); out.append(z3.Extract(7, 0, 0x80 | (ch & 0x3F)))
        else:
            out.extend(chr(ch).encode('utf-8', 'surrogatepass'))
    return out
def utf8_decode(e, bs):
    """bytes (ints / BitVec8) -> list of chars, or None if (on this path) not well-formed UTF-8 (Unicode 15 table 3-7)"""
    out = []; i = 0; n = len(bs)
    def inr(x, lo, hi):
        if is_sym(x): return e.branch(z3.And(z3.UGE(x, z3.BitVecVal(lo, 8)), z3.ULE(x, z3.BitVecVal(hi, 8))))
        return lo <= x <= hi
    def w(x): return z3.ZeroExt(24, x) if is_sym(x) else x
    ROWS = [((0xC2, 0xDF), [(0x80, 0xBF)]), ((0xE0, 0xE0), [(0xA0, 0xBF), (0x80, 0xBF)]), ((0xE1, 0xEC), [(0x80, 0xBF), (0x80, 0xBF)]),
            ((0xED, 0xED), [(0x80, 0x9F), (0x80, 0xBF)]), ((0xEE, 0xEF), [(0x80, 0xBF), (0x80, 0xBF)]),
            ((0xF0, 0xF0), [(0x90, 0xBF), (0x80, 0xBF), (0x80, 0xBF)]), ((0xF1, 0xF3), [(0x80, 0xBF), (0x80, 0xBF), (0x80, 0xBF)]),
            ((0xF4, 0xF4), [(0x80, 0x8F), (0x80, 0xBF), (0x80, 0xBF)])]
    while i < n:
        b = bs[i]
        if inr(b, 0, 0x7F): out.append(w(b)); i += 1; continue
        row = None
        for lead, conts in ROWS:
            if inr(b, lead[0], lead[1]): row = conts; break
        if row is None: return None
        k = len(row)
        if i + k > n - 1: return None
        for j, (lo, hi) in enumerate(row):
            if not inr(bs[i + 1 + j], lo, hi): return None
        mask = {1: 0x1F, 2: 0x0F, 3: 0x07}[k]
        v = w(b) & mask
        for j in range(k): v = (v << 6) | (w(bs[i + 1 + j]) & 0x3F)
        out.append(v if is_sym(v) else int(v)); i += 1 + k
    return out
def m_from_utf8(e, c, a):
    v = unref(a[0])
    bs = [x.v for x in v.items] if type(v) is VecV else None
    if bs is None: raise Unsupported('from_utf8 of %r' % (v,))
    chars = utf8_decode(e, bs)
    if chars is None: return err(Adt('Utf8Error', None, []))
    if 'String::from_utf8' in c: return ok(Str(chars))
    return ok(Ref(Cell(Str(chars))))
def m_from_utf8_lossy(e, c, a):
    v = unref(a[0]); bs = [x.v for x in v.items]
    chars = utf8_decode(e, bs)
    if chars is None: raise Unsupported('from_utf8_lossy on invalid utf8')
    return Adt('Cow', 'Borrowed', [Cell(Ref(Cell(Str(chars))))])
def m_from_utf8_unchecked(e, c, a):
    v = unref(a[0]); bs = [x.v for x in v.items]
    chars = utf8_decode(e, bs)
    if chars is None: raise Panic('from_utf8_unchecked on invalid utf8 (undefined behaviour)')
    return Ref(Cell(Str(chars)))
def m_repeat(e, c, a): return Str(as_str(a[0]).chars * a[1])
def m_char_from_u8(e, c, a):
    v = a[0]
    return z3.ZeroExt(24, v) if is_sym(v) else v
def m_u32_from_char(e, c, a): return a[0]
def m_char_from_u32(e, c, a):
    v = a[0]
    if is_sym(v):
        valid = z3.Or(z3.ULT(v, 0xD800), z3.And(z3.UGE(v, 0xE000), z3.ULE(v, 0x10FFFF)))
        return some(v) if e.branch(valid) else none()
    return some(v) if (v < 0xD800 or 0xE000 <= v <= 0x10FFFF) else none()
def m_char_to_string(e, c, a):
    v = unref(a[0])
    return Str([v])
def m_to_string(e, c, a):
    v = unref(a[0])
    if type(v) is Str: return Str(v.chars)
    if isinstance(v, int) and not isinstance(v, bool):
        t = re.match(r'<(.*) as (?:std::string::)?ToString>', c).group(1)
        if base(t) == 'char': return Str([v])
        return Str([ord(ch) for ch in str(v)])
    if is_sym(v):
        t = re.match(r'<(.*) as (?:std::string::)?ToString>', c).group(1)
        if base(t) == 'char': return Str([v])
        return Str([('Dec', v, base(t))])
    if type(v) is Adt:
        f = e.impls.get((base(v.ty), 'Display', 'fmt'))
        if f is not None:
            out = Str([])
            e.exec_fn(f, [Ref(Cell(v)), Ref(Cell(Adt('Formatter', None, [Cell(out)])), True)])
            return out
    raise Unsupported('to_string of %r' % (v,))
def char_pat(e, p):
    """char-class patterns (char, [char; N], &[char], FnMut(char) -> bool) -> predicate over one element; None for string patterns"""
    q = unref(p)
    if type(q) is Str: return None
    if type(q) is VecV:
        alts = [x.v for x in q.items]
        return lambda ch: zor([ch_eq(ch, k) for k in alts])
    if type(q) is Adt and q.ty.startswith('{closure@') or type(q) is FnItem:
        return lambda ch: e.call_closure(p, [ch])
    if isinstance(q, int) or is_sym(q): return lambda ch: ch_eq(ch, q)
    raise Unsupported('string pattern %r' % (q,))

def m_starts_with(e, c, a):
    s = as_str(a[0]).chars; p = a[1]
    if type(p) is Ref or type(p) is Str:
        pc = as_str(p).chars
        if len(pc) > len(s): return False
        return zand([ch_eq(x, y) for x, y in zip(s, pc)])
    if not s: return False
    return ch_eq(s[0], p)
def m_ends_with(e, c, a):
    s = as_str(a[0]).chars; p = a[1]
    if type(p) is Ref or type(p) is Str:
        pc = as_str(p).chars
        if len(pc) > len(s): return False
        if not pc: return True
        return zand([ch_eq(x, y) for x, y in zip(s[-len(pc):], pc)])
    if not s: return False
    return ch_eq(s[-1], p)
def m_str_contains(e, c, a):
    s = as_str(a[0]).chars; p = a[1]
    cp = char_pat(e, p)
    if cp is None:
        pc = as_str(p).chars; n = len(pc)
        return zor([zand([ch_eq(s[i+k], pc[k]) for k in range(n)]) for i in range(len(s) - n + 1)])
    return zor([cp(x) for x in s])
def m_replace_char(e, c, a):
    s = as_str(a[0]).chars; pat = a[1]; to = as_str(a[2]).chars
    out = []
    for ch in s:
        if e.branch(ch_eq(ch, pat)): out.extend(to)
        else: out.append(ch)
    return Str(out)
def m_replace_str(e, c, a):
    s = as_str(a[0]).chars; pat = as_str(a[1]).chars; to = as_str(a[2]).chars
    out = []; i = 0; n = len(pat)
    if n == 0: raise Unsupported('replace with empty pattern')
    while i < len(s):
        if i + n <= len(s):
            if e.branch(zand([ch_eq(s[i+k], pat[k]) for k in range(n)])):
                out.extend(to); i += n; continue
        out.append(s[i]); i += 1
    return Str(out)
def m_str_find_char(e, c, a):
    s = as_str(a[0]).chars; p = a[1]
    cp = char_pat(e, p)
    if cp is None: raise Unsupported('str::find with a string pattern')
    off = 0
    for ch in s:
        if e.branch(cp(ch)): return some(off)
        off = off + utf8_len(e, [ch])
    return none()
def m_str_split_char(e, c, a):
    s = as_str(a[0]).chars; p = a[1]
    if type(p) in (Ref, Str):
        pc = as_str(p).chars
        if len(pc) != 1: raise Unsupported('split on multi-char pattern')
        p = pc[0]
    parts = [[]]
    for ch in s:
        if e.branch(ch_eq(ch, p)): parts.append([])
        else: parts[-1].append(ch)
    return Iter([Ref(Cell(Str(x))) for x in parts])
def m_str_trim(e, c, a):
    s = list(as_str(a[0]).chars)
    def ws(ch):
        if type(ch) is tuple: return False
        if is_sym(ch): return z3.Or(ch == 0x20, z3.And(z3.UGE(ch, 9), z3.ULE(ch, 13)))     # ASCII whitespace only (stated)
        return ch in (0x20, 9, 10, 11, 12, 13)
    while s and e.branch(ws(s[0])): s.pop(0)
    while s and e.branch(ws(s[-1])): s.pop()
    return Ref(Cell(Str(s)))
def m_str_to_case(lower):
    def f(e, c, a):
        out = []
        for ch in as_str(a[0]).chars:
            if isinstance(ch, int):
                out.extend(ord(x) for x in (chr(ch).lower() if lower else chr(ch).upper()))
            else: raise Unsupported('case mapping of symbolic char')
        return Str(out)
    f.__name__ = 'm_str_to_lowercase' if lower else 'm_str_to_uppercase'
    return f
def m_str_index(e, c, a):
    s = as_str(a[0]); r = a[1]
    # byte ranges: only on strings with concrete-width chars, converted to char positions
    widths = []
    for ch in s.chars:
        w = utf8_len(e, [ch])
        if is_sym(w): w = e.concretize(w)
        widths.append(w)
    n = sum(widths)
    lo, hi = range_bounds(e, r, n)
    def pos(b):
        acc = 0
        for i, w in enumerate(widths):
            if acc == b: return i
            acc += w
        if acc == b: return len(widths)
        raise Panic('byte index is not a char boundary')
    if lo > hi or hi > n: raise Panic('str slice out of range')
    return Ref(Cell(Str(s.chars[pos(lo):pos(hi)])))
def m_str_parse(e, c, a):
    s = as_str(a[0]).chars
    t = re.search(r'::parse::<(.*)>$', c).group(1)
    if t in INTW:
        if all(isinstance(ch, int) for ch in s):
            txt = ''.join(chr(ch) for ch in s)
            try:
                if not re.match(r'^[+-]?\d+$', txt): raise ValueError
                v = int(txt)
                w = INTW[t]
                lo, hi = (-(1 << (w-1)), (1 << (w-1)) - 1) if t in SIGNED else (0, (1 << w) - 1)
                if txt.startswith('-') and t not in SIGNED: raise ValueError
                if not lo <= v <= hi: raise ValueError
                return ok(v)
            except ValueError:
                return err(Adt('ParseIntError', None, []))
        # symbolic digits: decide digit-ness per char by forking, build the value symbolically
        if not s: return err(Adt('ParseIntError', None, []))
        w = INTW[t]
        if len(s) > 9: raise Unsupported('parse of long symbolic digit string')
        acc = z3.BitVecVal(0, w)
        first = True
        for ch in s:
            if type(ch) is tuple: raise Unsupported('parse of opaque token')
            chv = ch if is_sym(ch) else z3.BitVecVal(ch, 32)
            if first and len(s) > 1 and e.branch(chv == 0x2b): first = False; continue
            if first and len(s) > 1 and t in SIGNED and e.branch(chv == 0x2d): raise Unsupported('parse of negative symbolic number')
            first = False
            isd = z3.And(z3.UGE(chv, 0x30), z3.ULE(chv, 0x39))
            if not e.branch(isd): return err(Adt('ParseIntError', None, []))
            d = z3.Extract(w-1, 0, chv - 0x30) if w <= 32 else z3.ZeroExt(w - 32, chv - 0x30)
            acc = acc * 10 + d
        return ok(acc)
    raise Unsupported('parse::<%s>' % t)
def m_string_from(e, c, a): return Str(as_str(a[0]).chars)
def m_string_truncate(e, c, a):
    s = as_str(a[0]); del s.chars[a[1]:]; return UNIT
def m_string_pop(e, c, a):
    s = as_str(a[0])
    return some(s.chars.pop()) if s.chars else none()
def m_string_clear(e, c, a): as_str(a[0]).chars[:] = []; return UNIT
def byte_to_char_index(e, chars, b):
    """char position of byte offset b (forks on the UTF-8 width of symbolic chars); Panic if not on a boundary"""
    if is_sym(b): b = e.concretize(b)
    acc = 0
    for i, ch in enumerate(chars):
        if acc == b: return i
        w = utf8_len(e, [ch])
        if is_sym(w): w = e.concretize(w)
        acc += w
        if acc > b: raise Panic('byte index %d is not a char boundary' % b)
    if acc == b: return len(chars)
    raise Panic('byte index %d out of bounds' % b)
def m_string_insert_str(e, c, a):
    s = as_str(a[0]); i = byte_to_char_index(e, s.chars, a[1])
    s.chars[i:i] = as_str(a[2]).chars; return UNIT
def m_string_insert(e, c, a):
    s = as_str(a[0]); i = byte_to_char_index(e, s.chars, a[1])
    s.chars.insert(i, a[2]); return UNIT
def m_cow_deref(e, c, a):
    v = unref(a[0])
    if type(v) is Adt and v.ty == 'Cow':
        inner = v.fields[0].v
        return inner if type(inner) is Ref else Ref(v.fields[0])
    return a[0]
def m_cow_into_owned(e, c, a):
    v = a[0]
    inner = v.fields[0].v
    if type(inner) is Ref: return deep(unref(inner))
    return inner

ALPHA = z3.Function('unicode_alphabetic', z3.BitVecSort(32), z3.BoolSort())
ALNUM_N = z3.Function('unicode_numeric', z3.BitVecSort(32), z3.BoolSort())
WS = z3.Function('unicode_white_space', z3.BitVecSort(32), z3.BoolSort())
_PRED_MEMO = {}
def _memo_pred(fn):
    def g(e, c, a):
        x = unref(a[0])
        if is_sym(x):
            k = (fn.__name__, id(x))
            r = _PRED_MEMO.get(k)
            if r is None:
                if len(_PRED_MEMO) > 100000: _PRED_MEMO.clear()
                r = (x, fn(e, c, [x])); _PRED_MEMO[k] = r
            return r[1]
        return fn(e, c, [x])
    g.__name__ = fn.__name__
    return g
@_memo_pred
def m_is_alphabetic(e, c, a):
    x = unref(a[0])
    if not is_sym(x):
        if x < 0x80: return (0x41 <= x <= 0x5a) or (0x61 <= x <= 0x7a)
        x = z3.BitVecVal(x, 32)
    asc = z3.Or(z3.And(z3.UGE(x, 0x61), z3.ULE(x, 0x7a)), z3.And(z3.UGE(x, 0x41), z3.ULE(x, 0x5a)))
    return z3.Or(asc, z3.And(z3.UGT(x, 0x7f), ALPHA(x)))
@_memo_pred
def m_is_alphanumeric(e, c, a):
    x = unref(a[0])
    if not is_sym(x):
        if x < 0x80: return (0x41 <= x <= 0x5a) or (0x61 <= x <= 0x7a) or (0x30 <= x <= 0x39)
        x = z3.BitVecVal(x, 32)
    asc = z3.Or(z3.And(z3.UGE(x, 0x61), z3.ULE(x, 0x7a)), z3.And(z3.UGE(x, 0x41), z3.ULE(x, 0x5a)), z3.And(z3.UGE(x, 0x30), z3.ULE(x, 0x39)))
    return z3.Or(asc, z3.And(z3.UGT(x, 0x7f), z3.Or(ALPHA(x), ALNUM_N(x))))
@_memo_pred
def m_is_whitespace(e, c, a):
    x = unref(a[0])
    if not is_sym(x):
        if x < 0x80: return x == 0x20 or 9 <= x <= 13
        x = z3.BitVecVal(x, 32)
    asc = z3.Or(x == 0x20, z3.And(z3.UGE(x, 9), z3.ULE(x, 13)))
    return z3.Or(asc, z3.And(z3.UGT(x, 0x7f), WS(x)))
def _ascii_pred(name, ranges):
    def f(e, c, a):
        x = unref(a[0])
        if not is_sym(x): return any(lo <= x <= hi for lo, hi in ranges)
        w = x.size()
        return z3.Or(*[z3.And(z3.UGE(x, z3.BitVecVal(lo, w)), z3.ULE(x, z3.BitVecVal(hi, w))) for lo, hi in ranges])
    f.__name__ = name
    return _memo_pred(f)
m_is_ascii_digit = _ascii_pred('m_is_ascii_digit', [(0x30, 0x39)])
m_is_ascii_alphabetic = _ascii_pred('m_is_ascii_alphabetic', [(0x41, 0x5a), (0x61, 0x7a)])
m_is_ascii_alphanumeric = _ascii_pred('m_is_ascii_alphanumeric', [(0x30, 0x39), (0x41, 0x5a), (0x61, 0x7a)])
m_is_ascii_uppercase = _ascii_pred('m_is_ascii_uppercase', [(0x41, 0x5a)])
m_is_ascii_lowercase = _ascii_pred('m_is_ascii_lowercase', [(0x61, 0x7a)])
m_is_ascii_whitespace = _ascii_pred('m_is_ascii_whitespace', [(0x20, 0x20), (9, 10), (12, 13)])
m_is_ascii = _ascii_pred('m_is_ascii', [(0, 0x7f)])
m_is_ascii_punctuation = _ascii_pred('m_is_ascii_punctuation', [(0x21, 0x2f), (0x3a, 0x40), (0x5b, 0x60), (0x7b, 0x7e)])
def m_char_is_digit(e, c, a):
    x = a[0]; radix = a[1]
    if radix != 10: raise Unsupported('is_digit radix')
    return m_is_ascii_digit(e, c, [x])

# ---------------------------------------------------------------- fmt
def m_new_display(e, c, a):
    return FmtArg('display', a[0], re.search(r'new_display::<(.*)>$', c, re.S).group(1))
def m_new_debug(e, c, a):
    return FmtArg('debug', a[0], re.search(r'new_debug::<(.*)>$', c, re.S).group(1))
def m_new_upper_hex(e, c, a):
    return FmtArg('upper_hex', a[0], re.search(r'new_upper_hex::<(.*)>$', c, re.S).group(1))
def m_new_lower_hex(e, c, a):
    return FmtArg('lower_hex', a[0], re.search(r'new_lower_hex::<(.*)>$', c, re.S).group(1))
def m_args_new(e, c, a):
    tmpl = unref(a[0])
    t = [x.v for x in tmpl.items] if type(tmpl) is VecV else utf8_or_bytes(tmpl)
    return FmtArgs(t, [x.v for x in unref(a[1]).items])
def utf8_or_bytes(s):
    return list(s.chars)
def m_args_from_str(e, c, a): return FmtArgs(None, [as_str(a[0])])

def hexdigit(e, nib, upper):
    """nib: 4-bit value as BitVec32/int -> char"""
    if is_sym(nib):
        return z3.If(z3.ULT(nib, 10), nib + 0x30, nib + (0x41 - 10 if upper else 0x61 - 10))
    return nib + 0x30 if nib < 10 else nib + (0x41 - 10 if upper else 0x61 - 10)

def fmt_one(e, arg, spec=None):
    """render one fmt argument to a list of string elements"""
    v = unref(arg.ref)
    tb = base(arg.ty)
    if arg.kind in ('upper_hex', 'lower_hex'):
        upper = arg.kind == 'upper_hex'
        width = spec.get('width', 0) if spec else 0
        w = INTW.get(tb, 32)
        nd = max(width, 1)
        if is_sym(v):
            vv = z3.ZeroExt(32 - w, v) if w < 32 else v
            maxd = w // 4
            # number of significant hex digits: fork on the magnitude
            nd = maxd
            for d in range(1, maxd):
                if e.branch(z3.ULT(vv, z3.BitVecVal(1 << (4 * d), vv.size()))): nd = d; break
            digits = [hexdigit(e, z3.LShR(vv, 4 * (nd - 1 - i)) & 0xF, upper) for i in range(nd)]
            pad = max(width - nd, 0)
            fill = 0x30 if (spec and spec.get('zero')) else (spec.get('fill', 0x20) if spec else 0x20)
            return [fill] * pad + digits
        s = ('%X' if upper else '%x') % (v & ((1 << w) - 1))
        if spec and spec.get('zero'): s = s.rjust(width, '0')
        else: s = s.rjust(width, ' ')
        return [ord(ch) for ch in s]
    if arg.kind == 'debug':
        if type(v) is Str: raise Unsupported('debug formatting of str')
    if type(v) is Str: return list(v.chars)
    if type(v) is bool: return [ord(ch) for ch in ('true' if v else 'false')]
    if tb == 'char': return [v]
    if tb in INTW:
        if isinstance(v, int): return [ord(ch) for ch in str(v)]
        return [('Dec', v, tb)]
    if tb in ('f32', 'f64'):
        return [('Flt', v, tb)]
    if tb == 'bool' and is_sym(v):
        return [('Bool', v)]
    if type(v) is tuple: return [v]
    if type(v) is Adt or type(v) is SymEnum:
        if type(v) is Adt and v.ty == 'Cow': return list(as_str(v).chars)
        tn = base(v.ty)
        f = e.impls.get((tn, 'Display' if arg.kind == 'display' else 'Debug', 'fmt'))
        if f is not None:
            out = Str([])
            e.exec_fn(f, [Ref(Cell(v)), Ref(Cell(Adt('Formatter', None, [Cell(out)])), True)])
            return out.chars
        if type(v) is Adt and v.ty == 'FmtArgsV': return render_args(e, v.fields[0].v)
    if isinstance(v, FmtArgs): return render_args(e, v)
    raise Unsupported('display of %r (%s)' % (v, arg.ty))

def render_args(e, fa):
    if fa.template is None: return list(fa.args[0].chars)
    out = []; t = fa.template; i = 0; argi = 0; n = len(t)
    while i < n:
        b = t[i]
        if b == 0: break
        if b < 0x80:
            out.extend(t[i+1:i+1+b]); i += 1 + b
        elif b == 0x80:
            ln = t[i+1] | (t[i+2] << 8); out.extend(t[i+3:i+3+ln]); i += 3 + ln
        elif b == 0xc0:
            out.extend(fmt_one(e, fa.args[argi])); argi += 1; i += 1
        elif b & 0xc0 == 0xc0:
            # placeholder with options: bit0 flags(u32), bit1 width(u16), bit2 precision(u16), bit3 arg index(u16)
            opts = b & 0x3f; i += 1
            spec = {}
            if opts & 1:
                flags = t[i] | (t[i+1] << 8) | (t[i+2] << 16) | (t[i+3] << 24); i += 4
                spec['flags'] = flags
                spec['zero'] = bool(flags & (1 << 24))
                spec['fill'] = flags & 0x1fffff
            if opts & 2:
                spec['width'] = t[i] | (t[i+1] << 8); i += 2
            if opts & 4:
                spec['precision'] = t[i] | (t[i+1] << 8); i += 2
            if opts & 8:
                argi = t[i] | (t[i+1] << 8); i += 2
            if opts & ~0xf: raise Unsupported('fmt template option bits %#x' % b)
            out.extend(fmt_one(e, fa.args[argi], spec)); argi += 1
        else:
            raise Unsupported('fmt template opcode %#x' % b)
    return out

def writer_target(e, w):
    """the Str a fmt::Write receiver appends to, or None when the writer is a crate type (dispatch to its MIR)"""
    v = unref(w)
    if type(v) is Str: return v
    if type(v) is Adt and v.ty == 'Formatter': return v.fields[0].v
    return None

def m_write_fmt(e, c, a):
    chars = render_args(e, a[1])
    return write_chars(e, a[0], chars)
def write_chars(e, w, chars):
    tgt = writer_target(e, w)
    if tgt is not None:
        tgt.chars.extend(chars); return ok(UNIT)
    v = unref(w)
    if type(v) is Adt:
        f = e.impls.get((base(v.ty), 'Write', 'write_str'))
        if f is not None:
            return e.exec_fn(f, [w if type(w) is Ref else Ref(Cell(v), True), Ref(Cell(Str(chars)))])
    raise Unsupported('write to %r' % (v,))
def m_write_str(e, c, a): return write_chars(e, a[0], list(as_str(a[1]).chars))
def m_write_char(e, c, a): return write_chars(e, a[0], [a[1]])
def m_format(e, c, a): return Str(render_args(e, a[0]))
def m_must_use(e, c, a): return a[0]
def m_args_as_str(e, c, a):
    fa = a[0]
    if fa.template is None: return some(Ref(Cell(Str(fa.args[0].chars))))
    return none()
def m_panic_fmt(e, c, a):
    try: msg = ''.join(chr(x) if isinstance(x, int) else '?' for x in render_args(e, a[0]))
    except Exception: msg = '<unrenderable>'
    raise Panic('panic: ' + msg)
def m_panic(e, c, a):
    try: msg = ''.join(chr(x) if isinstance(x, int) else '?' for x in as_str(a[0]).chars)
    except Exception: msg = ''
    raise Panic('panic: ' + msg)
def m_unreachable(e, c, a): raise Panic('unreachable!()')
def m_display_fmt_str(e, c, a):
    return write_chars(e, a[1], list(as_str(a[0]).chars))
def m_display_fmt_generic(e, c, a):
    v = unref(a[0])
    t = re.match(r'<(.*) as (?:std::fmt::)?(Display|Debug)>::fmt$', c, re.S)
    arg = FmtArg('display' if t.group(2) == 'Display' else 'debug', a[0], t.group(1))
    return write_chars(e, a[1], fmt_one(e, arg))
def m_formatter_write_fmt(e, c, a): return write_chars(e, a[0], render_args(e, a[1]))
def m_formatter_pad(e, c, a): return write_chars(e, a[0], list(as_str(a[1]).chars))

# dyn SqlWriter helpers: dispatch to the crate's impls by runtime type (String is a crate impl too)
def m_call_closure(e, c, a):
    clo = a[0]
    args = a[1]
    argv = [x.v for x in args.fields] if type(args) is Adt else []
    return e.call_closure(clo, argv)

# ---------------------------------------------------------------- integers
def m_checked(op):
    def f(e, c, a):
        t = re.search(r'<impl (\w+)>', c).group(1)
        r = e.binop(op + 'WithOverflow', a[0], a[1], t)
        v, ov = r.fields[0].v, r.fields[1].v
        if e.branch(ov): return none()
        return some(v)
    f.__name__ = 'm_checked_' + op.lower()
    return f
def m_wrapping(op):
    def f(e, c, a):
        t = re.search(r'<impl (\w+)>', c).group(1)
        return e.binop(op, a[0], a[1], t)
    f.__name__ = 'm_wrapping_' + op.lower()
    return f
def m_saturating_sub(e, c, a):
    t = re.search(r'<impl (\w+)>', c).group(1)
    x, y = a
    if is_sym(x) or is_sym(y):
        if t in SIGNED: raise Unsupported('signed saturating_sub')
        xx = x if is_sym(x) else z3.BitVecVal(x, y.size()); yy = y if is_sym(y) else z3.BitVecVal(y, x.size())
        return z3.If(z3.ULT(xx, yy), z3.BitVecVal(0, xx.size()), xx - yy)
    return max(x - y, 0) if t not in SIGNED else e.wrap(x - y, t)
def m_int_max(e, c, a):
    x, y = a
    if is_sym(x) or is_sym(y): raise Unsupported('symbolic max')
    return max(x, y)
def m_int_min(e, c, a):
    x, y = a
    if is_sym(x) or is_sym(y): raise Unsupported('symbolic min')
    return min(x, y)
def _cmp_ty(c):
    m = re.match(r'<&*(\w+) as PartialOrd', c)
    return m.group(1) if m else 'u64'
def m_ord_cmp(e, c, a):
    x = unref(a[0]); y = unref(a[1])
    if is_sym(x) or is_sym(y): raise Unsupported('symbolic cmp')
    return Adt('Ordering', 'Less' if x < y else ('Equal' if x == y else 'Greater'), [])
def m_int_from(e, c, a):
    m = re.match(r'<(\w+) as From<(\w+)>>::from$', c)
    return e.cast(a[0], m.group(1), 'IntToInt', m.group(2))
def m_try_from_int(e, c, a):
    m = re.match(r'<(\w+) as TryFrom<(\w+)>>::try_from$', c)
    tgt, src = m.group(1), m.group(2)
    v = a[0]
    if is_sym(v): raise Unsupported('symbolic try_from')
    w = INTW[tgt]
    lo, hi = (-(1 << (w-1)), (1 << (w-1)) - 1) if tgt in SIGNED else (0, (1 << w) - 1)
    return ok(v) if lo <= v <= hi else err(Adt('TryFromIntError', None, []))

def into_model(src, tgt):
    if src in INTW and tgt in INTW:
        def f(e, c, a): return e.cast(a[0], tgt, 'IntToInt', src)
        f.__name__ = 'm_int_into'
        return f
    if tgt == 'Cow' and src in ('str', 'String'):
        def g(e, c, a):
            v = a[0]
            return Adt('Cow', 'Borrowed' if type(v) is Ref else 'Owned', [Cell(v)])
        g.__name__ = 'm_into_cow'
        return g
    if tgt == 'Box' or tgt == 'Rc' or tgt == 'Arc':
        def h(e, c, a): return Ref(Cell(a[0]), True, 'box' if tgt == 'Box' else 'rc')
        h.__name__ = 'm_into_box'
        return h
    if tgt == 'Vec' and src in ('Vec', None): return m_ident
    if tgt == 'Option':
        def o(e, c, a): return some(a[0])
        o.__name__ = 'm_into_option'
        return o
    return None

def const_model(c):
    m = re.match(r'(?:core::num::<impl )?(\w+)>?::(MAX|MIN)$', strip_generics(c))
    if m and m.group(1) in INTW:
        w = INTW[m.group(1)]; s = m.group(1) in SIGNED
        if m.group(2) == 'MAX': return (1 << (w - 1)) - 1 if s else (1 << w) - 1
        return -(1 << (w - 1)) if s else 0
    return None


# ---------------------------------------------------------------- more Option / Result / bool / iterator / str models
def m_opt_filter(e, c, a):
    v = a[0]
    if v.variant == 'Some' and e.branch(e.call_closure(a[1], [Ref(v.fields[0])])): return v
    return none()
def m_opt_or(e, c, a): return a[0] if a[0].variant == 'Some' else a[1]
def m_opt_or_else(e, c, a): return a[0] if a[0].variant in ('Some', 'Ok') else e.call_closure(a[1], [] if a[0].variant == 'None' else [a[0].fields[0].v])
def m_opt_and(e, c, a): return a[1] if a[0].variant == 'Some' else none()
def m_opt_xor(e, c, a):
    x, y = a
    if x.variant == 'Some' and y.variant == 'None': return x
    if x.variant == 'None' and y.variant == 'Some': return y
    return none()
def m_opt_zip(e, c, a):
    x, y = a
    if x.variant == 'Some' and y.variant == 'Some': return some(tup(x.fields[0].v, y.fields[0].v))
    return none()
def m_opt_is_some_and(e, c, a):
    v = a[0]
    if v.variant in ('Some', 'Ok'): return e.call_closure(a[1], [v.fields[0].v])
    return False
def m_opt_is_none_or(e, c, a):
    v = a[0]
    if v.variant == 'Some': return e.call_closure(a[1], [v.fields[0].v])
    return True
def m_opt_map_or_else(e, c, a):
    v = a[0]
    if v.variant in ('Some', 'Ok'): return e.call_closure(a[2], [v.fields[0].v])
    return e.call_closure(a[1], [] if v.variant == 'None' else [v.fields[0].v])
def m_opt_ok_or_else(e, c, a):
    v = a[0]
    if v.variant == 'Some': return ok(v.fields[0].v)
    return err(e.call_closure(a[1], []))
def m_opt_get_or_insert(e, c, a):
    cell = a[0].cell
    if cell.v.variant == 'None': cell.v = some(a[1])
    return Ref(cell.v.fields[0], True)
def m_opt_take_if(e, c, a):
    cell = a[0].cell; v = cell.v
    if v.variant == 'Some' and e.branch(e.call_closure(a[1], [Ref(v.fields[0], True)])):
        cell.v = none(); return v
    return none()
def m_opt_inspect(e, c, a):
    v = a[0]
    if v.variant in ('Some', 'Ok'): e.call_closure(a[1], [Ref(v.fields[0])])
    return v
def m_res_and_then(e, c, a):
    v = a[0]
    if v.variant == 'Ok': return e.call_closure(a[1], [v.fields[0].v])
    return v
def m_res_unwrap_err(e, c, a):
    v = a[0]
    if v.variant == 'Err': return v.fields[0].v
    raise Panic('unwrap_err on Ok')
def m_res_err(e, c, a):
    v = a[0]
    return some(v.fields[0].v) if v.variant == 'Err' else none()
def m_bool_then(e, c, a):
    if e.branch(a[0]): return some(e.call_closure(a[1], []))
    return none()
def m_bool_then_some(e, c, a):
    if e.branch(a[0]): return some(a[1])
    return none()
def m_iter_sum(e, c, a):
    acc = 0
    for x in drain_iter(e, a[0]): acc = acc + unref(x)
    return acc
def m_iter_min_max(want_max):
    def f(e, c, a):
        xs = [unref(x) for x in drain_iter(e, a[0])]
        if not xs: return none()
        if any(is_sym(x) for x in xs): raise Unsupported('min/max over symbolic values')
        return some(max(xs) if want_max else min(xs))
    f.__name__ = 'm_iter_max' if want_max else 'm_iter_min'
    return f
def m_iter_take_while(e, c, a):
    out = []
    while True:
        okk, x = iter_next(e, a[0])
        if not okk or not e.branch(e.call_closure(a[1], [Ref(Cell(x))])): break
        out.append(x)
    return Iter(out)
def m_iter_skip_while(e, c, a):
    xs = drain_iter(e, a[0]); i = 0
    while i < len(xs) and e.branch(e.call_closure(a[1], [Ref(Cell(xs[i]))])): i += 1
    return Iter(xs[i:])
def m_iter_step_by(e, c, a): return Iter(drain_iter(e, a[0])[::a[1]])
def m_iter_unzip(e, c, a):
    xs = drain_iter(e, a[0])
    return tup(VecV([Cell(x.fields[0].v) for x in xs]), VecV([Cell(x.fields[1].v) for x in xs]))
def m_iter_partition(e, c, a):
    yes = []; no = []
    for x in drain_iter(e, a[0]):
        (yes if e.branch(e.call_closure(a[1], [Ref(Cell(x))])) else no).append(x)
    return tup(VecV([Cell(x) for x in yes]), VecV([Cell(x) for x in no]))
def m_iter_find_map(e, c, a):
    while True:
        okk, x = iter_next(e, a[0])
        if not okk: return none()
        r = e.call_closure(a[1], [x])
        if r.variant == 'Some': return r
def m_iter_map_while(e, c, a):
    out = []
    while True:
        okk, x = iter_next(e, a[0])
        if not okk: break
        r = e.call_closure(a[1], [x])
        if r.variant == 'None': break
        out.append(r.fields[0].v)
    return Iter(out)
def m_iter_inspect(e, c, a): return a[0]
def m_iter_try_fold_like(e, c, a): raise Unsupported('try_fold')
def m_vec_retain(e, c, a):
    v = vec_of(a[0]); v.items[:] = [it for it in v.items if e.branch(e.call_closure(a[1], [Ref(it)]))]; return UNIT
def m_vec_drain_all(e, c, a):
    v = vec_of(a[0]); r = a[1] if len(a) > 1 else None
    lo, hi = (0, len(v.items)) if r is None or type(r) is not Adt else range_bounds(e, r, len(v.items))
    out = [x.v for x in v.items[lo:hi]]; del v.items[lo:hi]
    return Iter(out)
def m_vec_split_first(e, c, a):
    v = vec_of(a[0])
    if not v.items: return none()
    return some(tup(Ref(v.items[0]), Ref(Cell(VecV(v.items[1:])))))
def m_vec_split_last(e, c, a):
    v = vec_of(a[0])
    if not v.items: return none()
    return some(tup(Ref(v.items[-1]), Ref(Cell(VecV(v.items[:-1])))))
def m_vec_swap(e, c, a):
    v = vec_of(a[0]); i, j = a[1], a[2]; v.items[i], v.items[j] = v.items[j], v.items[i]; return UNIT
def m_vec_reverse(e, c, a): vec_of(a[0]).items.reverse(); return UNIT
def m_vec_dedup(e, c, a):
    v = vec_of(a[0]); out = []
    for it in v.items:
        if out and e.branch(struct_eq(e, out[-1].v, it.v)): continue
        out.append(it)
    v.items[:] = out; return UNIT
def m_vec_starts_with(e, c, a):
    v = vec_of(a[0]); p = vec_of(a[1])
    if len(p.items) > len(v.items): return False
    return zand([struct_eq(e, x.v, y.v) for x, y in zip(v.items, p.items)])
def m_str_strip_prefix(e, c, a):
    s = as_str(a[0]).chars; p = a[1]
    cp = char_pat(e, p)
    if cp is None:
        pc = as_str(p).chars
        if len(pc) <= len(s) and e.branch(zand([ch_eq(x, y) for x, y in zip(s, pc)])): return some(Ref(Cell(Str(s[len(pc):]))))
        return none()
    if s and e.branch(cp(s[0])): return some(Ref(Cell(Str(s[1:]))))
    return none()
def m_str_strip_suffix(e, c, a):
    s = as_str(a[0]).chars; p = a[1]
    cp = char_pat(e, p)
    if cp is None:
        pc = as_str(p).chars
        if len(pc) <= len(s) and (not pc or e.branch(zand([ch_eq(x, y) for x, y in zip(s[len(s)-len(pc):], pc)]))): return some(Ref(Cell(Str(s[:len(s)-len(pc)]))))
        return none()
    if s and e.branch(cp(s[-1])): return some(Ref(Cell(Str(s[:-1]))))
    return none()
def m_str_split_once(e, c, a):
    s = as_str(a[0]).chars; p = a[1]
    cp = char_pat(e, p)
    if cp is None:
        pc = as_str(p).chars; n = len(pc)
        for i in range(len(s) - n + 1):
            if e.branch(zand([ch_eq(s[i+k], pc[k]) for k in range(n)])): return some(tup(Ref(Cell(Str(s[:i]))), Ref(Cell(Str(s[i+n:])))))
        return none()
    for i, ch in enumerate(s):
        if e.branch(cp(ch)): return some(tup(Ref(Cell(Str(s[:i]))), Ref(Cell(Str(s[i+1:])))))
    return none()
def m_str_trim_matches(side):
    def f(e, c, a):
        s = list(as_str(a[0]).chars)
        if len(a) > 1: cp = char_pat(e, a[1])
        else: cp = lambda ch: m_is_whitespace(e, c, [ch])
        if cp is None: raise Unsupported('trim_matches with a string pattern')
        if side in ('both', 'start'):
            while s and e.branch(cp(s[0])): s.pop(0)
        if side in ('both', 'end'):
            while s and e.branch(cp(s[-1])): s.pop()
        return Ref(Cell(Str(s)))
    f.__name__ = 'm_str_trim_' + side
    return f
def m_str_rfind(e, c, a):
    s = as_str(a[0]).chars; cp = char_pat(e, a[1])
    if cp is None: raise Unsupported('rfind with a string pattern')
    for i in range(len(s) - 1, -1, -1):
        if e.branch(cp(s[i])): return some(utf8_len(e, s[:i]))
    return none()
def m_str_eq_ignore_case(e, c, a):
    x = as_str(a[0]).chars; y = as_str(a[1]).chars
    if len(x) != len(y): return False
    def low(ch):
        if is_sym(ch): return z3.If(z3.And(z3.UGE(ch, 0x41), z3.ULE(ch, 0x5a)), ch + 32, ch)
        return ch + 32 if 0x41 <= ch <= 0x5a else ch
    return zand([low(p) == low(q) for p, q in zip(x, y)])
def m_str_is_char_boundary(e, c, a):
    s = as_str(a[0]).chars; b = a[1]
    try: byte_to_char_index(e, s, b); return True
    except Panic: return False
def m_char_to_ascii_case(upper):
    def f(e, c, a):
        ch = unref(a[0])
        if is_sym(ch):
            return z3.If(z3.And(z3.UGE(ch, 0x61), z3.ULE(ch, 0x7a)), ch - 32, ch) if upper else z3.If(z3.And(z3.UGE(ch, 0x41), z3.ULE(ch, 0x5a)), ch + 32, ch)
        if upper: return ch - 32 if 0x61 <= ch <= 0x7a else ch
        return ch + 32 if 0x41 <= ch <= 0x5a else ch
    f.__name__ = 'm_char_to_ascii_' + ('upper' if upper else 'lower')
    return f
def m_char_to_digit(e, c, a):
    ch = unref(a[0]); radix = a[1]
    if radix != 10 and radix != 16: raise Unsupported('to_digit radix')
    if is_sym(ch):
        if e.branch(z3.And(z3.UGE(ch, 0x30), z3.ULE(ch, 0x39))): return some(ch - 0x30)
        if radix == 16 and e.branch(z3.And(z3.UGE(ch, 0x61), z3.ULE(ch, 0x66))): return some(ch - 0x57)
        if radix == 16 and e.branch(z3.And(z3.UGE(ch, 0x41), z3.ULE(ch, 0x46))): return some(ch - 0x37)
        return none()
    if 0x30 <= ch <= 0x39: return some(ch - 0x30)
    if radix == 16 and 0x61 <= ch <= 0x66: return some(ch - 0x57)
    if radix == 16 and 0x41 <= ch <= 0x46: return some(ch - 0x37)
    return none()
def m_char_eq_ignore_ascii_case(e, c, a):
    lo = m_char_to_ascii_case(False)
    return lo(e, c, [a[0]]) == lo(e, c, [a[1]])
def m_str_cmp_eq(e, c, a): return struct_eq(e, a[0], a[1])

# ---------------------------------------------------------------- tables
TRAIT_MODELS = {
    ('IntoIterator', 'into_iter'): m_into_iter,
    ('Iterator', 'next'): m_iter_next,
    ('Iterator', 'map'): m_iter_map,
    ('Iterator', 'filter'): m_iter_filter,
    ('Iterator', 'filter_map'): m_iter_filter_map,
    ('Iterator', 'enumerate'): m_iter_enumerate,
    ('Iterator', 'chain'): m_iter_chain,
    ('Iterator', 'zip'): m_iter_zip,
    ('Iterator', 'cloned'): m_iter_cloned,
    ('Iterator', 'copied'): m_iter_cloned,
    ('Iterator', 'skip'): m_iter_skip,
    ('Iterator', 'take'): m_iter_take,
    ('Iterator', 'flat_map'): m_iter_flat_map,
    ('Iterator', 'flatten'): m_iter_flatten,
    ('Iterator', 'rev'): m_iter_rev,
    ('Iterator', 'fold'): m_iter_fold,
    ('Iterator', 'for_each'): m_iter_for_each,
    ('Iterator', 'all'): m_iter_all,
    ('Iterator', 'any'): m_iter_any,
    ('Iterator', 'count'): m_iter_count,
    ('Iterator', 'last'): m_iter_last,
    ('Iterator', 'nth'): m_iter_nth,
    ('Iterator', 'position'): m_iter_position,
    ('Iterator', 'find'): m_iter_find,
    ('Iterator', 'collect'): m_iter_collect,
    ('Iterator', 'peekable'): m_iter_peekable,
    ('Iterator', 'by_ref'): m_iter_by_ref,
    ('Iterator', 'size_hint'): m_iter_size_hint,
    ('Iterator', 'sum'): m_iter_sum,
    ('Iterator', 'max'): m_iter_min_max(True),
    ('Iterator', 'min'): m_iter_min_max(False),
    ('Iterator', 'take_while'): m_iter_take_while,
    ('Iterator', 'skip_while'): m_iter_skip_while,
    ('Iterator', 'step_by'): m_iter_step_by,
    ('Iterator', 'unzip'): m_iter_unzip,
    ('Iterator', 'partition'): m_iter_partition,
    ('Iterator', 'find_map'): m_iter_find_map,
    ('Iterator', 'map_while'): m_iter_map_while,
    ('Iterator', 'inspect'): m_iter_inspect,
    ('Iterator', 'fuse'): m_iter_by_ref,
    ('DoubleEndedIterator', 'next_back'): lambda e, c, a: (lambda it: some(it.seq.pop()) if type(it) is Iter and len(it.seq) > it.pos else none())(unref(a[0])),
    ('ExactSizeIterator', 'len'): m_iter_len,
    ('DoubleEndedIterator', 'rev'): m_iter_rev,
    ('FromIterator', 'from_iter'): m_from_iter,
    ('PartialEq', 'eq'): m_eq,
    ('PartialEq', 'ne'): m_ne,
    ('Clone', 'clone'): m_clone,
    ('Clone', 'clone_from'): lambda e, c, a: (setattr(a[0].cell, 'v', clone_value(e, a[1])), UNIT)[1],
    ('Default', 'default'): m_default,
    ('Deref', 'deref'): m_deref,
    ('DerefMut', 'deref_mut'): m_deref,
    ('AsRef', 'as_ref'): m_as_ref_generic,
    ('Borrow', 'borrow'): m_as_ref_generic,
    ('ToString', 'to_string'): m_to_string,
    ('ToOwned', 'to_owned'): lambda e, c, a: clone_value(e, a[0]),
    ('Try', 'branch'): m_branch,
    ('Try', 'from_output'): m_from_output,
    ('FromResidual', 'from_residual'): m_from_residual,
    ('Write', 'write_fmt'): m_write_fmt,
    ('Write', 'write_str'): m_write_str,
    ('Write', 'write_char'): m_write_char,
    ('Display', 'fmt'): m_display_fmt_generic,
    ('Debug', 'fmt'): m_display_fmt_generic,
    ('Extend', 'extend'): m_vec_extend,
    ('Index', 'index'): m_vec_index,
    ('IndexMut', 'index_mut'): m_vec_index,
    ('Ord', 'cmp'): m_ord_cmp,
    ('PartialOrd', 'gt'): lambda e, c, a: e.binop('Gt', unref(a[0]), unref(a[1]), _cmp_ty(c)),
    ('PartialOrd', 'ge'): lambda e, c, a: e.binop('Ge', unref(a[0]), unref(a[1]), _cmp_ty(c)),
    ('PartialOrd', 'lt'): lambda e, c, a: e.binop('Lt', unref(a[0]), unref(a[1]), _cmp_ty(c)),
    ('PartialOrd', 'le'): lambda e, c, a: e.binop('Le', unref(a[0]), unref(a[1]), _cmp_ty(c)),
    ('PartialOrd', 'partial_cmp'): lambda e, c, a: some(m_ord_cmp(e, c, a)),
    ('Ord', 'max'): m_int_max,
    ('Ord', 'min'): m_int_min,
}
TRAIT_MODELS[('ToOwned', 'to_owned')].__name__ = 'm_to_owned'

def _peek_dispatch(e, c, a): return m_iter_peek(e, c, a)

MODELS = [(re.compile(p, re.S), f) for p, f in [
    (r'std::mem::take::<.*>$', m_mem_take),
    (r'std::mem::replace::<.*>$', m_mem_replace),
    (r'std::mem::swap::<.*>$', m_mem_swap),
    (r'(std::mem::)?drop::<.*>$', m_drop),
    (r'std::mem::forget::<.*>$', m_drop),
    (r'Vec::<.*>::push$', m_vec_push),
    (r'Vec::<.*>::pop$', m_vec_pop),
    (r'Vec::<.*>::(new|with_capacity)$', m_vec_new),
    (r'Vec::<.*>::is_empty$|core::slice::<impl \[.*\]>::is_empty$', m_vec_is_empty),
    (r'Vec::<.*>::len$|core::slice::<impl \[.*\]>::len$', m_vec_len),
    (r'Vec::<.*>::clear$', m_vec_clear),
    (r'Vec::<.*>::append$', m_vec_append),
    (r'Vec::<.*>::insert$', m_vec_insert),
    (r'Vec::<.*>::remove$', m_vec_remove),
    (r'Vec::<.*>::truncate$', m_vec_truncate),
    (r'Vec::<.*>::(as_slice|as_mut_slice)$', m_vec_as_slice),
    (r'Vec::<.*>::(reserve|shrink_to_fit|reserve_exact)$', m_unit),
    (r'Vec::<.*>::extend_from_slice$', lambda e, c, a: (vec_of(a[0]).items.extend(Cell(clone_value(e, x.v)) for x in vec_of(a[1]).items), UNIT)[1]),
    (r'Vec::<.*>::into_boxed_slice$', m_vec_into_boxed),
    (r'(std::vec::)?from_elem::<.*>$', m_vec_from_elem),
    (r'core::slice::<impl \[.*\]>::iter$', m_slice_iter),
    (r'core::slice::<impl \[.*\]>::iter_mut$', m_slice_iter_mut),
    (r'core::slice::<impl \[.*\]>::get$', m_vec_get),
    (r'core::slice::<impl \[.*\]>::first$', m_vec_first),
    (r'core::slice::<impl \[.*\]>::last$', m_vec_last),
    (r'core::slice::<impl \[.*\]>::last_mut$', m_vec_last_mut),
    (r'core::slice::<impl \[.*\]>::contains$', m_slice_contains),
    (r'(std|alloc)::slice::<impl \[.*\]>::(to_vec|into_vec)$', m_slice_to_vec),
    (r'(std|alloc)::slice::<impl \[.*\]>::join::<.*>$', m_slice_join),
    (r'(std|alloc)::slice::<impl \[.*\]>::concat::<.*>$', m_slice_concat),
    (r'Box::<.*>::new$', m_box_new),
    (r'Box::<.*>::new_uninit$', m_box_new_uninit),
    (r'std::boxed::box_assume_init_into_vec_unsafe::<.*>$', m_box_assume_init_into_vec),
    (r'(std::rc::)?Rc::<.*>::new$|(std::sync::)?Arc::<.*>::new$', m_rc_new),
    (r'(std::rc::)?Rc::<.*>::ptr_eq$|(std::sync::)?Arc::<.*>::ptr_eq$', m_rc_ptr_eq),
    (r'<(std::rc::)?Rc<.*> as Deref>::deref$|<(std::sync::)?Arc<.*> as Deref>::deref$', m_rc_deref),
    (r'<(std::rc::)?Rc<.*> as AsRef<.*>>::as_ref$|<(std::sync::)?Arc<.*> as AsRef<.*>>::as_ref$', m_rc_deref),
    (r'<(std::boxed::)?Box<.*> as AsRef<.*>>::as_ref$', m_as_ref_generic),
    (r'<(std::borrow::)?Cow<.*> as Deref>::deref$', m_cow_deref),
    (r'(std::borrow::)?Cow::<.*>::into_owned$', m_cow_into_owned),
    (r'<Peekable<.*> as Iterator>::next$', m_iter_next),
    (r'Peekable::<.*>::peek$', m_iter_peek),
    (r'std::iter::once::<.*>$', m_once),
    (r'std::iter::empty::<.*>$', m_empty),
    (r'std::iter::repeat_n::<.*>$', m_repeat_n),
    (r'(std::str::|core::str::)?from_utf8$', m_from_utf8),
    (r'std::string::String::from_utf8$', m_from_utf8),
    (r'std::string::String::from_utf8_lossy$', m_from_utf8_lossy),
    (r'(std::str::|core::str::)?from_utf8_unchecked$', m_from_utf8_unchecked),
    (r'(core|std)::str::<impl str>::repeat$', m_repeat),
    (r'(core|std)::str::<impl str>::len$|std::string::String::len$', m_str_len),
    (r'(core|std)::str::<impl str>::is_empty$|std::string::String::is_empty$', m_is_empty),
    (r'(core|std)::str::<impl str>::chars$', m_chars),
    (r'(core|std)::str::<impl str>::char_indices$', m_char_indices),
    (r'(core|std)::str::<impl str>::bytes$', m_bytes),
    (r'(core|std)::str::<impl str>::as_bytes$|std::string::String::as_bytes$', m_as_bytes),
    (r'std::string::String::into_bytes$', m_into_bytes),
    (r'(core|std)::str::<impl str>::starts_with::<.*>$', m_starts_with),
    (r'(core|std)::str::<impl str>::ends_with::<.*>$', m_ends_with),
    (r'(core|std)::str::<impl str>::contains::<.*>$', m_str_contains),
    (r'(core|std)::str::<impl str>::replace::<char>$', m_replace_char),
    (r'(core|std)::str::<impl str>::replace::<&str>$', m_replace_str),
    (r'(core|std)::str::<impl str>::find::<.*>$', m_str_find_char),
    (r'(core|std)::str::<impl str>::split::<.*>$', m_str_split_char),
    (r'(core|std)::str::<impl str>::trim$', m_str_trim),
    (r'(core|std)::str::<impl str>::to_lowercase$|(core|std)::str::<impl str>::to_ascii_lowercase$', m_str_to_case(True)),
    (r'(core|std)::str::<impl str>::to_uppercase$|(core|std)::str::<impl str>::to_ascii_uppercase$', m_str_to_case(False)),
    (r'(core|std)::str::<impl str>::parse::<.*>$', m_str_parse),
    (r'(core|std)::str::<impl str>::to_owned$|(core|std)::str::<impl str>::to_string$', m_str_into_string),
    (r'(core|std|alloc)::str::<impl str>::into_string$', m_ident),
    (r'(core|std)::str::<impl str>::into_boxed_str$|std::string::String::into_boxed_str$', m_ident),
    (r'<str as Index<.*>>::index$|<std::string::String as Index<.*>>::index$|(core|std)::str::traits::<impl Index<.*> for str>::index$', m_str_index),
    (r'<str as ToOwned>::to_owned$', m_str_into_string),
    (r'<(&str|str|std::string::String|&std::string::String) as Into<std::string::String>>::into$', m_str_into_string),
    (r'<std::string::String as From<&str>>::from$|<std::string::String as From<&std::string::String>>::from$', m_string_from),
    (r'<std::string::String as From<char>>::from$', m_char_to_string),
    (r'<(&str|str|std::string::String|char) as (std::string::)?ToString>::to_string$', m_to_string),
    (r'std::string::String::as_str$|std::string::String::as_mut_str$', m_as_str),
    (r'<std::string::String as Deref>::deref$', m_ident),
    (r'<std::string::String as Add<&str>>::add$', lambda e, c, a: Str(as_str(a[0]).chars + as_str(a[1]).chars)),
    (r'<std::string::String as AddAssign<&str>>::add_assign$', m_push_str),
    (r'<std::string::String as AsRef<str>>::as_ref$|<str as AsRef<str>>::as_ref$', m_ident),
    (r'std::string::String::(new|with_capacity)$', m_string_new),
    (r'std::string::String::push_str$', m_push_str),
    (r'std::string::String::push$', m_push_char),
    (r'std::string::String::pop$', m_string_pop),
    (r'std::string::String::clear$', m_string_clear),
    (r'std::string::String::truncate$', m_string_truncate),
    (r'std::string::String::insert_str$', m_string_insert_str),
    (r'std::string::String::insert$', m_string_insert),
    (r'std::string::String::reserve$', m_unit),
    (r'<std::string::String as std::fmt::Write>::write_fmt$', m_write_fmt),
    (r'<std::string::String as std::fmt::Write>::write_str$', m_write_str),
    (r'<std::string::String as std::fmt::Write>::write_char$', m_write_char),
    (r'<char as From<u8>>::from$', m_char_from_u8),
    (r'<u32 as From<char>>::from$', m_u32_from_char),
    (r'(std::)?char::from_u32$|core::char::methods::<impl char>::from_u32$', m_char_from_u32),
    (r'<u(8|16|32|64|128|size) as From<u(8|16|32|64)>>::from$|<i(16|32|64|128|size) as From<[ui](8|16|32)>>::from$', m_int_from),
    (r'<\w+ as TryFrom<\w+>>::try_from$', m_try_from_int),
    (r'(std::result::)?Result::<.*>::(unwrap|expect)$', m_unwrap),
    (r'(std::option::)?Option::<.*>::(unwrap|expect|unwrap_unchecked)$', m_unwrap),
    (r'(std::option::)?Option::<.*>::unwrap_or_default$|(std::result::)?Result::<.*>::unwrap_or_default$', m_unwrap_or_default),
    (r'(std::option::)?Option::<.*>::unwrap_or$|(std::result::)?Result::<.*>::unwrap_or$', m_unwrap_or),
    (r'(std::option::)?Option::<.*>::unwrap_or_else::<.*>$|(std::result::)?Result::<.*>::unwrap_or_else::<.*>$', m_opt_unwrap_or_else),
    (r'(std::option::)?Option::<.*>::is_some$', m_opt_is_some),
    (r'(std::option::)?Option::<.*>::is_none$', m_opt_is_none),
    (r'(std::result::)?Result::<.*>::is_ok$', m_res_is_ok),
    (r'(std::result::)?Result::<.*>::is_err$', m_res_is_err),
    (r'(std::result::)?Result::<.*>::map_err::<.*>$', m_res_map_err),
    (r'(std::result::)?Result::<.*>::ok$', m_res_ok),
    (r'(std::option::)?Option::<.*>::as_ref$', m_opt_as_ref),
    (r'(std::option::)?Option::<.*>::as_mut$', m_opt_as_mut),
    (r'(std::option::)?Option::<.*>::as_deref$', m_opt_as_ref),
    (r'(std::option::)?Option::<.*>::take$', m_opt_take),
    (r'(std::option::)?Option::<.*>::replace$', m_opt_replace),
    (r'(std::option::)?Option::<.*>::insert$', m_opt_insert),
    (r'(std::option::)?Option::<.*>::get_or_insert_with::<.*>$', m_opt_get_or_insert_with),
    (r'(std::option::)?Option::<.*>::map::<.*>$|(std::result::)?Result::<.*>::map::<.*>$', m_opt_map),
    (r'(std::option::)?Option::<.*>::and_then::<.*>$', m_opt_and_then),
    (r'(std::option::)?Option::<.*>::map_or::<.*>$', m_opt_map_or),
    (r'(std::option::)?Option::<.*>::ok_or::<.*>$', m_opt_ok_or),
    (r'(std::option::)?Option::<.*>::(cloned|copied)$', m_opt_cloned),
    (r'(std::option::)?Option::<.*>::(iter|into_iter)$', lambda e, c, a: into_iter_value(e, a[0])),
    (r'core::fmt::rt::Argument::<.*>::new_display::<.*>$', m_new_display),
    (r'core::fmt::rt::Argument::<.*>::new_debug::<.*>$', m_new_debug),
    (r'core::fmt::rt::Argument::<.*>::new_upper_hex::<.*>$', m_new_upper_hex),
    (r'core::fmt::rt::Argument::<.*>::new_lower_hex::<.*>$', m_new_lower_hex),
    (r'(std::fmt::)?Arguments::<.*>::new::<\d+, \d+>$', m_args_new),
    (r'(std::fmt::)?Arguments::<.*>::from_str(_nonconst)?$', m_args_from_str),
    (r'(std::fmt::)?Arguments::<.*>::as_str$', m_args_as_str),
    (r'(std::fmt::|alloc::fmt::)?format$', m_format),
    (r'(std::fmt::|alloc::fmt::)?format::format_inner$', m_format),
    (r'must_use::<.*>$|std::hint::must_use::<.*>$', m_must_use),
    (r'(std::fmt::)?Formatter::<.*>::write_str$', m_write_str),
    (r'(std::fmt::)?Formatter::<.*>::write_fmt$', m_formatter_write_fmt),
    (r'(std::fmt::)?Formatter::<.*>::pad$', m_formatter_pad),
    (r'<str as (std::fmt::)?Display>::fmt$|<std::string::String as (std::fmt::)?Display>::fmt$', m_display_fmt_str),
    (r'(std::rt::|core::panicking::)?panic_fmt$', m_panic_fmt),
    (r'(std::rt::begin_panic|core::panicking::panic|core::panicking::panic_display|std::rt::panic_display|core::panicking::panic_explicit)(::<.*>)?$', m_panic),
    (r'core::panicking::unreachable_display::<.*>$|core::panicking::panic_nounwind$', m_panic),
    (r'char::methods::<impl char>::is_alphabetic$', m_is_alphabetic),
    (r'char::methods::<impl char>::is_alphanumeric$', m_is_alphanumeric),
    (r'char::methods::<impl char>::is_whitespace$', m_is_whitespace),
    (r'char::methods::<impl char>::is_ascii_digit$|core::num::<impl u8>::is_ascii_digit$', m_is_ascii_digit),
    (r'char::methods::<impl char>::is_ascii_alphabetic$|core::num::<impl u8>::is_ascii_alphabetic$', m_is_ascii_alphabetic),
    (r'char::methods::<impl char>::is_ascii_alphanumeric$|core::num::<impl u8>::is_ascii_alphanumeric$', m_is_ascii_alphanumeric),
    (r'char::methods::<impl char>::is_ascii_uppercase$|core::num::<impl u8>::is_ascii_uppercase$', m_is_ascii_uppercase),
    (r'char::methods::<impl char>::is_ascii_lowercase$|core::num::<impl u8>::is_ascii_lowercase$', m_is_ascii_lowercase),
    (r'char::methods::<impl char>::is_ascii_whitespace$|core::num::<impl u8>::is_ascii_whitespace$', m_is_ascii_whitespace),
    (r'char::methods::<impl char>::is_ascii_punctuation$|core::num::<impl u8>::is_ascii_punctuation$', m_is_ascii_punctuation),
    (r'char::methods::<impl char>::is_ascii$|core::num::<impl u8>::is_ascii$', m_is_ascii),
    (r'char::methods::<impl char>::is_digit$', m_char_is_digit),
    (r'char::methods::<impl char>::to_string$', m_char_to_string),
    (r'char::methods::<impl char>::encode_utf8$', lambda e, c, a: Ref(Cell(Str([a[0]])), True)),
    (r'char::methods::<impl char>::len_utf8$', lambda e, c, a: utf8_len(e, [a[0]])),
    (r'core::num::<impl \w+>::checked_add$', m_checked('Add')),
    (r'core::num::<impl \w+>::checked_sub$', m_checked('Sub')),
    (r'core::num::<impl \w+>::checked_mul$', m_checked('Mul')),
    (r'core::num::<impl \w+>::wrapping_add$', m_wrapping('Add')),
    (r'core::num::<impl \w+>::wrapping_sub$', m_wrapping('Sub')),
    (r'core::num::<impl \w+>::saturating_sub$', m_saturating_sub),
    (r'std::cmp::max::<.*>$', m_int_max),
    (r'std::cmp::min::<.*>$', m_int_min),
    (r'(std::option::)?Option::<.*>::filter::<.*>$', m_opt_filter),
    (r'(std::option::)?Option::<.*>::or$|(std::result::)?Result::<.*>::or::<.*>$', m_opt_or),
    (r'(std::option::)?Option::<.*>::or_else::<.*>$|(std::result::)?Result::<.*>::or_else::<.*>$', m_opt_or_else),
    (r'(std::option::)?Option::<.*>::and::<.*>$', m_opt_and),
    (r'(std::option::)?Option::<.*>::xor$', m_opt_xor),
    (r'(std::option::)?Option::<.*>::zip::<.*>$', m_opt_zip),
    (r'(std::option::)?Option::<.*>::is_some_and::<.*>$|(std::result::)?Result::<.*>::is_ok_and::<.*>$', m_opt_is_some_and),
    (r'(std::option::)?Option::<.*>::is_none_or::<.*>$', m_opt_is_none_or),
    (r'(std::option::)?Option::<.*>::map_or_else::<.*>$|(std::result::)?Result::<.*>::map_or_else::<.*>$', m_opt_map_or_else),
    (r'(std::option::)?Option::<.*>::ok_or_else::<.*>$', m_opt_ok_or_else),
    (r'(std::option::)?Option::<.*>::get_or_insert$', m_opt_get_or_insert),
    (r'(std::option::)?Option::<.*>::take_if::<.*>$', m_opt_take_if),
    (r'(std::option::)?Option::<.*>::inspect::<.*>$|(std::result::)?Result::<.*>::inspect::<.*>$', m_opt_inspect),
    (r'(std::option::)?Option::<.*>::(as_deref_mut|as_mut_slice)$', m_opt_as_mut),
    (r'(std::result::)?Result::<.*>::and_then::<.*>$', m_res_and_then),
    (r'(std::result::)?Result::<.*>::(unwrap_err|expect_err)$', m_res_unwrap_err),
    (r'(std::result::)?Result::<.*>::err$', m_res_err),
    (r'(std::result::)?Result::<.*>::(as_ref)$', lambda e, c, a: (ok if unref(a[0]).variant == 'Ok' else err)(Ref(unref(a[0]).fields[0]))),
    (r'(core::)?bool::<impl bool>::then::<.*>$|std::primitive::bool::then::<.*>$', m_bool_then),
    (r'(core::)?bool::<impl bool>::then_some::<.*>$', m_bool_then_some),
    (r'Vec::<.*>::retain::<.*>$', m_vec_retain),
    (r'Vec::<.*>::drain::<.*>$', m_vec_drain_all),
    (r'Vec::<.*>::dedup$', m_vec_dedup),
    (r'Vec::<.*>::swap_remove$', m_vec_remove),
    (r'core::slice::<impl \[.*\]>::split_first$', m_vec_split_first),
    (r'core::slice::<impl \[.*\]>::split_last$', m_vec_split_last),
    (r'core::slice::<impl \[.*\]>::swap$', m_vec_swap),
    (r'core::slice::<impl \[.*\]>::reverse$', m_vec_reverse),
    (r'core::slice::<impl \[.*\]>::starts_with$', m_vec_starts_with),
    (r'core::slice::<impl \[.*\]>::first_mut$', lambda e, c, a: some(Ref(vec_of(a[0]).items[0], True)) if vec_of(a[0]).items else none()),
    (r'core::slice::<impl \[.*\]>::get_mut$', m_vec_get),
    (r'(core|std)::str::<impl str>::strip_prefix::<.*>$', m_str_strip_prefix),
    (r'(core|std)::str::<impl str>::strip_suffix::<.*>$', m_str_strip_suffix),
    (r'(core|std)::str::<impl str>::split_once::<.*>$', m_str_split_once),
    (r'(core|std)::str::<impl str>::trim_matches::<.*>$', m_str_trim_matches('both')),
    (r'(core|std)::str::<impl str>::trim_start_matches::<.*>$|(core|std)::str::<impl str>::trim_start$', m_str_trim_matches('start')),
    (r'(core|std)::str::<impl str>::trim_end_matches::<.*>$|(core|std)::str::<impl str>::trim_end$', m_str_trim_matches('end')),
    (r'(core|std)::str::<impl str>::rfind::<.*>$', m_str_rfind),
    (r'(core|std)::str::<impl str>::eq_ignore_ascii_case$', m_str_eq_ignore_case),
    (r'(core|std)::str::<impl str>::is_char_boundary$', m_str_is_char_boundary),
    (r'(core|std)::str::<impl str>::(as_str|as_ref)$', m_ident),
    (r'char::methods::<impl char>::to_ascii_uppercase$|core::num::<impl u8>::to_ascii_uppercase$', m_char_to_ascii_case(True)),
    (r'char::methods::<impl char>::to_ascii_lowercase$|core::num::<impl u8>::to_ascii_lowercase$', m_char_to_ascii_case(False)),
    (r'char::methods::<impl char>::to_digit$', m_char_to_digit),
    (r'char::methods::<impl char>::eq_ignore_ascii_case$', m_char_eq_ignore_ascii_case),
    (r'std::convert::identity::<.*>$', m_ident),
    (r'std::intrinsics::(cold_path|assume)$|std::hint::(black_box|assert_unchecked)(::<.*>)?$', m_unit),
]]
for _p, _f in MODELS:
    if _f.__name__ == '<lambda>': _f.__name__ = 'm_lambda_' + _p.pattern[:24]
