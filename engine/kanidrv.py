"""Engine K: run Kani proof harnesses of /verif/kani (path dependency on /repo) and turn the results into check outcomes."""
import os, re, shutil, subprocess, sys, tempfile, time, json, fcntl
from framework import VERIF, CACHE, Inconclusive

KDIR = os.path.join(VERIF, 'kani')

def run_kani(prefix, features=None, jobs=8, timeout=1500, mem_gb=24, harness_timeout=420):
    """run every harness whose name starts with `prefix`; returns dict(harness -> dict(status, checks, failed_checks, time))"""
    tdir = os.path.join(CACHE, 'kani-target' + ('-' + features if features else ''))
    os.makedirs(tdir, exist_ok=True)
    lock = open(os.path.join(CACHE, '.kani%s.lock' % (features or '')), 'w')
    fcntl.flock(lock, fcntl.LOCK_EX)
    try:
        shutil.copy(os.path.join(os.environ.get('VERIF_REPO', '/repo'), 'Cargo.lock'), os.path.join(KDIR, 'Cargo.lock'))
        env = dict(os.environ, CARGO_NET_OFFLINE='true'); env.pop('RUSTFLAGS', None)
        names = list_harnesses(prefix)
        cmd = ['cargo', 'kani', '--target-dir', tdir, '-j', str(jobs), '--output-format', 'terse', '-Z', 'unstable-options', '--harness-timeout', '%ds' % harness_timeout]
        if features: cmd += ['--features', features]
        for n in names: cmd += ['--harness', n]
        t0 = time.time()
        pre = 'ulimit -v %d; ' % (mem_gb * 1024 * 1024)
        p = subprocess.run(['bash', '-c', pre + 'exec timeout %d ' % timeout + ' '.join(cmd)], cwd=KDIR, env=env, stdout=subprocess.PIPE, stderr=subprocess.STDOUT, text=True)
        out = p.stdout
    finally:
        fcntl.flock(lock, fcntl.LOCK_UN); lock.close()
    res = {}
    if 'error: could not compile' in out or 'Failed to execute cargo' in out:
        raise Inconclusive('kani harness crate does not compile against /repo:\n' + out[-1500:])
    m = re.search(r'Complete - (\d+) successfully verified harnesses, (\d+) failures, (\d+) total', out)
    if not m:
        raise Inconclusive('kani run did not complete (timeout, out of memory or crash):\n' + out[-1500:])
    failed = set(re.findall(r'Verification failed for - (\S+)', out))
    nchecks = sum(int(x) for x in re.findall(r'\*\* \d+ of (\d+) failed', out))
    covers = re.findall(r'\*\* (\d+) of (\d+) cover properties satisfied', out)
    unwind = 'unwinding assertion' in out
    # harnesses whose solver run hit the per-harness time cap: undecided, never a verdict
    timed_out = set(); cur = {}; who = None
    for line in out.split('\n'):
        m2 = re.match(r'Thread (\d+): (?:Checking harness (\S+?)\.\.\.)?', line)
        if m2:
            who = m2.group(1)
            if m2.group(2): cur[who] = m2.group(2)
        elif line.startswith('Checking harness '):
            who = '0'; cur[who] = line.split()[2].rstrip('.')
        if 'CBMC timed out' in line and who in cur: timed_out.add(cur[who].split('::')[-1])
    for n in names:
        full = [f for f in failed if f.endswith('::' + n) or f == n]
        res[n] = 'timeout' if n in timed_out else ('failed' if full else 'ok')
    return dict(results=res, total=int(m.group(3)), ok=int(m.group(1)), failures=int(m.group(2)), checks=nchecks,
                covers_ok=all(a == b for a, b in covers), covers=len(covers), unwinding_failure=unwind, wall=time.time() - t0, raw_tail=out[-3000:], raw=out)

def list_harnesses(prefix):
    names = []
    for fn in sorted(os.listdir(os.path.join(KDIR, 'src'))):
        src = open(os.path.join(KDIR, 'src', fn)).read()
        # direct harnesses
        for m in re.finditer(r'#\[kani::proof\][^\n]*\n(?:\s*#\[[^\n]*\n)*\s*fn (\w+)\(', src): names.append(m.group(1))
        # macro-instantiated harnesses:  some_macro!(harness_name, ...)
        for m in re.finditer(r'^\w+!\(\s*(\w+),', src, re.M): names.append(m.group(1))
    return sorted(set(n for n in names if n.startswith(prefix)))

def playback(harness, features=None, timeout=900):
    """generate a concrete counterexample for a failed harness and run it natively; returns (reproduces: bool|None, test source text, log)"""
    scratch = tempfile.mkdtemp(prefix='sqv-kani-', dir=os.environ.get('VERIF_SCRATCH', '/var/tmp'))
    try:
        dst = os.path.join(scratch, 'kani'); shutil.copytree(KDIR, dst, ignore=shutil.ignore_patterns('target'))
        env = dict(os.environ, CARGO_NET_OFFLINE='true'); env.pop('RUSTFLAGS', None)
        tdir = os.path.join(scratch, 'target')
        if harness.endswith('_mustpanic'):
            # #[kani::should_panic] harness that failed = the expected panic is unreachable: there is no trace to play back; its native twin
            # (<harness>_native, same calls under catch_unwind on concrete members) is the replay
            cmd = ['timeout', str(timeout), 'cargo', 'kani', 'playback', '-Z', 'concrete-playback']
            if features: cmd += ['--features', features]
            cmd += ['--', harness + '_native']
            q = subprocess.run(cmd, cwd=dst, env=dict(env, CARGO_TARGET_DIR=tdir), stdout=subprocess.PIPE, stderr=subprocess.STDOUT, text=True)
            failed = bool(re.search(r'test result: FAILED', q.stdout)); passed = bool(re.search(r'test result: ok. 1 passed', q.stdout))
            return (True if failed else (False if passed else None)), 'native twin %s_native' % harness, q.stdout[-2000:]
        cmd = ['timeout', str(timeout), 'cargo', 'kani', '--target-dir', tdir, '-Z', 'concrete-playback', '--concrete-playback=print', '--harness', harness]
        if features: cmd += ['--features', features]
        p = subprocess.run(cmd, cwd=dst, env=env, stdout=subprocess.PIPE, stderr=subprocess.STDOUT, text=True)
        tests = re.findall(r'#\[test\]\s*fn kani_concrete_playback_\w+\(\) \{.*?\n\}', p.stdout, re.S)
        gen = '\n'.join(dict.fromkeys(tests))
        if not gen: return None, '', p.stdout[-2000:]
        # append the generated unit tests to the module that defines the harness (macro-generated harnesses cannot be patched in place)
        target = None
        for fn in sorted(os.listdir(os.path.join(dst, 'src'))):
            src = open(os.path.join(dst, 'src', fn)).read()
            if re.search(r'\b%s\b' % re.escape(harness), src) and fn != 'lib.rs': target = fn
        with open(os.path.join(dst, 'src', target), 'a') as f:
            f.write('\n#[cfg(test)]\nmod sqv_playback {\n    use super::*;\n' + gen + '\n}\n')
        cmd = ['timeout', str(timeout), 'cargo', 'kani', 'playback', '-Z', 'concrete-playback']
        if features: cmd += ['--features', features]
        cmd += ['--', 'kani_concrete_playback']
        q = subprocess.run(cmd, cwd=dst, env=dict(env, CARGO_TARGET_DIR=tdir), stdout=subprocess.PIPE, stderr=subprocess.STDOUT, text=True)
        failed = bool(re.search(r'test result: FAILED|panicked at', q.stdout))
        passed = bool(re.search(r'test result: ok', q.stdout))
        return (True if failed else (False if passed else None)), gen, q.stdout[-2000:]
    finally:
        shutil.rmtree(scratch, ignore_errors=True)
