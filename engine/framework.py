"""Common driver pieces: engine loading, native replay client, parallel exploration, evidence, known findings."""
import fnmatch, json, multiprocessing, os, random, subprocess, sys, time, fcntl, traceback, hashlib
import z3
import mirdump
from interp import Engine, Budget, Unsupported, Panic, AssertionViolation, PathEnd

VERIF = os.path.dirname(os.path.dirname(os.path.abspath(__file__)))
REPO = mirdump.REPO
CACHE = os.path.join(VERIF, '.cache')

class Inconclusive(Exception): pass

# ------------------------------------------------------------------ native replay
class Native:
    """client of the replay binary (built against /repo's working tree on every run)"""
    built = {}
    def __init__(self, profile='dev', features=''):
        self.profile = profile
        self.bin = self.build(profile, features)
        self.p = subprocess.Popen([self.bin], stdin=subprocess.PIPE, stdout=subprocess.PIPE, stderr=subprocess.DEVNULL, text=True, bufsize=1)
        self.calls = 0

    @classmethod
    def build(cls, profile, features=''):
        if (profile, features) in cls.built: return cls.built[(profile, features)]
        tdir = os.path.join(CACHE, 'replay-target' + ('-' + features.replace(',', '-') if features else ''))
        os.makedirs(tdir, exist_ok=True)
        lock = open(os.path.join(CACHE, '.replay.lock'), 'w')
        fcntl.flock(lock, fcntl.LOCK_EX)
        try:
            env = dict(os.environ, CARGO_NET_OFFLINE='true', CARGO_TARGET_DIR=tdir)
            env.pop('RUSTFLAGS', None)
            cmd = ['cargo', 'build', '--offline', '--quiet'] + (['--release'] if profile == 'release' else []) + (['--features', features] if features else [])
            r = subprocess.run(cmd, cwd=os.path.join(VERIF, 'replay'), env=env, stdout=subprocess.PIPE, stderr=subprocess.PIPE, text=True)
            if r.returncode != 0:
                sys.stderr.write(r.stderr[-3000:])
                raise Inconclusive('replay crate does not build against /repo')
        finally:
            fcntl.flock(lock, fcntl.LOCK_UN); lock.close()
        b = os.path.join(tdir, 'release' if profile == 'release' else 'debug', 'sqv-replay')
        cls.built[(profile, features)] = b
        return b

    def ask(self, req):
        self.calls += 1
        self.p.stdin.write(json.dumps(req) + '\n'); self.p.stdin.flush()
        line = self.p.stdout.readline()
        if not line:
            raise Inconclusive('replay binary died on %r' % (req,))
        return json.loads(line)

    def close(self):
        try:
            self.p.stdin.close(); self.p.wait(timeout=5)
        except Exception:
            self.p.kill()

# ------------------------------------------------------------------ known findings
def load_known(pid):
    out = []
    p = os.path.join(VERIF, 'known_findings.txt')
    if not os.path.exists(p): return out
    for ln in open(p):
        ln = ln.strip()
        if not ln.startswith('known:'): continue
        parts = ln.split(None, 3)
        if len(parts) < 4: continue
        kv = dict(x.split('=', 1) for x in parts[1:3] if '=' in x)
        if kv.get('property') != pid: continue
        out.append((kv.get('key', ''), parts[3]))
    return out

# ------------------------------------------------------------------ context
class Ctx:
    def __init__(self, pid, tier, seed, features=mirdump.F0, package=None, budget_s=None):
        self.pid = pid; self.tier = tier; self.seed = seed
        self.t0 = time.time()
        self.features = features
        self.budget_s = budget_s
        self.stats = dict(paths=0, queries=0, steps=0, solver_s=0.0, panics=0, asserts=0)
        self.executed = {}; self.models_used = {}
        self.samples = []; self.violations = []; self.known_hit = []; self.inconclusive = []
        self.validated = 0
        self.bounds = {}; self.assumptions = []; self.notes = []
        self.workers = int(os.environ.get('VERIF_WORKERS', '12' if tier == 'thorough' else '8'))
        self.rng = random.Random(seed)
        self.mirs = {}
        self.native = None
        self.families = []
        self.exhaustive = True

    def engine(self, features=None, package=None, subdir='src'):
        features = features or self.features
        key = (features, package)
        if key not in self.mirs:
            mir, src, h = mirdump.dump(features, package)
            self.mirs[key] = (mir, src, h)
        mir, src, h = self.mirs[key]
        self.src_hash = h
        return Engine(mir, src, features, subdir=subdir)

    def nat(self):
        if self.native is None: self.native = Native('dev')
        return self.native

    def absorb(self, eng_or_stats, executed=None, models_used=None):
        st = eng_or_stats.stats if isinstance(eng_or_stats, Engine) else eng_or_stats
        for k, v in st.items(): self.stats[k] = self.stats.get(k, 0) + v
        ex = eng_or_stats.executed if isinstance(eng_or_stats, Engine) else (executed or {})
        mu = eng_or_stats.models_used if isinstance(eng_or_stats, Engine) else (models_used or {})
        for k, v in ex.items(): self.executed[k] = self.executed.get(k, 0) + v
        for k, v in mu.items(): self.models_used[k] = self.models_used.get(k, 0) + v

    def time_left(self):
        if self.budget_s is None: return 1e9
        return self.budget_s - (time.time() - self.t0)

    # -------------------------------------------------------------- parallel map over independent work items
    def pmap(self, fn, items, workers=None):
        """fn(item) -> result dict; runs in forked workers.  Results are returned in item order."""
        workers = min(workers or self.workers, len(items)) or 1
        if workers <= 1 or os.environ.get('VERIF_SERIAL'):
            return [fn(it) for it in items]
        ctx = multiprocessing.get_context('fork')
        with ctx.Pool(workers) as pool:
            return pool.map(_Wrap(fn), items, chunksize=1)

class _Wrap:
    def __init__(self, fn): self.fn = fn
    def __call__(self, it):
        try:
            return self.fn(it)
        except (Budget, Unsupported, Inconclusive) as ex:
            return {'inconclusive': '%s: %s' % (type(ex).__name__, ex), 'item': repr(it)[:200]}
        except Exception as ex:
            return {'inconclusive': 'worker error: ' + traceback.format_exc()[-1500:], 'item': repr(it)[:200]}

def model_int(m, term):
    if m is None: return None
    if not z3.is_expr(term): return term
    v = m.eval(term, model_completion=True)
    if z3.is_bv_value(v): return v.as_long()
    if z3.is_true(v): return True
    if z3.is_false(v): return False
    return str(v)

# ------------------------------------------------------------------ finishing: violations, evidence, exit code
def finish(ctx, level_text=None):
    """classify violations (known finding / new), write evidence, print lines, return exit code"""
    known = load_known(ctx.pid)
    new = []
    os.makedirs(os.path.join(VERIF, 'violations'), exist_ok=True)
    printed = set()
    for v in ctx.violations:
        key = v.get('key', '')
        hit = None
        for pat, what in known:
            if fnmatch.fnmatchcase(key, pat): hit = (pat, what); break
        if hit:
            if hit[0] not in printed:
                print('KNOWN-FINDING: property=%s %s' % (ctx.pid, hit[1])); printed.add(hit[0])
            ctx.known_hit.append({'key': key, 'pattern': hit[0]})
        else:
            new.append(v)
    rc = 0
    # one VIOLATION line per distinct key
    seen = set()
    for v in new:
        k = v.get('key', '')
        if k in seen: continue
        seen.add(k)
        hid = hashlib.sha1(json.dumps(v, sort_keys=True, default=str).encode()).hexdigest()[:10]
        path = os.path.join(VERIF, 'violations', '%s-%s.json' % (ctx.pid, hid))
        v = dict(v); v['property'] = ctx.pid
        v['replay_cmd'] = './check %s --replay %s' % (ctx.pid, path)
        with open(path, 'w') as f: json.dump(v, f, indent=1, default=str)
        print('VIOLATION property=%s replay=%s' % (ctx.pid, path))
        print('  key=%s %s' % (k, v.get('msg', '')))
        rc = 1
    if ctx.inconclusive:
        for x in ctx.inconclusive[:10]: print('INCONCLUSIVE %s' % (x,))
        if rc == 0: rc = 2
    write_evidence(ctx, len(new))
    return rc

def write_evidence(ctx, nviol):
    os.makedirs(os.path.join(VERIF, 'evidence'), exist_ok=True)
    fns = sorted(ctx.executed)
    cov = {
        'states': max(int(ctx.stats.get('paths', 0)), 0),
        'transitions': int(ctx.stats.get('steps', 0)),
        'traces_validated_against_impl': int(ctx.validated),
        'samples': ctx.samples[:12] or ['(none)'],
        'exhaustive': bool(ctx.exhaustive and not ctx.inconclusive),
        'solver_queries': int(ctx.stats.get('queries', 0)),
        'solver_time_s': round(ctx.stats.get('solver_s', 0.0), 2),
        'assertions_discharged': int(ctx.stats.get('asserts', 0)),
        'panicking_paths': int(ctx.stats.get('panics', 0)),
        'functions_encoded': fns if len(fns) <= 400 else fns[:400] + ['... %d more' % (len(fns) - 400)],
        'functions_encoded_count': len(fns),
        'models_used': sorted(ctx.models_used),
        'bounds': ctx.bounds,
        'families': ctx.families,
        'mir_features': ctx.features,
        'source_hash': getattr(ctx, 'src_hash', None),
        'known_findings_hit': ctx.known_hit[:50],
        'inconclusive': ctx.inconclusive[:20],
        'notes': ctx.notes,
        'explanation': 'states = feasible paths of the real MIR explored by the symbolic executor (each path covers every input '
                       'satisfying its path condition; assertions are discharged by z3 per path); transitions = MIR statements/terminators executed; '
                       'traces_validated_against_impl = solver models of explored paths replayed through the native build and found to agree with the engine.',
    }
    ev = {
        'property_id': ctx.pid, 'tier': ctx.tier, 'seed': int(ctx.seed), 'level': 'model_checking',
        'coverage': cov, 'assumptions': ctx.assumptions, 'wall_s': round(time.time() - ctx.t0, 2), 'violations': int(nviol),
    }
    p = os.path.join(VERIF, 'evidence', ctx.pid + '.json')
    with open(p + '.tmp', 'w') as f: json.dump(ev, f, indent=1, default=str)
    os.replace(p + '.tmp', p)
