"""KLEE-style symbolic interpreter for rustc MIR text, z3 as the decision procedure.

Heap shape is concrete along every path; scalars (ints, bools, chars, field-less enum discriminants) may be
z3 terms.  Forking is done by deterministic re-execution with a recorded decision prefix."""
import re, sys, os, glob, time
import z3
from mirparse import (index_mir, split_top, find_matching, strip_generics, base, generic_args, Unsupported,
                      INTW, SIGNED, Place)

# ---------------------------------------------------------------- values
class Cell:
    __slots__ = ('v',)
    def __init__(self, v=None): self.v = v
    def __repr__(self): return 'Cell(%r)' % (self.v,)

class Ref:
    """kind: '&' plain reference / raw pointer, 'rc' Rc/Arc, 'box' Box"""
    __slots__ = ('cell', 'mut', 'kind')
    def __init__(self, cell, mut=False, kind='&'): self.cell = cell; self.mut = mut; self.kind = kind
    def __repr__(self): return '%s%r' % ({'&': '&', 'rc': 'Rc:', 'box': 'Box:'}[self.kind], self.cell.v)

class Adt:
    """struct / enum variant / tuple / closure; fields are Cells"""
    __slots__ = ('ty', 'variant', 'fields')
    def __init__(self, ty, variant, fields): self.ty = ty; self.variant = variant; self.fields = fields
    def __repr__(self):
        n = self.ty + ('::' + str(self.variant) if self.variant is not None else '')
        return n + ('(' + ', '.join(repr(c.v) for c in self.fields) + ')' if self.fields else '')

class SymEnum:
    """value of a field-less (C-like for the variants in range) enum whose variant is a solver term"""
    __slots__ = ('ty', 'term')
    def __init__(self, ty, term): self.ty = ty; self.term = term
    def __repr__(self): return '%s::<%s>' % (self.ty, self.term)

class Str:
    """String / str contents: list of char values (int | z3 BitVec32 | opaque token tuple)"""
    __slots__ = ('chars',)
    def __init__(self, chars): self.chars = list(chars)
    def __repr__(self): return 'Str(%s)' % show(self.chars)

class VecV:
    __slots__ = ('items',)
    def __init__(self, items): self.items = items   # list of Cells
    def __repr__(self): return 'Vec[' + ', '.join(repr(c.v) for c in self.items) + ']'

class Unit:
    def __repr__(self): return '()'
UNIT = Unit()

class FnItem:
    __slots__ = ('name',)
    def __init__(self, name): self.name = name
    def __repr__(self): return 'fn{%s}' % self.name

class Iter:
    """iterator over a python list of values; `back` supports DoubleEnded use"""
    def __init__(self, seq, pos=0, kind='iter'): self.seq = seq; self.pos = pos; self.kind = kind; self.peeked = None
    def __repr__(self): return 'Iter(%d/%d)' % (self.pos, len(self.seq))

class LazyIter:
    """iterator adaptor evaluated on demand: map / filter / ... over an inner iterator"""
    def __init__(self, kind, inner, fn=None, extra=None): self.kind = kind; self.inner = inner; self.fn = fn; self.extra = extra; self.peeked = None

class FmtArg:
    def __init__(self, kind, ref, ty): self.kind = kind; self.ref = ref; self.ty = ty
class FmtArgs:
    def __init__(self, template, args): self.template = template; self.args = args

def show(chars):
    out = []
    for c in chars:
        if isinstance(c, int):
            out.append(chr(c) if 32 <= c < 0x110000 and not (0xD800 <= c < 0xE000) else '\\x%02x' % c)
        elif isinstance(c, tuple): out.append('<%s>' % (':'.join(str(x) for x in c),))
        else: out.append('<%s>' % c)
    return ''.join(out)

def deep(v):
    """copy a value (fresh cells); references stay shared"""
    t = type(v)
    if t is Adt: return Adt(v.ty, v.variant, [Cell(deep(c.v)) for c in v.fields])
    if t is Str: return Str(v.chars)
    if t is VecV: return VecV([Cell(deep(c.v)) for c in v.items])
    if t is Iter:
        it = Iter(v.seq, v.pos, v.kind); it.peeked = v.peeked; return it
    if t is Ref and v.kind == 'box': return Ref(Cell(deep(v.cell.v)), v.mut, 'box')
    return v

def is_sym(v): return isinstance(v, z3.ExprRef)

class PathEnd(Exception): pass
class Panic(Exception): pass
class Budget(Exception): pass
class AssertionViolation(Exception):
    def __init__(self, msg, model, info=None): Exception.__init__(self, msg); self.msg = msg; self.model = model; self.info = info

STD_VARIANTS = {'Option': ['None', 'Some'], 'Result': ['Ok', 'Err'], 'Cow': ['Borrowed', 'Owned'],
                'ControlFlow': ['Continue', 'Break'], 'Ordering': ['Less', 'Equal', 'Greater'], 'Bound': ['Included', 'Excluded', 'Unbounded']}
STD_DISCR = {'Ordering': {'Less': -1, 'Equal': 0, 'Greater': 1}}

def parse_enums(srcroot, features, subdir='src'):
    out = {}; discr = {}
    for path in sorted(glob.glob(os.path.join(srcroot, subdir) + '/**/*.rs', recursive=True)):
        src = open(path).read()
        src = re.sub(r'//[^\n]*', '', src)
        for m in re.finditer(r'\benum\s+(\w+)\s*(?:<[^>{]*>)?\s*\{', src):
            name = m.group(1)
            i = m.end(); d = 1; j = i
            while d:
                c = src[j]
                if c == '{': d += 1
                elif c == '}': d -= 1
                j += 1
            body = src[i:j-1]
            items = []; cur = ''; dd = 0
            for c in body:
                if c in '([{<': dd += 1
                elif c in ')]}>': dd -= 1
                if c == ',' and dd == 0: items.append(cur); cur = ''
                else: cur += c
            if cur.strip(): items.append(cur)
            vs = []; ds = {}
            nextd = 0
            for it in items:
                it = it.strip()
                if not it: continue
                enabled = True
                while it.startswith('#['):
                    d2 = 0
                    for k in range(len(it)):
                        if it[k] == '[': d2 += 1
                        elif it[k] == ']':
                            d2 -= 1
                            if d2 == 0: break
                    attr = it[:k+1]; it = it[k+1:].strip()
                    mm = re.match(r'#\[cfg\((.*)\)\]$', attr, re.S)
                    if mm and not eval_cfg(mm.group(1), features): enabled = False
                if not enabled: continue
                vm = re.match(r'(\w+)', it)
                if vm:
                    vs.append(vm.group(1))
                    dm = re.search(r'=\s*(-?\d+)\s*$', it)
                    if dm: nextd = int(dm.group(1))
                    ds[vm.group(1)] = nextd; nextd += 1
            if name not in out:
                out[name] = vs
                if any(ds[v] != i for i, v in enumerate(vs)): discr[name] = ds
    return out, discr

def eval_cfg(expr, features):
    expr = expr.strip()
    m = re.match(r'^feature\s*=\s*"([^"]+)"$', expr)
    if m: return m.group(1) in features
    m = re.match(r'^(not|any|all)\((.*)\)$', expr, re.S)
    if m:
        parts = [eval_cfg(p, features) for p in split_top(m.group(2))]
        if m.group(1) == 'not': return not parts[0]
        if m.group(1) == 'any': return any(parts)
        return all(parts)
    if expr in ('test', 'docsrs', 'kani'): return False
    return True

_GENERIC_NAME = re.compile(r'^(?:[A-Z]\w?\d*|[A-Z][A-Z0-9]*|Self|impl .*|dyn .*|<.*)$')
def is_generic_name(tb):
    return tb is None or bool(_GENERIC_NAME.match(tb)) and tb not in ('Vec', 'Box', 'Rc', 'Arc', 'Cow', 'Expr')

# ---------------------------------------------------------------- engine
class Engine:
    def __init__(self, mir_path, srcroot, features, subdir='src', step_budget=2_000_000):
        self.srcroot = srcroot
        self.features = set(features.split(',')) if isinstance(features, str) else set(features)
        self.fns = index_mir(open(mir_path).read())
        self.variants, self.discr = parse_enums(srcroot, self.features, subdir)
        self.variants.update(STD_VARIANTS); self.discr.update(STD_DISCR)
        self.solver = z3.Solver()
        self.stats = dict(paths=0, queries=0, steps=0, solver_s=0.0, panics=0)
        self.step_budget = step_budget
        self.executed = {}            # fn name -> count (functions encoded)
        self.models_used = {}
        self.rcache = {}
        self.closures = None
        self.trace = False
        self.depth = 0
        self.cur_model = None
        self.pc = []
        self.decisions = []; self.dpos = 0; self.pending = []; self.stop_at = None; self.prefer = []; self.cstack = []
        self.index()
        import models
        self.MODELS = models.MODELS; self.TRAIT_MODELS = models.TRAIT_MODELS
        self.models = models

    # ---- impl index
    def index(self):
        self.byname = {}; self.impls = {}
        srccache = {}
        # type aliases of the crate (e.g. DynIden = SeaRc<dyn Iden>): impls written for the alias are indexed under the target too
        self.aliases = {}
        for path in glob.glob(os.path.join(self.srcroot, 'src') + '/**/*.rs', recursive=True):
            for m in re.finditer(r'^\s*pub(?:\([^)]*\))?\s+type\s+(\w+)(?:<[^=]*>)?\s*=\s*([^;]+);', open(path).read(), re.M):
                self.aliases[m.group(1)] = base(m.group(2))
        for key, f in self.fns.items():
            name = f.name
            m = re.search(r'<impl at ([^:>]+):(\d+):(\d+): (\d+):(\d+)>::(.*)$', name)
            if m and '<impl at ' in m.group(6):
                # an impl block local to a function body: index it by its own (innermost) header
                m = re.search(r'.*<impl at ([^:>]+):(\d+):(\d+): (\d+):(\d+)>::(.*)$', name)
            if not m:
                self.byname.setdefault(name, f)
                parts = name.split('::')
                if len(parts) >= 2 and f.kind == 'fn':
                    self.impls.setdefault((None, parts[-2], parts[-1]), f)   # trait default methods / free fns
                continue
            path, line, meth = m.group(1), int(m.group(2)), m.group(6)
            c0, l1, c1 = int(m.group(3)), int(m.group(4)), int(m.group(5))
            if '::' in meth: continue      # closures / promoteds: found through their parent
            if path not in srccache:
                p = os.path.join(self.srcroot, path)
                if not os.path.exists(p):
                    # derive crate paths are relative to its own root
                    p = os.path.join(self.srcroot, 'sea-query-derive', path)
                srccache[path] = open(p).read().split('\n') if os.path.exists(p) else []
            src = srccache[path]
            if line - 1 >= len(src): continue
            hdr = src[line-1][c0-1:]
            is_impl = bool(re.match(r'\s*(?:unsafe\s+)?impl\b', hdr))
            k = line
            while is_impl and '{' not in hdr and k < len(src):
                hdr += ' ' + src[k].strip(); k += 1
            mv = re.match(r'\s*type_to_(?:box_)?value!\(\s*([^,]+),\s*(\w+)', src[line-1])
            if mv:
                t = base(mv.group(1))
                f.ensure()
                if meth == 'from': self.impls[('Value', 'From<%s>' % t, 'from')] = f
                elif meth == 'null': self.impls[(t, 'Nullable', 'null')] = f
                else: self.impls[(t, 'ValueType', meth)] = f
                continue
            mm = re.match(r'\s*(?:unsafe )?impl(?:<.*?>)?\s+(?:(.*?)\s+for\s+)?(.*?)\s*(?:where.*)?\{', hdr) if is_impl else None
            if not mm:
                if l1 != line or is_impl: continue
                # derive-generated impl: the span is the trait name inside #[derive(..)]
                trait = src[line-1][c0-1:c1-1]
                ty = None
                for k2 in range(line-1, min(line+40, len(src))):
                    m2 = re.match(r'\s*(?:pub(?:\([^)]*\))?\s+)?(?:struct|enum)\s+(\w+)', src[k2])
                    if m2: ty = m2.group(1); break
                if ty is None:
                    # macro-generated impl at a single-line span, e.g. impl_xxx!(..) - keep by method name
                    self.impls.setdefault(('?' + path + ':' + str(line), None, meth), f)
                    continue
                self.impls[(ty, base(trait), meth)] = f
                if base(trait) == 'IdenStatic' and meth in ('prepare', 'unquoted'): self.impls[(ty, 'Iden', meth)] = f
                continue
            trait = mm.group(1); ty = mm.group(2)
            tb = base(trait) if trait else None
            tyb = base(ty)
            tyb = self.aliases.get(tyb, tyb)
            if trait and self._is_forwarder(f, meth, tyb):
                self.impls[(tyb, None, meth)] = f      # #[inherent] forwarder
                continue
            self.impls[(tyb, tb, meth)] = f
            if trait and '<' in trait:
                tk = tkey(trait)
                f.ensure()
                if re.search(r'\$\w+', tk) and f.params:
                    pt = f.params[0].split(': ', 1)[1]
                    tk = re.sub(r'\$\w+', base(pt), tk)
                self.impls[(tyb, tk, meth)] = f

    def _is_forwarder(self, f, meth, tyb):
        f.ensure()
        if len(f.raw) > 3: return False
        raw = f.raw.get(0)
        if not raw: return False
        m = re.search(r'= <(.*?) as .*>::%s(::<.*>)?\(' % re.escape(meth), raw[-1])
        return bool(m) and base(m.group(1)) in (tyb, 'Self')

    # ---- solver helpers
    def _check(self):
        t = time.time()
        r = self.solver.check()
        self.stats['solver_s'] += time.time() - t
        self.stats['queries'] += 1
        return r

    def add(self, cond):
        """add a harness assumption to the current path"""
        if cond is True: return
        if cond is False: raise PathEnd()
        self.solver.add(cond); self.pc.append(cond)
        self.cur_model = None

    def feasible(self, cond):
        self.solver.push(); self.solver.add(cond)
        r = self._check()
        m = self.solver.model() if r == z3.sat else None
        self.solver.pop()
        if r == z3.unknown: raise Budget('solver returned unknown')
        return m

    def ensure_model(self):
        if self.cur_model is None:
            r = self._check()
            if r != z3.sat:
                if r == z3.unknown: raise Budget('solver returned unknown')
                raise PathEnd()
            self.cur_model = self.solver.model()
        return self.cur_model

    def branch(self, cond):
        """decide a symbolic boolean on this path; returns python bool, records the decision"""
        if not is_sym(cond): return bool(cond)
        ent = _BRMEMO.get(id(cond))
        if ent is None:
            sc = z3.simplify(cond)
            ent = (cond, sc, z3.Not(sc), True if z3.is_true(sc) else (False if z3.is_false(sc) else None))
            if len(_BRMEMO) > 400000: _BRMEMO.clear()
            _BRMEMO[id(cond)] = ent
        if ent[3] is not None: return ent[3]
        cond = ent[1]; ncond = ent[2]
        if self.dpos < len(self.decisions):
            d = self.decisions[self.dpos]; self.dpos += 1
            c = cond if d else ncond
            self.solver.add(c); self.pc.append(c); self.cur_model = None
            return d
        m = self.ensure_model()
        mv = z3.is_true(m.eval(cond, model_completion=True))
        other = ncond if mv else cond
        om = self.feasible(other)
        if om is not None:
            # both feasible: take True first, queue False
            self.pending.append(self.decisions[:self.dpos] + [False])
            d = True
            if not mv: self.cur_model = om
        else:
            d = mv
        self.decisions.append(d); self.dpos += 1
        c = cond if d else ncond
        self.solver.add(c); self.pc.append(c)
        if self.stop_at is not None and len(self.decisions) >= self.stop_at: raise _Stop()
        return d

    def choose(self, n, tag='choice'):
        """harness-level n-way nondeterministic choice, explored exhaustively (forks by re-execution)"""
        self.nchoice = getattr(self, 'nchoice', 0) + 1
        lo = 0; hi = n - 1
        k = 0
        while lo < hi:
            b = z3.Bool('%s!%d!%d' % (tag, self.nchoice, k)); k += 1
            mid = (lo + hi) // 2
            if self.branch(b): hi = mid
            else: lo = mid + 1
        return lo

    def concretize(self, term, limit=64):
        """fork over every feasible value of a (small-domain) term"""
        if not is_sym(term): return term
        term = z3.simplify(term)
        if z3.is_bv_value(term): return term.as_long()
        n = 0
        while True:
            m = self.ensure_model()
            v = m.eval(term, model_completion=True)
            if self.branch(term == v): return v.as_long()
            n += 1
            if n > limit: raise Budget('concretize: too many values')

    def model(self):
        """a model of the current path condition, preferring one that also satisfies self.prefer (replayable inputs)"""
        if self.prefer:
            m = self._prefer_model()
            if m is not None: return m
        r = self._check()
        return self.solver.model() if r == z3.sat else None

    def _prefer_model(self):
        """model of the current solver state satisfying as many of self.prefer as a greedy pass can keep (all of them when possible)"""
        self.solver.push()
        try:
            self.solver.add(*self.prefer)
            if self._check() == z3.sat: return self.solver.model()
        finally:
            self.solver.pop()
        if len(self.prefer) > 200: return None
        self.solver.push()
        try:
            if self._check() != z3.sat: return None
            m = self.solver.model()
            for c in self.prefer:
                self.solver.push(); self.solver.add(c)
                if self._check() == z3.sat:
                    m = self.solver.model(); self.solver.pop(); self.solver.add(c)
                else: self.solver.pop()
            return m
        finally:
            self.solver.pop()

    def check(self, cond, msg, info=None):
        """assert cond holds on this path for all inputs; else raise a violation with a model"""
        self.stats['asserts'] = self.stats.get('asserts', 0) + 1
        if not is_sym(cond):
            if not cond: raise AssertionViolation(msg, self.model(), info)
            return
        cond = z3.simplify(cond)
        if z3.is_true(cond): return
        self.solver.push(); self.solver.add(z3.Not(cond))
        r = self._check()
        if r == z3.sat:
            m = self.solver.model()
            if self.prefer:
                pm = self._prefer_model()
                if pm is not None: m = pm
            self.solver.pop()
            raise AssertionViolation(msg, m, info)
        self.solver.pop()
        if r == z3.unknown: raise Budget('solver returned unknown on assertion')

    def run_all(self, entry, prefix=None, on_violation=None, max_paths=None, stop_on_first=False):
        """entry(engine) runs one path; explores all paths extending `prefix`. returns list of violations"""
        self.pending = [list(prefix or [])]
        viol = []
        base_len = len(prefix or [])
        deadline = float(os.environ.get('VERIF_DEADLINE', '0') or 0)
        while self.pending:
            if deadline and time.time() > deadline:
                raise Budget('wall-clock budget of this tier exceeded with %d open paths (set VERIF_BUDGET_S to raise it)' % len(self.pending))
            self.decisions = self.pending.pop(); self.dpos = 0; self.pc = []; self.cur_model = None
            self.nchoice = 0; self.depth = 0; self.cstack = []; self.last_info = None
            self.path_steps = 0
            self.solver.push()
            try:
                entry(self)
                self.stats['paths'] += 1
            except PathEnd:
                pass
            except Panic as e:
                self.stats['paths'] += 1; self.stats['panics'] += 1
                v = ('panic', str(e), self.model(), getattr(self, 'last_info', None))
                viol.append(v)
                if on_violation: on_violation(v)
            except AssertionViolation as e:
                self.stats['paths'] += 1
                v = ('assert', e.msg, e.model, e.info)
                viol.append(v)
                if on_violation: on_violation(v)
            finally:
                self.solver.pop()
            if stop_on_first and viol: break
            if max_paths and self.stats['paths'] >= max_paths and self.pending:
                raise Budget('path budget exceeded')
        return viol

    def frontier(self, entry, want):
        """explore breadth-first until at least `want` open prefixes exist (or the space is exhausted);
        returns the list of open decision prefixes - completed paths are NOT counted (they are re-run by workers)"""
        level = [[]]
        while level and len(level) < want:
            nxt = []
            progressed = False
            for p in level:
                self.pending = []
                self.decisions = list(p); self.dpos = 0; self.pc = []; self.cur_model = None; self.nchoice = 0; self.depth = 0
                self.path_steps = 0
                self.solver.push()
                self.stop_at = len(p) + 1
                try:
                    entry(self)
                except (PathEnd, Panic, AssertionViolation, _Stop):
                    pass
                finally:
                    self.solver.pop(); self.stop_at = None
                if len(self.decisions) > len(p):
                    d = self.decisions[:len(p) + 1]
                    nxt.append(d)
                    if self.pending: nxt.append(self.pending[0][:len(p) + 1])
                    progressed = True
                else:
                    nxt.append(p)
            if not progressed: return nxt
            level = nxt
        return level

    # ---- calls
    def call(self, callee, args):
        self.cstack.append(callee)
        try:
            f = self.resolve(callee, args)
            if callable(f):
                self.models_used[f.__name__] = self.models_used.get(f.__name__, 0) + 1
                return f(self, callee, args)
            return self.exec_fn(f, args)
        finally:
            self.cstack.pop()

    def prim_from_stack(self):
        """primitive type bound to a generic parameter by the nearest enclosing call site (e.g. Expr::value::<i32>)"""
        for c in reversed(self.cstack[:-1]):
            m = re.search(r'(?:::<|From<|Into<|^<)(&?(?:[iu](?:8|16|32|64|128|size)|bool|char|f32|f64|&str|str|std::string::String))\b', c)
            if m: return m.group(1)
        return None

    def call_closure(self, clo, args):
        """clo: closure Adt, FnItem, or reference to one; args: python list of argument values"""
        v = clo
        while isinstance(v, Ref): v = v.cell.v
        if isinstance(v, FnItem):
            return self.call(v.name, args)
        if isinstance(v, Adt) and v.ty.startswith('{closure@'):
            f = self.closure_body(v.ty)
            f.ensure()
            first = f.locals.get(1, '')
            if first.startswith('&'): recv = Ref(Cell(v), True) if not isinstance(clo, Ref) else clo
            else: recv = v
            return self.exec_fn(f, [recv] + list(args))
        raise Unsupported('call of non-closure %r' % (clo,))

    def closure_body(self, ty):
        if self.closures is None:
            self.closures = {}
            for n, f in self.fns.items():
                if '{closure#' in n and f.kind == 'fn':
                    mm = re.search(r'\(_1: [^{]*(\{closure@[^}]*\})', f.lines[0]) if f.lines else None
                    if mm: self.closures[mm.group(1)] = f
        f = self.closures.get(ty)
        if f is None: raise Unsupported('closure body ' + ty)
        return f

    def runtime_type(self, v):
        while type(v) is Ref: v = v.cell.v
        t = type(v)
        if t is Adt: return base(v.ty) if not v.ty.startswith('{') else v.ty
        if t is SymEnum: return v.ty
        if t is Str: return 'String'
        if t is VecV: return 'Vec'
        if t is Iter or t is LazyIter: return 'Iter'
        if t is FnItem: return 'fn'
        return None

    def resolve(self, callee, args):
        r = self.rcache.get(callee)
        if r is not None: return r
        rt = self.runtime_type(args[0]) if args else None
        r = self.rcache.get((callee, rt))
        if r is not None: return r
        r, static = self._resolve(callee, args)
        if static: self.rcache[callee] = r
        elif rt is not None: self.rcache[(callee, rt)] = r
        return r

    def _resolve(self, callee, args):
        c = strip_generics(callee)
        if c.startswith('<'):
            close = _angle_close(c, 0)
            inner = c[1:close]; rest = c[close+1:]
            if rest.startswith('::'): rest = rest[2:]
            meth = rest
            parts = _split_as(inner)
            if len(parts) == 2:
                ty, trait = parts
                trb = base(trait)
                tb = base(ty)
                # closures and fn items called through Fn* traits
                if trb in ('FnOnce', 'FnMut', 'Fn') and meth in ('call_once', 'call_mut', 'call'):
                    return self.models.m_call_closure, True
                if ty.startswith('&') and trb in ('PartialEq', 'PartialOrd', 'Ord', 'Eq', 'Display', 'Debug', 'Hash', 'Iden', 'Write', 'Iterator') \
                        and args and type(args[0]) is Ref and type(args[0].cell.v) is Ref and args[0].cell.v.kind == '&':
                    inner_ty = re.sub(r"^&(?:'\w+ )?(?:mut )?", '', ty)
                    inner_callee = '<%s as %s>::%s' % (inner_ty, re.sub(r"<&(?:'\w+ )?(?:mut )?", '<', trait, 1) if trb in ('PartialEq', 'PartialOrd') else trait, meth)
                    both = trb in ('PartialEq', 'PartialOrd', 'Ord')
                    def fwd(e, c, a, inner_callee=inner_callee, both=both):
                        a = list(a)
                        a[0] = a[0].cell.v
                        if both and len(a) > 1 and type(a[1]) is Ref and type(a[1].cell.v) is Ref: a[1] = a[1].cell.v
                        return e.call(inner_callee, a)
                    fwd.__name__ = 'm_ref_forward'
                    return fwd, False
                dyn = ty.startswith('&') or is_generic_name(tb)
                rt = self.runtime_type(args[0]) if (dyn and args) else None
                if trb == 'Into' or trb == 'From':
                    r = self._resolve_into(c, ty, trait, meth, args)
                    if r is not None: return r, False
                cands = []
                if not dyn: cands.append(tb)
                if rt: cands.append(rt)
                tk = tkey(trait) if '<' in trait else None
                for t in cands:
                    if tk and (t, tk, meth) in self.impls: return self.impls[(t, tk, meth)], not dyn
                    if (t, trb, meth) in self.impls: return self.impls[(t, trb, meth)], not dyn
                # std / library models by (trait, method)
                fm = self.TRAIT_MODELS.get((trb, meth))
                if fm is not None: return fm, False
                for pat, fn in self.MODELS:
                    if pat.match(callee): return fn, True
                # blanket impls: impl<T: Bound> Trait for T
                bl = [k for k in self.impls if k[1] == trb and k[2] == meth and k[0] and re.match(r'^[A-Z]\w?$', k[0]) and k[0] not in self.variants]
                if len(bl) == 1: return self.impls[bl[0]], False
                if (None, trb, meth) in self.impls: return self.impls[(None, trb, meth)], False
                raise Unsupported('call %s (runtime type %s)' % (callee, rt))
            else:
                # <Type>::method
                tb = base(inner)
                if (tb, None, meth) in self.impls: return self.impls[(tb, None, meth)], True
        for pat, fn in self.MODELS:
            if pat.match(callee): return fn, True
        m = re.search(r'<impl ([^<>]*(?:<[^<>]*>)?[^<>]*)>::(\w+)$', c)
        if m:
            mm = re.match(r'(?:(.*) for )?(.*)$', m.group(1))
            key = (base(mm.group(2)), base(mm.group(1)) if mm.group(1) else None, m.group(2))
            if key in self.impls: return self.impls[key], True
        if callee in self.byname: return self.byname[callee], True
        if c in self.byname: return self.byname[c], True
        parts = split_path(c)
        if len(parts) >= 2:
            key = (base(parts[-2]), None, parts[-1])
            if key in self.impls: return self.impls[key], True
            # inherent method of a generic type whose impl is listed under another trait key
            ks = [k for k in self.impls if k[0] == key[0] and k[2] == key[2]]
            if len(ks) == 1: return self.impls[ks[0]], True
        raise Unsupported('call ' + callee)

    def _resolve_into(self, c, ty, trait, meth, args):
        trb = base(trait)
        if trb == 'Into':
            tgt_full = generic_args(trait)[0] if generic_args(trait) else None
            tgt = base(tgt_full)
            src_static = base(ty)
            src = src_static if not is_generic_name(src_static) and not ty.startswith('&') else None
            if src is None and args: src = self.runtime_type(args[0])
            if src is None:
                src = self.prim_from_stack() or src_static
                if src: src = base(src)
        else:
            tgt = base(ty)
            a = generic_args(trait)
            src_static = base(a[0]) if a else None
            src = src_static if not is_generic_name(src_static) else (self.runtime_type(args[0]) if args else None)
            if is_generic_name(tgt): return None
        if tgt is None or is_generic_name(tgt): return None
        if trb == 'Into':
            k2 = (src, 'Into<%s>' % tgt, 'into')
            if k2 in self.impls: return self.impls[k2]
        if src == 'String' and tgt == 'String': return self.models.m_ident
        if src in ('str', 'String') and tgt == 'String': return self.models.m_str_into_string
        key = (tgt, 'From<%s>' % src, 'from')
        if key in self.impls: return self.impls[key]
        if src == tgt: return self.models.m_ident
        gen = [k for k in self.impls if k[0] == tgt and k[2] == 'from' and k[1] and re.match(r'^From<[A-Z]\w?>$', k[1])]
        if len(gen) == 1: return self.impls[gen[0]]
        fm = self.models.into_model(src, tgt)
        if fm: return fm
        raise Unsupported('conversion %s -> %s (%s)' % (src, tgt, c))

    def exec_fn(self, f, args):
        self.depth += 1
        if self.depth > 200:
            raise Budget('call depth exceeded in ' + f.name)
        if self.trace: sys.stderr.write('  ' * self.depth + f.name + '\n')
        try:
            return self._exec(f.ensure(), args)
        finally:
            self.depth -= 1

    def _exec(self, f, args):
        self.executed[f.name] = self.executed.get(f.name, 0) + 1
        loc = {}
        for i, a in enumerate(args): loc[i+1] = Cell(a)
        bb = 0
        stats = self.stats
        while True:
            stmts, term = f.block(bb)
            n = len(stmts) + 1
            stats['steps'] += n; self.path_steps += n
            if self.path_steps > self.step_budget: raise Budget('step budget exceeded in ' + f.name)
            for st in stmts:
                try:
                    if st[0] == 'assign':
                        val = self.rvalue(f, loc, st[2])
                        self.place_cell(loc, st[1], True).v = val
                    elif st[0] == 'setdiscr':
                        self.set_discr(loc, st[1], st[2])
                except Unsupported as ex:
                    if not getattr(ex, 'tagged', False):
                        ex.tagged = True; ex.args = (str(ex.args[0]) + ' @ ' + f.name + ' :: ' + str(st[-1]),)
                    raise
            k = term[0]
            if k == 'goto': bb = term[1]; continue
            if k == 'return':
                c = loc.get(0); return c.v if (c is not None and c.v is not None) else UNIT
            if k == 'switch':
                v = self.operand(loc, term[1])
                bb = self.switch(v, term[2], term[3]); continue
            if k == 'call':
                try:
                    argv = [self.operand(loc, a) for a in term[3]]
                    r = self.call(term[2], argv)
                except Unsupported as ex:
                    if not getattr(ex, 'tagged', False):
                        ex.tagged = True; ex.args = (str(ex.args[0]) + ' @ ' + f.name + ' :: call ' + term[2],)
                    raise
                self.place_cell(loc, term[1], True).v = r
                if term[4] is None: raise Panic('diverging call returned: ' + term[2])
                bb = term[4]; continue
            if k == 'assert':
                v = self.operand(loc, term[1])
                if is_sym(v):
                    ok = self.branch(v if term[2] else z3.Not(v))
                else:
                    ok = (bool(v) == term[2])
                if not ok: raise Panic('assert failed: ' + term[3] + ' in ' + f.name)
                bb = term[4]; continue
            if k == 'callptr':
                fnv = self.operand(loc, term[2])
                argv = [self.operand(loc, a) for a in term[3]]
                r = self.call_closure(fnv, argv)
                self.place_cell(loc, term[1], True).v = r
                bb = term[4]; continue
            if k == 'unreachable' or k == 'resume':
                raise Panic('reached ' + k + ' in ' + f.name)
            raise Unsupported('terminator %r' % (term,))

    def switch(self, v, targets, other):
        if type(v) is bool: v = int(v)
        if not is_sym(v):
            for val, b in targets:
                if val == v: return b
            if other is not None: return other
            raise Panic('switch fallthrough')
        isb = z3.is_bool(v)
        for val, b in targets:
            if isb:
                if self.branch(v): 
                    if val: return b
                else:
                    if not val: return b
                continue
            if self.branch(memo_cmp('Eq', v, val)): return b
        if other is not None: return other
        raise PathEnd()

    # ---- rvalues
    def rvalue(self, f, loc, rv):
        k = rv[0]
        if k == 'use': return self.operand(loc, rv[1])
        if k == 'ref': return Ref(self.place_cell(loc, rv[1]), rv[2])
        if k == 'adt': return self.aggregate(loc, rv)
        if k == 'discr': return self.discr_of(self.place_cell(loc, rv[1]).v)
        if k == 'bin': return self.binop(rv[1], self.operand(loc, rv[2]), self.operand(loc, rv[3]), rv[4])
        if k == 'tuple': return Adt('tuple', None, [Cell(self.operand(loc, x)) for x in rv[1]])
        if k == 'cast': return self.cast(self.operand(loc, rv[1]), rv[2], rv[3], rv[4])
        if k == 'un':
            a = self.operand(loc, rv[2]); op = rv[1]
            if op == 'Not':
                if is_sym(a): return z3.Not(a) if z3.is_bool(a) else ~a
                if type(a) is bool: return not a
                w = INTW.get(rv[3], 64)
                return (~a) & ((1 << w) - 1) if rv[3] not in SIGNED else ~a
            if op == 'Neg':
                if is_sym(a): return -a
                return self.wrap(-a, rv[3])
            if op == 'PtrMetadata':
                return self.len_of(a)
            raise Unsupported('unop ' + op)
        if k == 'len': return self.len_of(self.place_cell(loc, rv[1]).v)
        if k == 'unit': return UNIT
        if k == 'array': return VecV([Cell(self.operand(loc, x)) for x in rv[1]])
        if k == 'closure': return Adt(rv[1], None, [Cell(self.operand(loc, x)) for x in rv[2]])
        if k == 'repeat':
            v = self.operand(loc, rv[1]); n = rv[2]
            m = re.match(r'(\d+)', n)
            if not m: raise Unsupported('repeat count ' + n)
            return VecV([Cell(deep(v)) for _ in range(int(m.group(1)))])
        if k == 'nullop':
            if rv[1] in ('UbChecks', 'ContractChecks'): return False
            if rv[1] == 'OverflowChecks': return True
            raise Unsupported('nullop ' + rv[1])
        raise Unsupported('rvalue %r' % (rv,))

    def len_of(self, v):
        while isinstance(v, Ref): v = v.cell.v
        if type(v) is Str: return self.models.utf8_len(self, v.chars)
        if type(v) is VecV: return len(v.items)
        raise Unsupported('Len of %r' % (v,))

    def aggregate(self, loc, rv):
        path = rv[1]
        fields = [Cell(self.operand(loc, x)) for x in rv[2]]
        r = self._agg_cache.get(path) if hasattr(self, '_agg_cache') else None
        if r is None:
            if not hasattr(self, '_agg_cache'): self._agg_cache = {}
            parts = split_path(path)
            ty = base(parts[-2]) if len(parts) > 1 else None
            var = parts[-1]
            if ty in self.variants and var in self.variants[ty]: r = (ty, var)
            else: r = (base(path), None)
            self._agg_cache[path] = r
        return Adt(r[0], r[1], fields)

    def discr_of(self, v):
        if type(v) is Adt:
            if v.variant is None: return 0
            d = self.discr.get(v.ty)
            if d: return d[v.variant]
            return self.variants[v.ty].index(v.variant)
        if type(v) is SymEnum: return v.term
        raise Unsupported('discriminant of %r' % (v,))

    def set_discr(self, loc, pl, idx):
        cell = self.place_cell(loc, pl, True)
        raise Unsupported('set discriminant')

    def wrap(self, x, ty):
        w = INTW.get(ty)
        if w is None: return x
        x &= (1 << w) - 1
        if ty in SIGNED and x >= (1 << (w - 1)): x -= (1 << w)
        return x

    def cast(self, v, ty, kind, srcty):
        if kind == 'IntToInt':
            w = INTW.get(ty)
            if w is None: raise Unsupported('cast to ' + ty)
            if type(v) is Adt or type(v) is SymEnum:
                v = self.discr_of(v)
            if is_sym(v):
                if z3.is_bool(v): return z3.If(v, z3.BitVecVal(1, w), z3.BitVecVal(0, w))
                sw = v.size()
                if sw > w: return z3.Extract(w-1, 0, v)
                if sw < w: return z3.SignExt(w - sw, v) if srcty in SIGNED else z3.ZeroExt(w - sw, v)
                return v
            return self.wrap(int(v), ty)
        if kind in ('Transmute', 'PtrToPtr', 'Unsize', 'PointerCoercion', 'PointerExposeProvenance', 'MutToConstPointer',
                    'ReifyFnPointer', 'ClosureFnPointer', 'UnsafeFnPointer', 'ArrayToPointer', 'Subtype'):
            if kind == 'Transmute' and ty == 'char' and srcty == 'u32': return v
            if kind == 'Transmute' and ty.replace(' ', '') == '(usize,usize)' and type(v) is Ref:
                # fat pointer (&dyn Trait) -> (data address, vtable address): the vtable stands for the runtime type
                import zlib
                rt = self.runtime_type(v) or '?'
                return Adt('tuple', None, [Cell(id(v.cell) & 0xffffffffffff), Cell(zlib.crc32(rt.encode()))])
            if kind == 'Transmute' and ty in INTW and srcty in ('f32', 'f64'): raise Unsupported('float transmute')
            return v
        if kind in ('FloatToInt', 'IntToFloat', 'FloatToFloat'): raise Unsupported('float cast')
        return v

    def binop(self, op, a, b, ty):
        if type(a) is bool and not is_sym(b): a = int(a)
        if type(b) is bool and not is_sym(a): b = int(b)
        sa = is_sym(a); sb = is_sym(b)
        if not sa and not sb:
            if type(a) is Adt or type(b) is Adt or type(a) is Unit: return self.models.struct_eq(self, a, b) if op == 'Eq' else _neg(self.models.struct_eq(self, a, b))
            if type(a) is Ref or type(b) is Ref:
                if op == 'Eq': return a.cell is b.cell
                if op == 'Ne': return a.cell is not b.cell
                if op == 'Offset': raise Unsupported('pointer offset')
            if type(a) is tuple or type(b) is tuple:
                # opaque tokens compared: identical tokens are equal, anything else is inconclusive
                if op == 'Eq': return a == b
                if op == 'Ne': return a != b
            if op == 'Eq': return a == b
            if op == 'Ne': return a != b
            if op == 'Lt': return a < b
            if op == 'Le': return a <= b
            if op == 'Gt': return a > b
            if op == 'Ge': return a >= b
            if op in ('Add', 'AddUnchecked'): return self.wrap(a + b, ty)
            if op in ('Sub', 'SubUnchecked'): return self.wrap(a - b, ty)
            if op in ('Mul', 'MulUnchecked'): return self.wrap(a * b, ty)
            if op == 'BitAnd': return a & b
            if op == 'BitOr': return a | b
            if op == 'BitXor': return a ^ b
            if op in ('Shl', 'ShlUnchecked'): return self.wrap(a << (b & (INTW.get(ty, 64) - 1)), ty)
            if op in ('Shr', 'ShrUnchecked'): return a >> (b & (INTW.get(ty, 64) - 1))
            if op == 'Div':
                if b == 0: raise Panic('division by zero')
                q = abs(a) // abs(b); return self.wrap(q if (a < 0) == (b < 0) else -q, ty)
            if op == 'Rem':
                if b == 0: raise Panic('remainder by zero')
                r = abs(a) % abs(b); return self.wrap(r if a >= 0 else -r, ty)
            if op in ('AddWithOverflow', 'SubWithOverflow', 'MulWithOverflow'):
                r = a + b if op[0] == 'A' else (a - b if op[0] == 'S' else a * b)
                w = self.wrap(r, ty)
                return Adt('tuple', None, [Cell(w), Cell(w != r)])
            if op == 'Cmp':
                return Adt('Ordering', 'Less' if a < b else ('Equal' if a == b else 'Greater'), [])
            raise Unsupported('binop ' + op)
        # symbolic
        if sa and z3.is_bool(a) or sb and z3.is_bool(b):
            if not sa: a = z3.BoolVal(bool(a))
            if not sb: b = z3.BoolVal(bool(b))
            if op == 'Eq': return a == b
            if op == 'Ne': return a != b
            if op == 'BitAnd': return z3.And(a, b)
            if op == 'BitOr': return z3.Or(a, b)
            if op == 'BitXor': return z3.Xor(a, b)
            raise Unsupported('bool binop ' + op)
        if type(a) is tuple or type(b) is tuple: raise Unsupported('opaque token compared with a symbolic value')
        if op in _CMPOPS:
            if not sb: return memo_cmp(op, a, int(b), ty in SIGNED)
            if not sa: return memo_cmp(_FLIP[op], b, int(a), ty in SIGNED)
        if not sa: a = z3.BitVecVal(int(a), b.size())
        if not sb: b = z3.BitVecVal(int(b), a.size())
        signed = ty in SIGNED
        if op == 'Eq': return a == b
        if op == 'Ne': return a != b
        if op == 'Lt': return a < b if signed else z3.ULT(a, b)
        if op == 'Le': return a <= b if signed else z3.ULE(a, b)
        if op == 'Gt': return a > b if signed else z3.UGT(a, b)
        if op == 'Ge': return a >= b if signed else z3.UGE(a, b)
        if op in ('Add', 'AddUnchecked'): return a + b
        if op in ('Sub', 'SubUnchecked'): return a - b
        if op in ('Mul', 'MulUnchecked'): return a * b
        if op == 'BitAnd': return a & b
        if op == 'BitOr': return a | b
        if op == 'BitXor': return a ^ b
        if op in ('Shl', 'ShlUnchecked'): return a << b
        if op in ('Shr', 'ShrUnchecked'): return (a >> b) if signed else z3.LShR(a, b)
        if op == 'AddWithOverflow':
            r = a + b
            ov = z3.Not(z3.And(z3.BVAddNoOverflow(a, b, signed), z3.BVAddNoUnderflow(a, b))) if signed else z3.Not(z3.BVAddNoOverflow(a, b, False))
            return Adt('tuple', None, [Cell(r), Cell(ov)])
        if op == 'SubWithOverflow':
            r = a - b
            ov = z3.Not(z3.And(z3.BVSubNoOverflow(a, b), z3.BVSubNoUnderflow(a, b, signed))) if signed else z3.ULT(a, b)
            return Adt('tuple', None, [Cell(r), Cell(ov)])
        if op == 'MulWithOverflow':
            r = a * b
            ov = z3.Not(z3.And(z3.BVMulNoOverflow(a, b, signed), z3.BVMulNoUnderflow(a, b))) if signed else z3.Not(z3.BVMulNoOverflow(a, b, False))
            return Adt('tuple', None, [Cell(r), Cell(ov)])
        if op == 'Div': return a / b if signed else z3.UDiv(a, b)
        if op == 'Rem': return z3.SRem(a, b) if signed else z3.URem(a, b)
        raise Unsupported('symbolic binop ' + op)

    # ---- operands & places
    def operand(self, loc, op):
        k = op[0]
        if k == 'move': return self.place_cell(loc, op[1]).v
        if k == 'copy':
            v = self.place_cell(loc, op[1]).v
            t = type(v)
            if t is Adt or t is VecV or t is Str or t is Iter: return deep(v)
            return v
        return self.const(op[1])

    def const(self, c):
        k = c[0]
        if k == 'int': return c[1]
        if k == 'bool': return c[1]
        if k == 'char': return c[1]
        if k == 'str': return Ref(Cell(Str(c[1])))
        if k == 'unit': return UNIT
        if k == 'bytes': return Ref(Cell(VecV([Cell(b) for b in c[1]])))
        if k == 'zst':
            t = c[1]
            if t.startswith('{closure@'): return Adt(t, None, [])
            m = re.match(r'fn\(.*?\{(.*)\}$', t, re.S)
            if m: return FnItem(m.group(1))
            if t.startswith('<') or '::' in t and not t[0].isupper() and t.split('::')[-1][:1].islower():
                return FnItem(t)
            return Adt(base(t), None, [])
        if k == 'named': return self.named_const(c[1])
        if k == 'float': return ('float', c[1], c[2])
        raise Unsupported('const %r' % (c,))

    def named_const(self, c):
        cc = self._const_cache = getattr(self, '_const_cache', {})
        if c in cc: return deep(cc[c]) if not isinstance(cc[c], Ref) else cc[c]
        v = self._named_const(c)
        cc[c] = v
        return v

    def _named_const(self, c):
        if c in self.fns: return self.exec_fn(self.fns[c], [])
        m = re.match(r'<(.*?) as (.*?)>::(.*)$', c)
        if m:
            nm = m.group(2) + '::' + m.group(3)
            while nm:
                if nm in self.fns: return self.exec_fn(self.fns[nm], [])
                if '::' not in nm: break
                nm = nm.split('::', 1)[1]
            # promoted / nested const of a trait method:  <Type as Trait>::method::promoted[i]  ->  <impl at ..>::method::promoted[i]
            rest0 = m.group(3); meth0 = rest0.split('::')[0]
            for key in ((base(m.group(1)), base(m.group(2)), meth0), (base(m.group(1)), None, meth0)):
                f = self.impls.get(key)
                if f is not None:
                    nm = f.name + rest0[len(meth0):]
                    if nm in self.fns: return self.exec_fn(self.fns[nm], [])
        m = re.match(r'(.*)<impl (.*?)>::(.*)$', c)
        if m:
            hdr = m.group(2); rest = m.group(3)
            mm = re.match(r'(?:(.*) for )?(.*)$', hdr)
            meth = rest.split('::')[0]
            for key in ((base(mm.group(2)), base(mm.group(1)) if mm.group(1) else None, meth),
                        (base(mm.group(2)), None, meth)):
                f = self.impls.get(key)
                if f:
                    nm = f.name + rest[len(meth):]
                    if nm in self.fns: return self.exec_fn(self.fns[nm], [])
            # search by suffix
            suffix = '>::' + rest
            for nm, f in self.fns.items():
                if nm.endswith(suffix) and nm.startswith(m.group(1)) and f.kind == 'const':
                    return self.exec_fn(f, [])
        # promoted / nested const of an inherent method, printed with the type path:  a::b::Type::method::promoted[i]
        m = re.match(r'(.*)::(\w+)::(\w+)::((?:promoted\[\d+\]|\{constant#\d+\}).*)$', c)
        if m:
            f = self.impls.get((m.group(2), None, m.group(3)))
            if f is not None:
                nm = f.name + '::' + m.group(4)
                if nm in self.fns: return self.exec_fn(self.fns[nm], [])
        # generic path: strip turbofish
        c2 = strip_generics(c)
        if c2 != c and c2 in self.fns: return self.exec_fn(self.fns[c2], [])
        nm = c2
        while '::' in nm:      # a free (generic) function's promoted is printed with its module path: prepare::inject_parameters::<I>::promoted[0]
            nm = nm.split('::', 1)[1]
            if nm in self.fns and self.fns[nm].kind == 'const': return self.exec_fn(self.fns[nm], [])
        parts = split_path(c2)
        if len(parts) >= 2 and base(parts[-2]) in self.variants and parts[-1] in self.variants[base(parts[-2])]:
            return Adt(base(parts[-2]), parts[-1], [])
        mv = self.models.const_model(c)
        if mv is not None: return mv
        raise Unsupported('const ' + c)

    def place_cell(self, loc, pl, create=False):
        cell = loc.get(pl.local)
        if cell is None:
            cell = loc[pl.local] = Cell(None)
        for p in pl.proj:
            k = p[0]
            v = cell.v
            if k == 'deref':
                if type(v) is Ref: cell = v.cell
                else: raise Unsupported('deref of %r' % (v,))
            elif k == 'field':
                idx = p[1]
                if type(v) is Adt:
                    if idx >= len(v.fields):
                        if create:
                            while len(v.fields) <= idx: v.fields.append(Cell(None))
                        else: raise Unsupported('field %d of %r' % (idx, v))
                    cell = v.fields[idx]
                elif type(v) is Ref and idx == 0:
                    pass      # Box / Unique / NonNull wrappers are transparent
                elif v is None and create:
                    nv = Adt('tuple', None, [Cell(None) for _ in range(idx + 1)]); cell.v = nv; cell = nv.fields[idx]
                elif type(v) is Str and idx == 0:
                    # String.vec
                    raise Unsupported('String internals')
                else:
                    raise Unsupported('field %d of %r' % (idx, v))
            elif k == 'down':
                if type(v) is Adt:
                    if v.variant != p[1]: raise Panic('downcast %s of %r' % (p[1], v))
                elif type(v) is SymEnum:
                    pass
                else: raise Unsupported('downcast of %r' % (v,))
            elif k == 'index':
                i = loc[p[1]].v
                cell = self.index_cell(v, i)
            elif k == 'cidx':
                w = v
                while type(w) is Ref: w = w.cell.v
                if type(w) is not VecV: raise Unsupported('const index of %r' % (w,))
                i = len(w.items) - p[1] if p[2] else p[1]
                cell = w.items[i]
            elif k == 'sub':
                w = v
                while type(w) is Ref: w = w.cell.v
                if type(w) is not VecV: raise Unsupported('subslice of %r' % (w,))
                end = len(w.items) - p[2] if p[3] else (p[2] or len(w.items))
                cell = Cell(VecV(w.items[p[1]:end]))
            else:
                raise Unsupported('projection %r' % (p,))
        return cell

    def index_cell(self, v, i):
        while type(v) is Ref: v = v.cell.v
        if is_sym(i) and type(v) is VecV:
            # decide the bounds check symbolically first: the out-of-range side is one path, not one per value
            if not self.branch(z3.ULT(i, z3.BitVecVal(len(v.items), i.size()))): raise Panic('index out of bounds')
        if is_sym(i): i = self.concretize(i)
        if type(v) is VecV:
            if i >= len(v.items) or i < 0: raise Panic('index out of bounds')
            return v.items[i]
        raise Unsupported('index of %r' % (v,))

class _Stop(Exception): pass

_MEMO = {}
_BRMEMO = {}
def memo_cmp(op, a, b, signed=False):
    """a: z3 BitVec, b: python int.  Results are memoised on the identity of `a` (pinned in the entry)."""
    k = (op, id(a), b, signed)
    r = _MEMO.get(k)
    if r is not None: return r[1]
    if len(_MEMO) > 400000: _MEMO.clear()
    bv = z3.BitVecVal(b, a.size())
    if op == 'Eq': x = a == bv
    elif op == 'Ne': x = a != bv
    elif op == 'Lt': x = a < bv if signed else z3.ULT(a, bv)
    elif op == 'Le': x = a <= bv if signed else z3.ULE(a, bv)
    elif op == 'Gt': x = a > bv if signed else z3.UGT(a, bv)
    else: x = a >= bv if signed else z3.UGE(a, bv)
    _MEMO[k] = (a, x)
    return x
_CMPOPS = {'Eq', 'Ne', 'Lt', 'Le', 'Gt', 'Ge'}
_FLIP = {'Eq': 'Eq', 'Ne': 'Ne', 'Lt': 'Gt', 'Le': 'Ge', 'Gt': 'Lt', 'Ge': 'Le'}

def _neg(r): return z3.Not(r) if is_sym(r) else (not r)

def _angle_close(s, i):
    """s[i] == '<'; index of the matching '>'"""
    d = 0; n = len(s)
    while i < n:
        c = s[i]
        if c == '<': d += 1
        elif c == '>' and s[i-1] not in '-=':
            d -= 1
            if d == 0: return i
        i += 1
    raise ValueError(s)

def _split_as(inner):
    """split 'Type as Trait' at the top-level ' as '"""
    d = 0; i = 0; n = len(inner)
    while i < n:
        c = inner[i]
        if c in '<([': d += 1
        elif c in ')]': d -= 1
        elif c == '>' and inner[i-1] not in '-=': d -= 1
        elif d == 0 and inner.startswith(' as ', i):
            return [inner[:i], inner[i+4:]]
        i += 1
    return [inner]

def split_path(c):
    """split a path at top-level '::'"""
    out = []; d = 0; start = 0; i = 0; n = len(c)
    while i < n:
        ch = c[i]
        if ch in '<([{': d += 1
        elif ch in ')]}': d -= 1
        elif ch == '>' and c[i-1] not in '-=': d -= 1
        elif d == 0 and c.startswith('::', i):
            out.append(c[start:i]); start = i + 2; i += 2; continue
        i += 1
    out.append(c[start:])
    return out

def tkey(trait):
    m = re.match(r'(.*?)<(.*)>$', trait.strip(), re.S)
    if not m: return base(trait)
    return base(m.group(1)) + '<' + ', '.join(base(x) for x in split_top(m.group(2))) + '>'
