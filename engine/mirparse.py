"""Parse `rustc -Zunpretty=mir` text into pre-parsed function bodies.

Bodies are indexed eagerly (name -> raw lines) and parsed lazily on first execution."""
import re

class Unsupported(Exception):
    pass

INTW = {'u8': 8, 'i8': 8, 'u16': 16, 'i16': 16, 'u32': 32, 'i32': 32, 'u64': 64, 'i64': 64, 'usize': 64,
        'isize': 64, 'char': 32, 'u128': 128, 'i128': 128}
SIGNED = {'i8', 'i16', 'i32', 'i64', 'isize', 'i128'}

# ------------------------------------------------------------------ text helpers
_CHARLIT = re.compile(r"'(\\u\{[0-9a-fA-F]+\}|\\x[0-9a-fA-F]{2}|\\.|[^'\\])'")

def skip_literal(s, i):
    """if s[i] starts a string or char literal return the index after it, else None"""
    c = s[i]
    if c == '"':
        j = i + 1; n = len(s)
        while j < n and s[j] != '"':
            if s[j] == '\\': j += 1
            j += 1
        return j + 1
    if c == "'":
        m = _CHARLIT.match(s, i)
        if m: return m.end()
    return None

def split_top(s, sep=','):
    out = []; depth = 0; start = 0; i = 0; n = len(s)
    while i < n:
        c = s[i]
        if c == '"' or c == "'":
            j = skip_literal(s, i)
            if j is not None: i = j; continue
        if c in '([{<': depth += 1
        elif c in ')]}': depth -= 1
        elif c == '>':
            if not (i > 0 and s[i-1] in '-='): depth -= 1
        elif c == sep and depth == 0:
            out.append(s[start:i].strip()); start = i + 1
        i += 1
    t = s[start:].strip()
    if t: out.append(t)
    return out

def find_matching(s, i):
    """s[i] is '(' '[' or '{'; return index of the matching close"""
    depth = 0; n = len(s)
    while i < n:
        c = s[i]
        if c == '"' or c == "'":
            j = skip_literal(s, i)
            if j is not None: i = j; continue
        if c in '([{': depth += 1
        elif c in ')]}':
            depth -= 1
            if depth == 0: return i
        i += 1
    raise ValueError('unbalanced: ' + s)

def strip_generics(s):
    """remove ::<...> turbofish segments"""
    if '::<' not in s: return s
    out = []; i = 0; n = len(s)
    while i < n:
        if s.startswith('::<', i) and not s.startswith('::<impl ', i):
            j = i + 2; d = 0
            while j < n:
                if s[j] == '<': d += 1
                elif s[j] == '>' and s[j-1] not in '-=':
                    d -= 1
                    if d == 0: break
                j += 1
            i = j + 1; continue
        out.append(s[i]); i += 1
    return ''.join(out)

def base(t):
    """last path segment of a type, generics and reference removed"""
    if t is None: return None
    t = t.strip()
    while True:
        m = re.match(r"^&(?:'\w+ )?(?:mut )?", t)
        if m and m.end() > 0: t = t[m.end():]
        else: break
    if t.startswith('dyn '): return 'dyn ' + base(t[4:].split(' + ')[0])
    if t.startswith('impl '): return 'impl ' + base(t[5:].split(' + ')[0])
    if t.startswith('('): return t
    if t.startswith('['): return t
    k = t.find('<')
    if k > 0: t = t[:k]
    elif k == 0:
        # <T as Trait>::Assoc
        return t
    return t.split('::')[-1]

def generic_args(t):
    """top-level generic arguments of a type path: Vec<Foo<A>, B> -> ['Foo<A>', 'B']"""
    k = t.find('<')
    if k < 0 or not t.endswith('>'): return []
    return split_top(t[k+1:-1])

def unescape_rust(s):
    out = []; i = 0; n = len(s)
    while i < n:
        c = s[i]
        if c == '\\':
            e = s[i+1]
            if e == 'n': out.append(10); i += 2
            elif e == 't': out.append(9); i += 2
            elif e == 'r': out.append(13); i += 2
            elif e == '0': out.append(0); i += 2
            elif e == '\\': out.append(92); i += 2
            elif e == "'": out.append(39); i += 2
            elif e == '"': out.append(34); i += 2
            elif e == 'x': out.append(int(s[i+2:i+4], 16)); i += 4
            elif e == 'u':
                j = s.index('}', i); out.append(int(s[i+3:j], 16)); i = j + 1
            elif e == '\n':
                i += 2
                while i < n and s[i] in ' \t\n': i += 1
            else: raise ValueError('escape in ' + s)
        else:
            out.append(ord(c)); i += 1
    return out

# ------------------------------------------------------------------ AST
class Place:
    __slots__ = ('local', 'proj', 'ty')
    def __init__(self, local, proj, ty=None): self.local = local; self.proj = proj; self.ty = ty
    def __repr__(self): return '_%d%s' % (self.local, ''.join(repr(p) for p in self.proj))

class Fn:
    def __init__(self, name, lines):
        self.name = name; self.key = name; self.lines = lines
        self.parsed = False; self.kind = 'fn'
    def __repr__(self): return '<Fn %s>' % self.name

    def ensure(self):
        if self.parsed: return self
        self.parsed = True
        hdr = self.lines[0]
        self.locals = {}; self.blocks = {}; self.params = []
        if self.kind == 'fn':
            h = hdr[3:-1].strip()
            m = re.search(r'\((_1: |\) -> |\)$)', h)
            k = m.start()
            close = find_matching(h, k)
            self.params = split_top(h[k+1:close])
            ret = h[close+1:].strip()
            if ret.startswith('->'): ret = ret[2:].strip()
            self.ret = ret or '()'
        for p in self.params:
            m = re.match(r'_(\d+): (.*)$', p)
            if m: self.locals[int(m.group(1))] = m.group(2)
        self.nargs = len(self.params)
        self.locals[0] = self.ret
        self._parse_body(self.lines[1:-1])
        self.lines = None
        return self

    def _parse_body(self, lines):
        cur = None; raw = None; buf = ''
        rawblocks = {}
        for ln in lines:
            s = ln.strip()
            if cur is None:
                if s.startswith('let '):
                    m = re.match(r'let (?:mut )?_(\d+): (.*);$', s)
                    if m: self.locals[int(m.group(1))] = m.group(2)
                    continue
                m = re.match(r'bb(\d+)(?: \(cleanup\))?: \{$', s)
                if m: cur = int(m.group(1)); raw = []; buf = ''
                continue
            if s == '}' and not buf:
                rawblocks[cur] = raw; cur = None; continue
            if not s: continue
            buf += (' ' if buf else '') + s
            if buf.endswith(';') and _balanced_quotes(buf):
                raw.append(buf[:-1]); buf = ''
        self.raw = rawblocks
        self.blocks = {}

    def block(self, bb):
        b = self.blocks.get(bb)
        if b is None:
            raw = self.raw[bb]
            if not raw: b = ([], ('unreachable',))
            else:
                stmts = [parse_stmt(self, s) for s in raw[:-1]]
                stmts = [s for s in stmts if s is not None]
                b = (stmts, parse_term(self, raw[-1]))
            self.blocks[bb] = b
        return b

def _balanced_quotes(s):
    # cheap: a statement line that ends with ';' inside a string literal is rare; check quote parity
    if '"' not in s: return True
    i = 0; n = len(s); inq = False
    while i < n:
        c = s[i]
        if inq:
            if c == '\\': i += 1
            elif c == '"': inq = False
        else:
            if c == '"': inq = True
            elif c == "'":
                j = skip_literal(s, i)
                if j is not None: i = j; continue
        i += 1
    return not inq

def index_mir(text):
    """name -> Fn (unparsed).  Duplicate names (e.g. #[inherent] forwarder + trait impl) get '#dup' suffixes."""
    fns = {}
    lines = text.split('\n')
    i = 0; n = len(lines)
    while i < n:
        ln = lines[i]
        if ln.startswith(('const ', 'static ')) and not ln.endswith('{'):
            m = re.match(r'(?:const|static(?: mut)?) ((?:.*?<impl at [^>]*>)?.*?): (.*?) = (.*);$', ln)
            if m:
                f = Fn(m.group(1), [ln[:-1] + ' {', '    bb0: {', '        _0 = %s;' % m.group(3), '        return;', '    }', '}'])
                f.kind = 'const'; f.ret = m.group(2)
                k = f.name
                while k in fns: k += '#dup'
                f.key = k; fns[k] = f
            i += 1; continue
        if ln.startswith(('fn ', 'const ', 'static ')):
            j = i + 1
            while j < n and lines[j] != '}': j += 1
            body = lines[i:j+1]
            if ln.startswith('fn '):
                h = ln[3:-1].strip()
                m = re.search(r'\((_1: |\) -> |\)$)', h)
                name = h[:m.start()]
                f = Fn(name, body)
            else:
                m = re.match(r'(?:const|static(?: mut)?) ((?:.*?<impl at [^>]*>)?.*?): (.*) = \{$', ln)
                if not m: i = j + 1; continue
                f = Fn(m.group(1), body); f.kind = 'const'; f.ret = m.group(2)
            k = f.name
            while k in fns: k += '#dup'
            f.key = k
            fns[k] = f
            i = j + 1
        else:
            i += 1
    return fns

# ------------------------------------------------------------------ places / operands
def parse_place(f, s):
    s = s.strip()
    pl, pos = _place(f, s, 0)
    if pos != len(s): raise Unsupported('place tail: ' + s)
    return pl

def _place(f, s, i):
    """parse a place starting at s[i]; returns (Place, next index)"""
    if s[i] == '_':
        m = re.compile(r'_(\d+)').match(s, i)
        loc = int(m.group(1)); pl = Place(loc, (), f.locals.get(loc)); i = m.end()
    elif s[i] == '(':
        close = find_matching(s, i)
        inner = s[i+1:close]
        if inner.startswith('*'):
            b, p2 = _place(f, inner, 1)
            if p2 != len(inner): raise Unsupported('place deref tail: ' + s)
            pl = Place(b.local, b.proj + (('deref',),), _deref_ty(b.ty))
        else:
            b, p2 = _place(f, inner, 0)
            rest = inner[p2:]
            m = re.match(r'\.(\d+): (.*)$', rest, re.S)
            if m:
                pl = Place(b.local, b.proj + (('field', int(m.group(1))),), m.group(2))
            else:
                m = re.match(r' as (\w+)$', rest)
                if m: pl = Place(b.local, b.proj + (('down', m.group(1)),), b.ty)
                else:
                    m = re.match(r' as (?:subtype )?(.*)$', rest)
                    if m: pl = Place(b.local, b.proj, m.group(1))
                    else: raise Unsupported('place: ' + s)
        i = close + 1
    else:
        raise Unsupported('place: ' + s)
    n = len(s)
    while i < n and s[i] == '[':
        close = find_matching(s, i)
        idx = s[i+1:close]
        ety = _elem_ty(pl.ty)
        m = re.match(r'_(\d+)$', idx)
        if m: pl = Place(pl.local, pl.proj + (('index', int(m.group(1))),), ety)
        else:
            m = re.match(r'(-?)(\d+) of (\d+)$', idx)
            if m: pl = Place(pl.local, pl.proj + (('cidx', int(m.group(2)), bool(m.group(1))),), ety)
            else:
                m = re.match(r'(\d+):(-?)(\d*)$', idx)
                if m: pl = Place(pl.local, pl.proj + (('sub', int(m.group(1)), int(m.group(3) or 0), bool(m.group(2))),), pl.ty)
                else: raise Unsupported('index: ' + s)
        i = close + 1
    return pl, i

def _deref_ty(t):
    if t is None: return None
    m = re.match(r"^&(?:'\w+ )?(?:mut )?(.*)$", t)
    if m: return m.group(1)
    m = re.match(r'^\*(?:const|mut) (.*)$', t)
    if m: return m.group(1)
    m = re.match(r'^(?:std::boxed::)?Box<(.*)>$', t)
    if m: return split_top(m.group(1))[0]
    return None

def _elem_ty(t):
    if t is None: return None
    m = re.match(r'^\[(.*?)(?:; .*)?\]$', t)
    return m.group(1) if m else None

def parse_operand(f, s):
    s = s.strip()
    if s.startswith('copy '): return ('copy', parse_place(f, s[5:]))
    if s.startswith('move '): return ('move', parse_place(f, s[5:]))
    if s.startswith('const '): return ('const', parse_const(s[6:]))
    if s.startswith('<') or re.match(r'^[\w:]+', s): return ('const', ('zst', s))      # bare function item
    raise Unsupported('operand: ' + s)

def operand_ty(op):
    if op[0] == 'const':
        c = op[1]
        return c[2] if c[0] == 'int' else ('bool' if c[0] == 'bool' else ('char' if c[0] == 'char' else None))
    return op[1].ty

def parse_const(c):
    c = c.strip()
    if c == 'true': return ('bool', True)
    if c == 'false': return ('bool', False)
    if c == '()': return ('unit',)
    m = re.match(r'(-?\d+)_(\w+)$', c)
    if m: return ('int', int(m.group(1)), m.group(2))
    m = re.match(r'(-?[\d.eE+-]+|NaN|-?inf)_?(f32|f64)$', c)
    if m: return ('float', m.group(1), m.group(2))
    if c.startswith('"'): return ('str', unescape_rust(c[1:-1]))
    if c.startswith("'"): return ('char', unescape_rust(c[1:-1])[0])
    if c.startswith('b"'): return ('bytes', unescape_rust(c[2:-1]))
    if c.startswith("b'"): return ('int', unescape_rust(c[2:-1])[0], 'u8')
    m = re.match(r'ZeroSized: (.*)$', c)
    if m: return ('zst', m.group(1))
    if c.startswith('{') and ' as ' in c:
        # {0x.. as fn ptr} etc.
        return ('named', c)
    return ('named', c)

# ------------------------------------------------------------------ statements
BINOPS = {'Eq', 'Ne', 'Lt', 'Le', 'Gt', 'Ge', 'Add', 'Sub', 'Mul', 'Div', 'Rem', 'BitAnd', 'BitOr', 'BitXor', 'Shl', 'Shr',
          'AddWithOverflow', 'SubWithOverflow', 'MulWithOverflow', 'AddUnchecked', 'SubUnchecked', 'MulUnchecked',
          'ShlUnchecked', 'ShrUnchecked', 'Offset', 'Cmp'}
UNOPS = {'Not', 'Neg', 'PtrMetadata'}
SKIP = ('StorageLive', 'StorageDead', 'nop', 'PlaceMention', 'FakeRead', 'AscribeUserType', 'Retag', 'Coverage',
        'ConstEvalCounter', 'Deinit', 'BackwardIncompatibleDropHint', 'assume(')

def parse_stmt(f, s):
    if s.startswith(SKIP): return None
    if s.startswith('discriminant('):
        m = re.match(r'discriminant\((.*)\) = (\d+)$', s)
        return ('setdiscr', parse_place(f, m.group(1)), int(m.group(2)))
    k = _assign_split(s)
    if k < 0: raise Unsupported('stmt: ' + s)
    dest = parse_place(f, s[:k]); rv = s[k+3:]
    return ('assign', dest, parse_rvalue(f, rv), s)

def _assign_split(s):
    """index of the top-level ' = '"""
    depth = 0; i = 0; n = len(s)
    while i < n:
        c = s[i]
        if c in '([{': depth += 1
        elif c in ')]}': depth -= 1
        elif c == ' ' and depth == 0 and s.startswith(' = ', i): return i
        elif c == '"' or c == "'":
            j = skip_literal(s, i)
            if j is not None: i = j; continue
        i += 1
    return -1

_CAST = re.compile(r'^(.*) as (.*?) \((\w+)(?:\(.*\))?\)$', re.S)

def parse_rvalue(f, rv):
    rv = rv.strip()
    if rv.startswith('no_retag '): rv = rv[9:]
    if rv.startswith(('copy ', 'move ', 'const ')):
        if rv.endswith(')') and ' as ' in rv and not rv.startswith(('const "', 'const b"')):
            m = _CAST.match(rv)
            if m:
                try:
                    op = parse_operand(f, m.group(1))
                    return ('cast', op, m.group(2), m.group(3), operand_ty(op))
                except Unsupported:
                    pass
        return ('use', parse_operand(f, rv))
    if rv.startswith('&'):
        m = re.match(r'&(?:raw (const|mut) )?(mut )?(?:fake shallow |fake )?(.*)$', rv, re.S)
        return ('ref', parse_place(f, m.group(3)), bool(m.group(2) or m.group(1) == 'mut'))
    if rv.startswith('deref_copy '):
        return ('use', ('copy', parse_place(f, rv[11:])))
    m = re.match(r'(\w+)\((.*)\)$', rv, re.S)
    if m:
        op = m.group(1)
        if op in BINOPS:
            a, b = split_top(m.group(2))
            oa = parse_operand(f, a); ob = parse_operand(f, b)
            return ('bin', op, oa, ob, operand_ty(oa) or operand_ty(ob))
        if op in UNOPS:
            oa = parse_operand(f, m.group(2))
            return ('un', op, oa, operand_ty(oa))
        if op == 'discriminant': return ('discr', parse_place(f, m.group(2)))
        if op == 'Len': return ('len', parse_place(f, m.group(2)))
        if op in ('SizeOf', 'AlignOf', 'UbChecks', 'ContractChecks', 'OverflowChecks'): return ('nullop', op, m.group(2))
        if op == 'ShallowInitBox': return ('use', parse_operand(f, split_top(m.group(2))[0]))
    if rv == '()': return ('unit',)
    if rv.startswith('(') and rv.endswith(')') and find_matching(rv, 0) == len(rv) - 1:
        return ('tuple', [parse_operand(f, x) for x in split_top(rv[1:-1])])
    if rv.startswith('[') and rv.endswith(']'):
        inner = rv[1:-1]
        parts = split_top(inner, ';')
        if len(parts) == 2:
            return ('repeat', parse_operand(f, parts[0]), parts[1])
        return ('array', [parse_operand(f, x) for x in split_top(inner)])
    m = re.match(r'(\{closure@[^}]*\})(?: \{ (.*) \})?$', rv, re.S)
    if m:
        fields = [parse_operand(f, x.split(': ', 1)[1]) for x in split_top(m.group(2))] if m.group(2) else []
        return ('closure', m.group(1), fields)
    m = re.match(r'(\{(?:coroutine|async)[^}]*\})', rv)
    if m: raise Unsupported('coroutine: ' + rv)
    # aggregate: Path::Variant(args) | Path { f: v } | Path (unit)
    # find end of the path (first top-level '(' or ' {' outside generics)
    depth = 0; i = 0; n = len(rv); cut = n
    while i < n:
        c = rv[i]
        if c == '<': depth += 1
        elif c == '>' and rv[i-1] not in '-=': depth -= 1
        elif depth == 0 and (c == '(' or (c == ' ' and rv.startswith(' {', i))):
            cut = i; break
        elif c == '(' or c == '[':
            j = find_matching(rv, i); i = j
        i += 1
    path = strip_generics(rv[:cut].strip())
    rest = rv[cut:].strip()
    if rest.startswith('('):
        fields = [parse_operand(f, x) for x in split_top(rest[1:-1])]
    elif rest.startswith('{'):
        fields = [parse_operand(f, x.split(': ', 1)[1]) for x in split_top(rest[1:-1].strip())]
    elif rest == '':
        fields = []
    else:
        raise Unsupported('rvalue: ' + rv)
    if not re.match(r'^[\w:<>, &\'\[\]]+$', path): raise Unsupported('rvalue: ' + rv)
    return ('adt', path, fields)

# ------------------------------------------------------------------ terminators
def parse_term(f, t):
    if t == 'return': return ('return',)
    if t.startswith('goto -> '): return ('goto', int(t[10:]))
    if t == 'unreachable': return ('unreachable',)
    if t in ('resume', 'unwind resume') or t.startswith(('resume', 'unwind terminate', 'terminate')): return ('resume',)
    if t.startswith('switchInt('):
        close = find_matching(t, 9)
        op = parse_operand(f, t[10:close])
        targets = []; other = None
        for val, b in re.findall(r'(-?\w+): bb(\d+)', t[close:]):
            if val == 'otherwise': other = int(b)
            else: targets.append((int(val), int(b)))
        return ('switch', op, targets, other, operand_ty(op))
    if t.startswith('drop('):
        return ('goto', int(re.search(r'return: bb(\d+)', t).group(1)))
    if t.startswith('assert('):
        close = find_matching(t, 6)
        inner = split_top(t[7:close])
        c = inner[0]; neg = c.startswith('!')
        op = parse_operand(f, c[1:] if neg else c)
        return ('assert', op, not neg, ', '.join(inner[1:])[:200], int(re.search(r'success: bb(\d+)', t).group(1)))
    if t.startswith(('falseEdge', 'falseUnwind')):
        m = re.search(r'bb(\d+)', t); return ('goto', int(m.group(1)))
    k = _assign_split(t)
    if k >= 0:
        dest = parse_place(f, t[:k]); rest = t[k+3:]
        a = rest.rfind(' -> ')
        callexpr = rest[:a].strip(); tgt = rest[a+4:]
        open_idx = _matching_open(callexpr)
        callee = callexpr[:open_idx].strip()
        args = [parse_operand(f, x) for x in split_top(callexpr[open_idx+1:-1])]
        mm = re.search(r'return: bb(\d+)', tgt)
        m2 = re.match(r'bb(\d+)$', tgt.strip())
        ret = int(mm.group(1)) if mm else (int(m2.group(1)) if m2 else None)
        if callee.startswith(('move ', 'copy ')):
            return ('callptr', dest, parse_operand(f, callee), args, ret)
        return ('call', dest, callee, args, ret, [operand_ty(a_) for a_ in args])
    raise Unsupported('terminator: ' + t)

def _matching_open(s):
    """s ends with ')'; index of its matching '(' (literal-aware, scanning forward)"""
    # forward scan collecting top-level paren spans
    i = 0; n = len(s); last = None
    depth = 0
    while i < n:
        c = s[i]
        if c == '"' or c == "'":
            j = skip_literal(s, i)
            if j is not None: i = j; continue
        if c == '(':
            if depth == 0: last = i
            depth += 1
        elif c == ')': depth -= 1
        elif c in '[{': depth += 1
        elif c in ']}': depth -= 1
        i += 1
    return last
