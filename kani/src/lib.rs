//! Kani proof harnesses for C12 (Value round trips) and C18 (Value Eq/Hash coherence).
#![allow(clippy::all)]
#[cfg(kani)]
pub mod c12;
#[cfg(all(kani, feature = "hashable"))]
mod c18;
#[cfg(all(kani, feature = "ext"))]
mod c12x;
