//! C18 - with hashable-value, Value equality is an equivalence relation coherent with Hash.
use crate::c12::any_value;
use sea_query::*;
use std::hash::{Hash, Hasher};

const CAP: usize = 24;

/// records the byte stream fed by `Hash`: equal streams imply equal hashes for every hasher
struct Rec {
    buf: [u8; CAP],
    n: usize,
}
impl Rec {
    fn new() -> Self {
        Rec { buf: [0; CAP], n: 0 }
    }
    fn of<T: Hash>(v: &T) -> Self {
        let mut r = Rec::new();
        v.hash(&mut r);
        r
    }
    fn same(&self, o: &Rec) -> bool {
        if self.n != o.n {
            return false;
        }
        let mut i = 0;
        while i < CAP {
            if self.buf[i] != o.buf[i] {
                return false;
            }
            i += 1;
        }
        true
    }
}
impl Hasher for Rec {
    fn write(&mut self, bytes: &[u8]) {
        for b in bytes {
            if self.n < CAP {
                self.buf[self.n] = *b;
            }
            self.n += 1;
        }
    }
    fn finish(&self) -> u64 {
        0
    }
}

fn variant_index(v: &Value) -> u8 {
    match v {
        Value::Bool(_) => 0,
        Value::TinyInt(_) => 1,
        Value::SmallInt(_) => 2,
        Value::Int(_) => 3,
        Value::BigInt(_) => 4,
        Value::TinyUnsigned(_) => 5,
        Value::SmallUnsigned(_) => 6,
        Value::Unsigned(_) => 7,
        Value::BigUnsigned(_) => 8,
        Value::Float(_) => 9,
        Value::Double(_) => 10,
        Value::String(_) => 11,
        Value::Char(_) => 12,
        Value::Bytes(_) => 13,
        #[allow(unreachable_patterns)]
        _ => 255,
    }
}

/// scalar variants only (no heap): used for triples
fn any_scalar_value() -> Value {
    let sel: u8 = kani::any();
    kani::assume(sel < 8);
    let some: bool = kani::any();
    match sel {
        0 => Value::Bool(if some { Some(kani::any()) } else { None }),
        1 => Value::Int(if some { Some(kani::any()) } else { None }),
        2 => Value::BigUnsigned(if some { Some(kani::any()) } else { None }),
        3 => Value::Float(if some { Some(kani::any()) } else { None }),
        4 => Value::Double(if some { Some(kani::any()) } else { None }),
        5 => Value::Char(if some { Some(kani::any()) } else { None }),
        6 => Value::TinyInt(if some { Some(kani::any()) } else { None }),
        _ => Value::SmallUnsigned(if some { Some(kani::any()) } else { None }),
    }
}

#[kani::proof]
#[kani::unwind(26)]
fn c18_reflexive_and_clone() {
    let a = any_value();
    // reflexive, also for NaN
    assert!(a == a);
    // equal payloads are equal and hash equally
    let b = a.clone();
    assert!(a == b && b == a);
    assert!(Rec::of(&a).same(&Rec::of(&b)));
    kani::cover!(matches!(a, Value::Double(Some(x)) if x.is_nan()), "NaN reachable");
    std::mem::forget((a, b));
}

#[kani::proof]
#[kani::unwind(26)]
fn c18_symmetric_hash_pairs() {
    let a = any_value();
    let b = any_value();
    let ab = a == b;
    let ba = b == a;
    assert!(ab == ba);
    if variant_index(&a) != variant_index(&b) {
        assert!(!ab);
    }
    if ab {
        assert!(Rec::of(&a).same(&Rec::of(&b)));
    }
    kani::cover!(ab && variant_index(&a) == 9, "equal floats reachable");
    kani::cover!(!ab && variant_index(&a) == variant_index(&b), "unequal same-variant reachable");
    std::mem::forget((a, b));
}

/// NULL, empty and one-element String / Bytes payloads: equal exactly when presence and content agree, and then they hash equally
fn heap_value(sel: u8, b: u8) -> Value {
    match sel {
        0 => Value::String(None),
        1 => Value::String(Some(Box::new(String::new()))),
        2 => Value::String(Some(Box::new(String::from(b as char)))),
        3 => Value::Bytes(None),
        4 => Value::Bytes(Some(Box::new(Vec::new()))),
        _ => Value::Bytes(Some(Box::new(vec![b]))),
    }
}

#[kani::proof]
#[kani::unwind(26)]
fn c18_string_bytes_pairs() {
    let s1: u8 = kani::any();
    let s2: u8 = kani::any();
    let b1: u8 = kani::any();
    let b2: u8 = kani::any();
    kani::assume(s1 < 6 && s2 < 6 && b1 < 0x80 && b2 < 0x80);
    let a = heap_value(s1, b1);
    let b = heap_value(s2, b2);
    let ab = a == b;
    assert!(ab == (b == a));
    let expect = s1 == s2 && ((s1 != 2 && s1 != 5) || b1 == b2);
    assert!(ab == expect);
    if ab {
        assert!(Rec::of(&a).same(&Rec::of(&b)));
    }
    kani::cover!(s1 == 0 && s2 == 1, "NULL vs empty string reachable");
    kani::cover!(ab && s1 == 2, "equal one-character strings reachable");
    std::mem::forget((a, b));
}

#[kani::proof]
fn c18_float_payloads() {
    // the documented float semantics: every NaN equals every NaN, +0 equals -0, otherwise bitwise/ordinary equality
    let x: f64 = kani::any();
    let y: f64 = kani::any();
    let a = Value::Double(Some(x));
    let b = Value::Double(Some(y));
    let expect = (x.is_nan() && y.is_nan()) || x == y;
    assert!((a == b) == expect);
    let p: f32 = kani::any();
    let q: f32 = kani::any();
    let c = Value::Float(Some(p));
    let d = Value::Float(Some(q));
    let expect32 = (p.is_nan() && q.is_nan()) || p == q;
    assert!((c == d) == expect32);
    assert!(Value::Double(None) != a && Value::Float(None) != c);
    kani::cover!(x.is_nan() && y.is_nan() && x.to_bits() != y.to_bits(), "two different NaN payloads");
    kani::cover!(x == 0.0 && y == 0.0 && x.to_bits() != y.to_bits(), "signed zeros");
}

#[kani::proof]
#[kani::unwind(26)]
fn c18_float_hash() {
    let x: f64 = kani::any();
    let y: f64 = kani::any();
    let a = Value::Double(Some(x));
    let b = Value::Double(Some(y));
    if a == b {
        assert!(Rec::of(&a).same(&Rec::of(&b)));
    }
    let p: f32 = kani::any();
    let q: f32 = kani::any();
    let c = Value::Float(Some(p));
    let d = Value::Float(Some(q));
    if c == d {
        assert!(Rec::of(&c).same(&Rec::of(&d)));
    }
    kani::cover!(x == 0.0 && y == 0.0 && x.to_bits() != y.to_bits(), "signed zeros");
    kani::cover!(p.is_nan() && q.is_nan() && p.to_bits() != q.to_bits(), "two NaN payloads");
}

// transitivity: by c18_symmetric_hash_pairs values of different variants are never equal, so a == b && b == c forces one variant;
// it is therefore proved per variant (group).
fn opt<T: kani::Arbitrary>() -> Option<T> {
    if kani::any() { Some(kani::any()) } else { None }
}

#[kani::proof]
fn c18_transitive_double() {
    let (a, b, c) = (Value::Double(opt()), Value::Double(opt()), Value::Double(opt()));
    if a == b && b == c {
        assert!(a == c);
    }
    kani::cover!(a == b && b == c, "equal triple reachable");
    std::mem::forget((a, b, c));
}

#[kani::proof]
fn c18_transitive_float() {
    let (a, b, c) = (Value::Float(opt()), Value::Float(opt()), Value::Float(opt()));
    if a == b && b == c {
        assert!(a == c);
    }
    kani::cover!(a == b && b == c, "equal triple reachable");
    std::mem::forget((a, b, c));
}

macro_rules! transitive_variant {
    ($name:ident, $variant:ident) => {
        #[kani::proof]
        fn $name() {
            let (a, b, c) = (Value::$variant(opt()), Value::$variant(opt()), Value::$variant(opt()));
            if a == b && b == c {
                assert!(a == c);
            }
            kani::cover!(a == b && b == c, "equal triple reachable");
            std::mem::forget((a, b, c));
        }
    };
}
transitive_variant!(c18_transitive_bool, Bool);
transitive_variant!(c18_transitive_i8, TinyInt);
transitive_variant!(c18_transitive_i16, SmallInt);
transitive_variant!(c18_transitive_i32, Int);
transitive_variant!(c18_transitive_i64, BigInt);
transitive_variant!(c18_transitive_u8, TinyUnsigned);
transitive_variant!(c18_transitive_u16, SmallUnsigned);
transitive_variant!(c18_transitive_u32, Unsigned);
transitive_variant!(c18_transitive_u64, BigUnsigned);
transitive_variant!(c18_transitive_char, Char);

#[kani::proof]
#[kani::unwind(26)]
fn c18_value_tuples() {
    // ValueTuple derives Eq/Hash from Value: pairs of (Int, Double) tuples, plus arity and order sensitivity
    let t = ValueTuple::Two(Value::Int(opt()), Value::Double(opt()));
    let u = ValueTuple::Two(Value::Int(opt()), Value::Double(opt()));
    let tu = t == u;
    assert!(tu == (u == t));
    assert!(t == t);
    if tu {
        assert!(Rec::of(&t).same(&Rec::of(&u)));
    }
    let swapped = ValueTuple::Two(Value::Double(opt()), Value::Int(opt()));
    assert!(swapped != t);
    let one = ValueTuple::One(Value::Int(opt()));
    assert!(one != t);
    // the same members held by another shape (Many built from a Vec against Two): whatever equality says, equal tuples must hash equally
    let a: Option<i32> = opt();
    let b: Option<f64> = opt();
    let two = ValueTuple::Two(Value::Int(a), Value::Double(b));
    let many = ValueTuple::Many(vec![Value::Int(a), Value::Double(b)]);
    if two == many {
        assert!(Rec::of(&two).same(&Rec::of(&many)));
    }
    assert!((two == many) == (many == two));
    std::mem::forget((two, many));
    kani::cover!(tu, "equal tuples reachable");
    kani::cover!(!tu, "unequal tuples reachable");
    std::mem::forget((t, u, swapped, one));
}
