//! C12 for the value types behind cargo features (uuid, rust_decimal, chrono, time, mac_address, ipnetwork, postgres arrays).
//! The payload of each type is built from kani::any() through the type's own checked constructor, so every value the constructor admits is covered.
use sea_query::*;

/// round trip of one feature-gated type: Value::from, try_from, Option, NULL of the own variant, as_null / dummy_value, foreign variants rejected both ways
macro_rules! ext_roundtrip {
    ($name:ident, $unwind:expr, $t:ty, $variant:ident, $mk:expr, $same:expr) => {
        #[kani::proof]
        #[kani::unwind($unwind)]
        fn $name() {
            let x: $t = $mk;
            let same = $same;
            let v: Value = x.clone().into();
            assert!(matches!(v, Value::$variant(Some(_))));
            let n = v.as_null();
            assert!(matches!(n, Value::$variant(None)));
            let y: $t = <$t as ValueType>::try_from(v).expect("extracts as its own type");
            assert!(same(&x, &y));
            // Option<T>
            let present: bool = kani::any();
            let o: Option<$t> = if present { Some(x.clone()) } else { None };
            let vo: Value = o.clone().into();
            assert!(matches!(vo, Value::$variant(_)));
            let back: Option<$t> = <Option<$t> as ValueType>::try_from(vo).expect("extracts as Option of its own type");
            match (&o, &back) {
                (None, None) => {}
                (Some(a), Some(b)) => assert!(same(a, b)),
                _ => panic!("presence changed"),
            }
            // the NULL of T is T's own variant and extracts as absent
            let nul = <$t as Nullable>::null();
            assert!(matches!(nul, Value::$variant(None)));
            assert!(<$t as ValueType>::try_from(<$t as Nullable>::null()).is_err());
            // foreign variants are rejected in both directions
            let w: Value = Value::Int(Some(kani::any()));
            assert!(<$t as ValueType>::try_from(w).is_err());
            let own: Value = x.clone().into();
            assert!(<i32 as ValueType>::try_from(own).is_err());
            let own2: Value = x.clone().into();
            let rs = <String as ValueType>::try_from(own2);
            assert!(rs.is_err());
            kani::cover!(present, "present optional reachable");
            kani::cover!(!present, "absent optional reachable");
            std::mem::forget((x, y, o, back, rs));
        }
    };
}

ext_roundtrip!(c12x_uuid, 20, uuid::Uuid, Uuid, uuid::Uuid::from_bytes(kani::any()), |a: &uuid::Uuid, b: &uuid::Uuid| a.as_bytes() == b.as_bytes());

ext_roundtrip!(
    c12x_decimal,
    20,
    rust_decimal::Decimal,
    Decimal,
    {
        let scale: u32 = kani::any();
        kani::assume(scale <= 28);
        rust_decimal::Decimal::from_parts(kani::any(), kani::any(), kani::any(), kani::any(), scale)
    },
    |a: &rust_decimal::Decimal, b: &rust_decimal::Decimal| a.serialize() == b.serialize()
);

ext_roundtrip!(c12x_mac_address, 10, mac_address::MacAddress, MacAddress, mac_address::MacAddress::new(kani::any()), |a: &mac_address::MacAddress, b: &mac_address::MacAddress| a.bytes() == b.bytes());

ext_roundtrip!(
    c12x_ipnetwork_v4,
    8,
    ipnetwork::IpNetwork,
    IpNetwork,
    {
        let prefix: u8 = kani::any();
        kani::assume(prefix <= 32);
        ipnetwork::IpNetwork::V4(ipnetwork::Ipv4Network::new(std::net::Ipv4Addr::from(kani::any::<u32>()), prefix).expect("valid prefix"))
    },
    |a: &ipnetwork::IpNetwork, b: &ipnetwork::IpNetwork| a == b
);

ext_roundtrip!(
    c12x_ipnetwork_v6,
    20,
    ipnetwork::IpNetwork,
    IpNetwork,
    {
        let prefix: u8 = kani::any();
        kani::assume(prefix <= 128);
        ipnetwork::IpNetwork::V6(ipnetwork::Ipv6Network::new(std::net::Ipv6Addr::from(kani::any::<u128>()), prefix).expect("valid prefix"))
    },
    |a: &ipnetwork::IpNetwork, b: &ipnetwork::IpNetwork| a == b
);

fn any_naive_date() -> chrono::NaiveDate {
    let year: i32 = kani::any();
    let ordinal: u32 = kani::any();
    kani::assume(year >= -9999 && year <= 9999 && ordinal >= 1 && ordinal <= 366);
    match chrono::NaiveDate::from_yo_opt(year, ordinal) {
        Some(d) => d,
        None => {
            kani::assume(false);
            unreachable!()
        }
    }
}

fn any_naive_time() -> chrono::NaiveTime {
    let secs: u32 = kani::any();
    let nano: u32 = kani::any();
    match chrono::NaiveTime::from_num_seconds_from_midnight_opt(secs, nano) {
        Some(t) => t,
        None => {
            kani::assume(false);
            unreachable!()
        }
    }
}

ext_roundtrip!(c12x_chrono_date, 4, chrono::NaiveDate, ChronoDate, any_naive_date(), |a: &chrono::NaiveDate, b: &chrono::NaiveDate| a == b);
ext_roundtrip!(c12x_chrono_time, 4, chrono::NaiveTime, ChronoTime, any_naive_time(), |a: &chrono::NaiveTime, b: &chrono::NaiveTime| a == b);
ext_roundtrip!(
    c12x_chrono_datetime,
    4,
    chrono::NaiveDateTime,
    ChronoDateTime,
    chrono::NaiveDateTime::new(any_naive_date(), any_naive_time()),
    |a: &chrono::NaiveDateTime, b: &chrono::NaiveDateTime| a == b
);
ext_roundtrip!(
    c12x_chrono_datetime_utc,
    4,
    chrono::DateTime<chrono::Utc>,
    ChronoDateTimeUtc,
    chrono::NaiveDateTime::new(any_naive_date(), any_naive_time()).and_utc(),
    |a: &chrono::DateTime<chrono::Utc>, b: &chrono::DateTime<chrono::Utc>| a.naive_utc() == b.naive_utc()
);
ext_roundtrip!(
    c12x_chrono_datetime_tz,
    4,
    chrono::DateTime<chrono::FixedOffset>,
    ChronoDateTimeWithTimeZone,
    {
        let off: i32 = kani::any();
        kani::assume(off > -86_400 && off < 86_400);
        let tz = chrono::FixedOffset::east_opt(off).expect("offset in range");
        chrono::DateTime::<chrono::FixedOffset>::from_naive_utc_and_offset(chrono::NaiveDateTime::new(any_naive_date(), any_naive_time()), tz)
    },
    |a: &chrono::DateTime<chrono::FixedOffset>, b: &chrono::DateTime<chrono::FixedOffset>| a.naive_utc() == b.naive_utc() && a.offset().local_minus_utc() == b.offset().local_minus_utc()
);

fn any_time_date() -> time::Date {
    let year: i32 = kani::any();
    let ordinal: u16 = kani::any();
    kani::assume(year >= -9999 && year <= 9999);
    match time::Date::from_ordinal_date(year, ordinal) {
        Ok(d) => d,
        Err(_) => {
            kani::assume(false);
            unreachable!()
        }
    }
}

fn any_time_time() -> time::Time {
    match time::Time::from_hms_nano(kani::any(), kani::any(), kani::any(), kani::any()) {
        Ok(t) => t,
        Err(_) => {
            kani::assume(false);
            unreachable!()
        }
    }
}

ext_roundtrip!(c12x_time_date, 4, time::Date, TimeDate, any_time_date(), |a: &time::Date, b: &time::Date| a == b);
ext_roundtrip!(c12x_time_time, 4, time::Time, TimeTime, any_time_time(), |a: &time::Time, b: &time::Time| a == b);
ext_roundtrip!(
    c12x_time_datetime,
    4,
    time::PrimitiveDateTime,
    TimeDateTime,
    time::PrimitiveDateTime::new(any_time_date(), any_time_time()),
    |a: &time::PrimitiveDateTime, b: &time::PrimitiveDateTime| a == b
);
ext_roundtrip!(
    c12x_time_datetime_tz,
    4,
    time::OffsetDateTime,
    TimeDateTimeWithTimeZone,
    {
        let off: i32 = kani::any();
        kani::assume(off > -86_400 && off < 86_400);
        time::PrimitiveDateTime::new(any_time_date(), any_time_time()).assume_offset(time::UtcOffset::from_whole_seconds(off).expect("offset in range"))
    },
    |a: &time::OffsetDateTime, b: &time::OffsetDateTime| a.date() == b.date() && a.time() == b.time() && a.offset() == b.offset()
);

// serde_json::Value and BigDecimal (recursive / heap-backed payloads) are not encoded: CBMC does not finish even the NULL / zero round trip within 300 s.

/// Postgres arrays: Vec<T> <-> Value::Array keeps length, order and element type (one harness per concrete length, symbolic elements)
macro_rules! array_roundtrip {
    ($name:ident, $len:expr) => {
        #[kani::proof]
        #[kani::unwind(5)]
        fn $name() {
            let raw: [i32; 2] = kani::any();
            let mut xs: Vec<i32> = Vec::with_capacity(2);
            if $len > 0 {
                xs.push(raw[0]);
            }
            if $len > 1 {
                xs.push(raw[1]);
            }
            let v: Value = xs.into();
            match &v {
                Value::Array(ArrayType::Int, Some(items)) => assert!(items.len() == $len),
                _ => panic!("not an Int array"),
            }
            let back: Vec<i32> = <Vec<i32> as ValueType>::try_from(v).expect("extracts");
            assert!(back.len() == $len);
            if $len > 0 {
                assert!(back[0] == raw[0]);
            }
            if $len > 1 {
                assert!(back[1] == raw[1]);
            }
            kani::cover!(true, "harness reaches its end");
            std::mem::forget(back);
        }
    };
}
array_roundtrip!(c12x_array_i32_len0, 0);
array_roundtrip!(c12x_array_i32_len1, 1);
array_roundtrip!(c12x_array_i32_len2, 2);

#[kani::proof]
#[kani::unwind(4)]
fn c12x_array_wrong_type() {
    // an array of another element type does not extract as Vec<i32>; the NULL of Vec<i32> is an Int-array NULL and extracts as absent
    let other: Value = vec![kani::any::<bool>()].into();
    let r = <Vec<i32> as ValueType>::try_from(other);
    assert!(r.is_err());
    let n: Value = Option::<Vec<i32>>::None.into();
    assert!(matches!(n, Value::Array(ArrayType::Int, None)));
    let ob = <Option<Vec<i32>> as ValueType>::try_from(n).expect("extracts");
    assert!(ob.is_none());
    let scalar: Value = Value::Int(Some(kani::any()));
    let r2 = <Vec<i32> as ValueType>::try_from(scalar);
    assert!(r2.is_err());
    // the element type is part of the value even when there is no element to look at
    let empty: Value = Vec::<i32>::new().into();
    assert!(matches!(empty, Value::Array(ArrayType::Int, Some(_))));
    let r3 = <Vec<bool> as ValueType>::try_from(empty);
    assert!(r3.is_err());
    let empty2: Value = Vec::<bool>::new().into();
    let r4 = <Option<Vec<i32>> as ValueType>::try_from(empty2);
    assert!(r4.is_err());
    std::mem::forget((r3, r4));
    kani::cover!(true, "harness reaches its end");
    std::mem::forget((r, ob, r2));
}
