use sea_query::*;

fn variant_index(v: &Value) -> u8 {
    match v {
        Value::Bool(_) => 0,
        Value::TinyInt(_) => 1,
        Value::SmallInt(_) => 2,
        Value::Int(_) => 3,
        Value::BigInt(_) => 4,
        Value::TinyUnsigned(_) => 5,
        Value::SmallUnsigned(_) => 6,
        Value::Unsigned(_) => 7,
        Value::BigUnsigned(_) => 8,
        Value::Float(_) => 9,
        Value::Double(_) => 10,
        Value::String(_) => 11,
        Value::Char(_) => 12,
        Value::Bytes(_) => 13,
        #[allow(unreachable_patterns)]
        _ => 255,
    }
}

fn is_null(v: &Value) -> bool {
    match v {
        Value::Bool(x) => x.is_none(),
        Value::TinyInt(x) => x.is_none(),
        Value::SmallInt(x) => x.is_none(),
        Value::Int(x) => x.is_none(),
        Value::BigInt(x) => x.is_none(),
        Value::TinyUnsigned(x) => x.is_none(),
        Value::SmallUnsigned(x) => x.is_none(),
        Value::Unsigned(x) => x.is_none(),
        Value::BigUnsigned(x) => x.is_none(),
        Value::Float(x) => x.is_none(),
        Value::Double(x) => x.is_none(),
        Value::String(x) => x.is_none(),
        Value::Char(x) => x.is_none(),
        Value::Bytes(x) => x.is_none(),
        #[allow(unreachable_patterns)]
        _ => false,
    }
}

/// an arbitrary value over the 14 default variants; heap payloads are short concrete-length buffers with symbolic content
pub fn any_value() -> Value {
    let sel: u8 = kani::any();
    kani::assume(sel < 14);
    let some: bool = kani::any();
    match sel {
        0 => Value::Bool(if some { Some(kani::any()) } else { None }),
        1 => Value::TinyInt(if some { Some(kani::any()) } else { None }),
        2 => Value::SmallInt(if some { Some(kani::any()) } else { None }),
        3 => Value::Int(if some { Some(kani::any()) } else { None }),
        4 => Value::BigInt(if some { Some(kani::any()) } else { None }),
        5 => Value::TinyUnsigned(if some { Some(kani::any()) } else { None }),
        6 => Value::SmallUnsigned(if some { Some(kani::any()) } else { None }),
        7 => Value::Unsigned(if some { Some(kani::any()) } else { None }),
        8 => Value::BigUnsigned(if some { Some(kani::any()) } else { None }),
        9 => Value::Float(if some { Some(kani::any()) } else { None }),
        10 => Value::Double(if some { Some(kani::any()) } else { None }),
        11 => Value::String(if some {
            let b: u8 = kani::any();
            kani::assume(b < 0x80);
            Some(Box::new(String::from(b as char)))
        } else {
            None
        }),
        12 => Value::Char(if some { Some(kani::any()) } else { None }),
        _ => Value::Bytes(if some { Some(Box::new(vec![kani::any::<u8>()])) } else { None }),
    }
}

trait Same {
    fn same(&self, o: &Self) -> bool;
}
macro_rules! same_eq { ($($t:ty),*) => { $(impl Same for $t { fn same(&self, o: &Self) -> bool { self == o } })* } }
same_eq!(bool, i8, i16, i32, i64, u8, u16, u32, u64, char);
impl Same for f32 {
    fn same(&self, o: &Self) -> bool {
        self.to_bits() == o.to_bits()
    }
}
impl Same for f64 {
    fn same(&self, o: &Self) -> bool {
        self.to_bits() == o.to_bits()
    }
}

macro_rules! scalar_roundtrip {
    ($name:ident, $t:ty, $idx:expr) => {
        #[kani::proof]
        fn $name() {
            let x: $t = kani::any();
            let v: Value = x.into();
            assert!(variant_index(&v) == $idx);
            assert!(!is_null(&v));
            // null-of-same-type and dummy-value keep the variant
            let n = v.as_null();
            assert!(variant_index(&n) == $idx && is_null(&n));
            let d = n.dummy_value();
            assert!(variant_index(&d) == $idx && !is_null(&d));
            let y: $t = <$t as ValueType>::try_from(v).expect("extracts as its own type");
            assert!(x.same(&y));
            // Option<T>
            let o: Option<$t> = kani::any();
            let vo: Value = o.into();
            assert!(variant_index(&vo) == $idx);
            assert!(is_null(&vo) == o.is_none());
            let back: Option<$t> = <Option<$t> as ValueType>::try_from(vo).expect("extracts as Option of its own type");
            match (o, back) {
                (None, None) => {}
                (Some(a), Some(b)) => assert!(a.same(&b)),
                _ => panic!("presence changed"),
            }
            // the NULL of T is T's variant
            let nul = <$t as Nullable>::null();
            assert!(variant_index(&nul) == $idx && is_null(&nul));
            kani::cover!(true, "harness reaches its end");
        }
    };
}

scalar_roundtrip!(c12_rt_bool, bool, 0);
scalar_roundtrip!(c12_rt_i8, i8, 1);
scalar_roundtrip!(c12_rt_i16, i16, 2);
scalar_roundtrip!(c12_rt_i32, i32, 3);
scalar_roundtrip!(c12_rt_i64, i64, 4);
scalar_roundtrip!(c12_rt_u8, u8, 5);
scalar_roundtrip!(c12_rt_u16, u16, 6);
scalar_roundtrip!(c12_rt_u32, u32, 7);
scalar_roundtrip!(c12_rt_u64, u64, 8);
scalar_roundtrip!(c12_rt_f32, f32, 9);
scalar_roundtrip!(c12_rt_f64, f64, 10);
scalar_roundtrip!(c12_rt_char, char, 12);

/// extraction as T succeeds exactly for T's own variant holding a value
macro_rules! wrong_type {
    ($name:ident, $t:ty, $idx:expr) => {
        #[kani::proof]
        #[kani::unwind(4)]
        fn $name() {
            let v = any_value();
            let idx = variant_index(&v);
            let null = is_null(&v);
            let r = <$t as ValueType>::try_from(v);
            assert!(r.is_ok() == (idx == $idx && !null));
            // Option<T>: own variant (NULL -> None), anything else is an error
            let w = any_value();
            let widx = variant_index(&w);
            let wnull = is_null(&w);
            let ro = <Option<$t> as ValueType>::try_from(w);
            match ro {
                Ok(None) => assert!(widx == $idx && wnull),
                Ok(Some(_)) => assert!(widx == $idx && !wnull),
                Err(_) => assert!(widx != $idx),
            }
            kani::cover!(idx == $idx && !null, "own variant reachable");
            kani::cover!(idx != $idx, "foreign variant reachable");
            std::mem::forget(r);
        }
    };
}
wrong_type!(c12_wt_bool, bool, 0);
wrong_type!(c12_wt_i8, i8, 1);
wrong_type!(c12_wt_i16, i16, 2);
wrong_type!(c12_wt_i32, i32, 3);
wrong_type!(c12_wt_i64, i64, 4);
wrong_type!(c12_wt_u8, u8, 5);
wrong_type!(c12_wt_u16, u16, 6);
wrong_type!(c12_wt_u32, u32, 7);
wrong_type!(c12_wt_u64, u64, 8);
wrong_type!(c12_wt_f32, f32, 9);
wrong_type!(c12_wt_f64, f64, 10);
wrong_type!(c12_wt_char, char, 12);

#[kani::proof]
#[kani::unwind(4)]
fn c12_wt_string_bytes() {
    let v = any_value();
    let idx = variant_index(&v);
    let null = is_null(&v);
    let r = <String as ValueType>::try_from(v);
    assert!(r.is_ok() == (idx == 11 && !null));
    std::mem::forget(r);
    let w = any_value();
    let widx = variant_index(&w);
    let wnull = is_null(&w);
    let rb = <Vec<u8> as ValueType>::try_from(w);
    assert!(rb.is_ok() == (widx == 13 && !wnull));
    std::mem::forget(rb);
    kani::cover!(idx == 11 && !null, "string reachable");
}

#[kani::proof]
#[kani::unwind(5)]
fn c12_rt_string_bytes() {
    // strings / byte vectors of length <= 2 with symbolic content
    let len: usize = kani::any();
    kani::assume(len <= 2);
    let raw: [u8; 2] = kani::any();
    kani::assume(raw[0] < 0x80 && raw[1] < 0x80);
    let mut s = String::new();
    if len > 0 {
        s.push(raw[0] as char);
    }
    if len > 1 {
        s.push(raw[1] as char);
    }
    let v: Value = s.clone().into();
    assert!(variant_index(&v) == 11 && !is_null(&v));
    let t: String = <String as ValueType>::try_from(v).expect("extracts");
    assert!(t.len() == len);
    if len > 0 {
        assert!(t.as_bytes()[0] == raw[0]);
    }
    if len > 1 {
        assert!(t.as_bytes()[1] == raw[1]);
    }
    let b: Vec<u8> = if len == 0 { vec![] } else if len == 1 { vec![raw[0]] } else { vec![raw[0], raw[1]] };
    let vb: Value = b.clone().into();
    assert!(variant_index(&vb) == 13 && !is_null(&vb));
    let tb: Vec<u8> = <Vec<u8> as ValueType>::try_from(vb).expect("extracts");
    assert!(tb.len() == len);
    if len > 0 {
        assert!(tb[0] == raw[0]);
    }
    if len > 1 {
        assert!(tb[1] == raw[1]);
    }
    // absent optional string is the NULL of the String variant
    let n: Value = Option::<String>::None.into();
    assert!(variant_index(&n) == 11 && is_null(&n));
    let back = <Option<String> as ValueType>::try_from(n).expect("extracts");
    assert!(back.is_none());
    // &str and Cow<str>
    let vs: Value = "ab".into();
    assert!(variant_index(&vs) == 11);
    let c: std::borrow::Cow<'_, str> = <std::borrow::Cow<'_, str> as ValueType>::try_from(vs).expect("extracts");
    assert!(c.len() == 2);
    std::mem::forget((s, t, b, tb, c));
    kani::cover!(len == 2, "length two reachable");
}

#[kani::proof]
#[kani::unwind(14)]
fn c12_tuples() {
    let a: i32 = kani::any();
    let b: u64 = kani::any();
    let c: bool = kani::any();
    // arity and order through into_value_tuple / into_iter
    let t1 = a.into_value_tuple();
    assert!(matches!(t1, ValueTuple::One(Value::Int(Some(x))) if x == a));
    let t2 = (a, b).into_value_tuple();
    match &t2 {
        ValueTuple::Two(Value::Int(Some(x)), Value::BigUnsigned(Some(y))) => assert!(*x == a && *y == b),
        _ => panic!("arity/order"),
    }
    let t3 = (a, b, c).into_value_tuple();
    match &t3 {
        ValueTuple::Three(Value::Int(Some(x)), Value::BigUnsigned(Some(y)), Value::Bool(Some(z))) => assert!(*x == a && *y == b && *z == c),
        _ => panic!("arity/order"),
    }
    let mut it = t3.into_iter();
    assert!(matches!(it.next(), Some(Value::Int(Some(x))) if x == a));
    assert!(matches!(it.next(), Some(Value::BigUnsigned(Some(y))) if y == b));
    assert!(matches!(it.next(), Some(Value::Bool(Some(z))) if z == c));
    assert!(it.next().is_none());
    // from_value_tuple
    let (x, y): (i32, u64) = FromValueTuple::from_value_tuple((a, b));
    assert!(x == a && y == b);
    let (x3, y3, z3): (i32, u64, bool) = FromValueTuple::from_value_tuple((a, b, c));
    assert!(x3 == a && y3 == b && z3 == c);
    std::mem::forget(it);
    kani::cover!(true, "end");
}

#[kani::proof]
#[kani::unwind(14)]
fn c12_tuples_many() {
    let v: [i32; 12] = kani::any();
    let t4 = (v[0], v[1], v[2], v[3]).into_value_tuple();
    assert!(matches!(&t4, ValueTuple::Many(m) if m.len() == 4));
    let t6 = (v[0], v[1], v[2], v[3], v[4], v[5]).into_value_tuple();
    assert!(matches!(&t6, ValueTuple::Many(m) if m.len() == 6));
    let t12 = (v[0], v[1], v[2], v[3], v[4], v[5], v[6], v[7], v[8], v[9], v[10], v[11]).into_value_tuple();
    assert!(matches!(&t12, ValueTuple::Many(m) if m.len() == 12));
    let mut i = 0;
    for x in t12.into_iter() {
        assert!(matches!(x, Value::Int(Some(y)) if y == v[i]));
        i += 1;
    }
    assert!(i == 12);
    let mut j = 0;
    for x in t6.into_iter() {
        assert!(matches!(x, Value::Int(Some(y)) if y == v[j]));
        j += 1;
    }
    assert!(j == 6);
    let back: (i32, i32, i32, i32) = FromValueTuple::from_value_tuple(t4);
    assert!(back.0 == v[0] && back.1 == v[1] && back.2 == v[2] && back.3 == v[3]);
    kani::cover!(true, "end");
}

/// every remaining arity (5, 7 .. 11): arity and member order through into_value_tuple / into_iter
macro_rules! tuple_arity {
    ($name:ident, $n:expr, $($i:expr),+) => {
        #[kani::proof]
        #[kani::unwind(14)]
        fn $name() {
            let v: [i32; 12] = kani::any();
            let t = ($(v[$i]),+).into_value_tuple();
            assert!(matches!(&t, ValueTuple::Many(m) if m.len() == $n));
            let mut i = 0;
            for x in t.into_iter() {
                assert!(matches!(x, Value::Int(Some(y)) if y == v[i]));
                i += 1;
            }
            assert!(i == $n);
            kani::cover!(true, "end");
        }
    };
}
tuple_arity!(c12_tuple_arity5, 5, 0, 1, 2, 3, 4);
tuple_arity!(c12_tuple_arity7, 7, 0, 1, 2, 3, 4, 5, 6);
tuple_arity!(c12_tuple_arity8, 8, 0, 1, 2, 3, 4, 5, 6, 7);
tuple_arity!(c12_tuple_arity9, 9, 0, 1, 2, 3, 4, 5, 6, 7, 8);
tuple_arity!(c12_tuple_arity10, 10, 0, 1, 2, 3, 4, 5, 6, 7, 8, 9);
tuple_arity!(c12_tuple_arity11, 11, 0, 1, 2, 3, 4, 5, 6, 7, 8, 9, 10);

/// arity mismatch: extracting a value tuple as a tuple type of a different arity must fail (panic), never truncate or pad.
/// `#[kani::should_panic]`: the harness is verified only if the panic is reached for the symbolic members; the `_native`
/// twin is the native replay (same calls under catch_unwind).
macro_rules! tuple_mismatch {
    ($name:ident, $native:ident, ($($src:expr),+), $target:ty) => {
        #[kani::proof]
        #[kani::unwind(14)]
        #[kani::should_panic]
        fn $name() {
            let v: [i32; 12] = kani::any();
            let t = ($(v[$src]),+).into_value_tuple();
            let _back: $target = FromValueTuple::from_value_tuple(t);
        }
        #[cfg(test)]
        #[test]
        fn $native() {
            let v: [i32; 12] = [1, 2, 3, 4, 5, 6, 7, 8, 9, 10, 11, 12];
            let r = std::panic::catch_unwind(move || {
                let t = ($(v[$src]),+).into_value_tuple();
                let _back: $target = FromValueTuple::from_value_tuple(t);
            });
            assert!(r.is_err(), "a value tuple was extracted as a tuple of a different arity");
        }
    };
}
tuple_mismatch!(c12_tuple_5_as_4_mustpanic, c12_tuple_5_as_4_mustpanic_native, (0, 1, 2, 3, 4), (i32, i32, i32, i32));
tuple_mismatch!(c12_tuple_4_as_5_mustpanic, c12_tuple_4_as_5_mustpanic_native, (0, 1, 2, 3), (i32, i32, i32, i32, i32));
tuple_mismatch!(c12_tuple_12_as_11_mustpanic, c12_tuple_12_as_11_mustpanic_native, (0, 1, 2, 3, 4, 5, 6, 7, 8, 9, 10, 11), (i32, i32, i32, i32, i32, i32, i32, i32, i32, i32, i32));
tuple_mismatch!(c12_tuple_3_as_2_mustpanic, c12_tuple_3_as_2_mustpanic_native, (0, 1, 2), (i32, i32));
tuple_mismatch!(c12_tuple_2_as_3_mustpanic, c12_tuple_2_as_3_mustpanic_native, (0, 1), (i32, i32, i32));
tuple_mismatch!(c12_tuple_4_as_3_mustpanic, c12_tuple_4_as_3_mustpanic_native, (0, 1, 2, 3), (i32, i32, i32));
