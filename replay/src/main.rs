//! Native replay of harness inputs against the real sea-query build in /repo.
//! Protocol: one JSON request per line on stdin, one JSON response per line on stdout.
use sea_query::*;
use serde_json::{json, Value as J};
use std::io::{BufRead, Write};

mod script;
mod stmt;
mod ddl;

fn cps(s: &str) -> J {
    J::Array(s.chars().map(|c| json!(c as u32)).collect())
}

fn from_cps(j: &J) -> String {
    j.as_array()
        .expect("array of code points")
        .iter()
        .map(|c| char::from_u32(c.as_u64().unwrap() as u32).expect("scalar value"))
        .collect()
}

fn escape_with(backend: &str, s: &str, un: bool) -> String {
    match (backend, un) {
        ("mysql", false) => MysqlQueryBuilder.escape_string(s),
        ("mysql", true) => MysqlQueryBuilder.unescape_string(s),
        ("postgres", false) => PostgresQueryBuilder.escape_string(s),
        ("postgres", true) => PostgresQueryBuilder.unescape_string(s),
        ("sqlite", false) => SqliteQueryBuilder.escape_string(s),
        ("sqlite", true) => SqliteQueryBuilder.unescape_string(s),
        _ => panic!("backend {backend}"),
    }
}

fn handle(req: &J) -> J {
    let op = req["op"].as_str().unwrap_or("");
    match op {
        "ping" => json!({"ok": true}),
        "escape" | "unescape" => {
            let s = from_cps(&req["s"]);
            let out = escape_with(req["backend"].as_str().unwrap(), &s, op == "unescape");
            json!({"out": cps(&out)})
        }
        "escape_roundtrip" => {
            let s = from_cps(&req["s"]);
            let b = req["backend"].as_str().unwrap();
            let esc = escape_with(b, &s, false);
            let un = escape_with(b, &esc, true);
            json!({"escaped": cps(&esc), "out": cps(&un), "holds": un == s})
        }
        "tokenize" => {
            let s = from_cps(&req["s"]);
            let mut toks = Vec::new();
            for t in Tokenizer::new(&s).iter() {
                let kind = match &t {
                    Token::Quoted(_) => "Quoted",
                    Token::Unquoted(_) => "Unquoted",
                    Token::Space(_) => "Space",
                    Token::Punctuation(_) => "Punctuation",
                };
                toks.push(json!({"kind": kind, "s": cps(t.as_str()), "unquote": t.unquote().map(|u| cps(&u))}));
                if toks.len() > s.chars().count() + 2 {
                    return json!({"tokens": toks, "nonterminating": true});
                }
            }
            json!({"tokens": toks})
        }
        _ => script::handle(op, req),
    }
}

fn main() {
    // silence panic messages on stderr; they are reported in the response
    std::panic::set_hook(Box::new(|_| {}));
    let stdin = std::io::stdin();
    let stdout = std::io::stdout();
    for line in stdin.lock().lines() {
        let line = line.unwrap();
        if line.trim().is_empty() {
            continue;
        }
        let req: J = match serde_json::from_str(&line) {
            Ok(v) => v,
            Err(e) => {
                println!("{}", json!({"error": format!("bad request: {e}")}));
                continue;
            }
        };
        let res = std::panic::catch_unwind(|| handle(&req));
        let out = match res {
            Ok(v) => v,
            Err(p) => {
                let msg = if let Some(s) = p.downcast_ref::<String>() {
                    s.clone()
                } else if let Some(s) = p.downcast_ref::<&str>() {
                    s.to_string()
                } else {
                    "panic".to_string()
                };
                json!({"panic": msg})
            }
        };
        let mut o = stdout.lock();
        writeln!(o, "{}", out).unwrap();
        o.flush().unwrap();
    }
}
