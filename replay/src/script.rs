//! Script interpreter: JSON descriptions of builder-API call sequences executed against the real crate.
//! The same grammar is interpreted over the crate's MIR by /verif/props/sq.py.
#![allow(clippy::all)]
use sea_query::extension::postgres::PgBinOper;
use sea_query::extension::sqlite::SqliteBinOper;
use sea_query::*;
use serde_json::{json, Value as J};

pub fn cps(s: &str) -> J {
    J::Array(s.chars().map(|c| json!(c as u32)).collect())
}

pub fn jstring(j: &J) -> String {
    match j {
        J::String(s) => s.clone(),
        J::Object(o) => o["cps"]
            .as_array()
            .unwrap()
            .iter()
            .map(|c| char::from_u32(c.as_u64().unwrap() as u32).expect("scalar value"))
            .collect(),
        J::Array(a) => a
            .iter()
            .map(|c| char::from_u32(c.as_u64().unwrap() as u32).expect("scalar value"))
            .collect(),
        _ => panic!("not a string: {j}"),
    }
}

fn leak(s: String) -> &'static str {
    Box::leak(s.into_boxed_str())
}

pub fn iden(j: &J) -> DynIden {
    SeaRc::new(Alias::new(jstring(j)))
}

pub fn value(j: &J) -> Value {
    let t = j["t"].as_str().unwrap();
    let v = &j["v"];
    let null = v.is_null();
    macro_rules! int {
        ($variant:ident, $ty:ty) => {
            Value::$variant(if null { None } else { Some(v.as_i64().map(|x| x as $ty).unwrap_or_else(|| v.as_u64().unwrap() as $ty)) })
        };
    }
    match t {
        "Bool" => Value::Bool(if null { None } else { Some(v.as_bool().unwrap()) }),
        "TinyInt" => int!(TinyInt, i8),
        "SmallInt" => int!(SmallInt, i16),
        "Int" => int!(Int, i32),
        "BigInt" => int!(BigInt, i64),
        "TinyUnsigned" => int!(TinyUnsigned, u8),
        "SmallUnsigned" => int!(SmallUnsigned, u16),
        "Unsigned" => int!(Unsigned, u32),
        "BigUnsigned" => int!(BigUnsigned, u64),
        "Float" => Value::Float(if null { None } else { Some(f32::from_bits(v.as_u64().unwrap() as u32)) }),
        "Double" => Value::Double(if null { None } else { Some(f64::from_bits(v.as_u64().unwrap())) }),
        "String" => Value::String(if null { None } else { Some(Box::new(jstring(v))) }),
        "Char" => Value::Char(if null { None } else { Some(char::from_u32(v.as_u64().unwrap() as u32).unwrap()) }),
        "Bytes" => Value::Bytes(if null {
            None
        } else {
            Some(Box::new(v.as_array().unwrap().iter().map(|b| b.as_u64().unwrap() as u8).collect()))
        }),
        _ => panic!("value type {t}"),
    }
}

pub fn value_json(v: &Value) -> J {
    match v {
        Value::Bool(x) => json!({"t": "Bool", "v": x}),
        Value::TinyInt(x) => json!({"t": "TinyInt", "v": x}),
        Value::SmallInt(x) => json!({"t": "SmallInt", "v": x}),
        Value::Int(x) => json!({"t": "Int", "v": x}),
        Value::BigInt(x) => json!({"t": "BigInt", "v": x}),
        Value::TinyUnsigned(x) => json!({"t": "TinyUnsigned", "v": x}),
        Value::SmallUnsigned(x) => json!({"t": "SmallUnsigned", "v": x}),
        Value::Unsigned(x) => json!({"t": "Unsigned", "v": x}),
        Value::BigUnsigned(x) => json!({"t": "BigUnsigned", "v": x}),
        Value::Float(x) => json!({"t": "Float", "v": x.map(|f| f.to_bits())}),
        Value::Double(x) => json!({"t": "Double", "v": x.map(|f| f.to_bits())}),
        Value::String(x) => json!({"t": "String", "v": x.as_ref().map(|s| cps(s))}),
        Value::Char(x) => json!({"t": "Char", "v": x.map(|c| c as u32)}),
        Value::Bytes(x) => json!({"t": "Bytes", "v": x.as_ref().map(|b| b.iter().map(|y| *y as u32).collect::<Vec<_>>())}),
        #[allow(unreachable_patterns)]
        _ => json!({"t": "other"}),
    }
}

pub fn binoper(j: &J) -> BinOper {
    let n = j.as_str().unwrap();
    if let Some(p) = n.strip_prefix("pg:") {
        return BinOper::PgOperator(match p {
            "ILike" => PgBinOper::ILike,
            "NotILike" => PgBinOper::NotILike,
            "Matches" => PgBinOper::Matches,
            "Contains" => PgBinOper::Contains,
            "Contained" => PgBinOper::Contained,
            "Concatenate" => PgBinOper::Concatenate,
            "Overlap" => PgBinOper::Overlap,
            "Similarity" => PgBinOper::Similarity,
            "WordSimilarity" => PgBinOper::WordSimilarity,
            "StrictWordSimilarity" => PgBinOper::StrictWordSimilarity,
            "SimilarityDistance" => PgBinOper::SimilarityDistance,
            "WordSimilarityDistance" => PgBinOper::WordSimilarityDistance,
            "StrictWordSimilarityDistance" => PgBinOper::StrictWordSimilarityDistance,
            "GetJsonField" => PgBinOper::GetJsonField,
            "CastJsonField" => PgBinOper::CastJsonField,
            "Regex" => PgBinOper::Regex,
            "RegexCaseInsensitive" => PgBinOper::RegexCaseInsensitive,
            _ => panic!("pg oper {p}"),
        });
    }
    if let Some(p) = n.strip_prefix("sqlite:") {
        return BinOper::SqliteOperator(match p {
            "Glob" => SqliteBinOper::Glob,
            "Match" => SqliteBinOper::Match,
            "GetJsonField" => SqliteBinOper::GetJsonField,
            "CastJsonField" => SqliteBinOper::CastJsonField,
            _ => panic!("sqlite oper {p}"),
        });
    }
    if let Some(p) = n.strip_prefix("custom:") {
        return BinOper::Custom(leak(p.to_string()));
    }
    match n {
        "And" => BinOper::And,
        "Or" => BinOper::Or,
        "Like" => BinOper::Like,
        "NotLike" => BinOper::NotLike,
        "Is" => BinOper::Is,
        "IsNot" => BinOper::IsNot,
        "In" => BinOper::In,
        "NotIn" => BinOper::NotIn,
        "Between" => BinOper::Between,
        "NotBetween" => BinOper::NotBetween,
        "Equal" => BinOper::Equal,
        "NotEqual" => BinOper::NotEqual,
        "SmallerThan" => BinOper::SmallerThan,
        "GreaterThan" => BinOper::GreaterThan,
        "SmallerThanOrEqual" => BinOper::SmallerThanOrEqual,
        "GreaterThanOrEqual" => BinOper::GreaterThanOrEqual,
        "Add" => BinOper::Add,
        "Sub" => BinOper::Sub,
        "Mul" => BinOper::Mul,
        "Div" => BinOper::Div,
        "Mod" => BinOper::Mod,
        "BitAnd" => BinOper::BitAnd,
        "BitOr" => BinOper::BitOr,
        "LShift" => BinOper::LShift,
        "RShift" => BinOper::RShift,
        "As" => BinOper::As,
        "Escape" => BinOper::Escape,
        _ => panic!("binoper {n}"),
    }
}

pub fn colref(j: &J) -> ColumnRef {
    let a = j.as_array().unwrap();
    match a[0].as_str().unwrap() {
        "col" => ColumnRef::Column(iden(&a[1])),
        "tcol" => ColumnRef::TableColumn(iden(&a[1]), iden(&a[2])),
        "stcol" => ColumnRef::SchemaTableColumn(iden(&a[1]), iden(&a[2]), iden(&a[3])),
        "aster" => ColumnRef::Asterisk,
        "taster" => ColumnRef::TableAsterisk(iden(&a[1])),
        k => panic!("colref {k}"),
    }
}

pub fn exprs(j: &J) -> Vec<SimpleExpr> {
    j.as_array().unwrap().iter().map(expr).collect()
}

pub fn expr(j: &J) -> SimpleExpr {
    let a = j.as_array().unwrap();
    let k = a[0].as_str().unwrap();
    match k {
        "col" | "tcol" | "stcol" | "aster" | "taster" => SimpleExpr::Column(colref(j)),
        "val" => SimpleExpr::Value(value(&a[1])),
        "const" => SimpleExpr::Constant(value(&a[1])),
        "vals" => SimpleExpr::Values(a[1].as_array().unwrap().iter().map(value).collect()),
        "kw" => SimpleExpr::Keyword(match a[1].as_str().unwrap() {
            "Null" => Keyword::Null,
            "CurrentDate" => Keyword::CurrentDate,
            "CurrentTime" => Keyword::CurrentTime,
            "CurrentTimestamp" => Keyword::CurrentTimestamp,
            x => panic!("keyword {x}"),
        }),
        "ckw" => SimpleExpr::Keyword(Keyword::Custom(iden(&a[1]))),
        "bin" => SimpleExpr::Binary(Box::new(expr(&a[2])), binoper(&a[1]), Box::new(expr(&a[3]))),
        "un" => SimpleExpr::Unary(UnOper::Not, Box::new(expr(&a[2]))),
        "cust" => SimpleExpr::Custom(jstring(&a[1])),
        "custv" => Expr::cust_with_values(jstring(&a[1]), a[2].as_array().unwrap().iter().map(value).collect::<Vec<Value>>()),
        "custe" => Expr::cust_with_exprs(jstring(&a[1]), exprs(&a[2])),
        "tuple" => SimpleExpr::Tuple(exprs(&a[1])),
        "asenum" => SimpleExpr::AsEnum(iden(&a[1]), Box::new(expr(&a[2]))),
        "func" => SimpleExpr::FunctionCall(func(a[1].as_str().unwrap(), &a[2])),
        "case" => {
            let mut cs = CaseStatement::new();
            for p in a[1].as_array().unwrap() {
                cs = cs.case(cond(&p[0]), expr(&p[1]));
            }
            if a.len() > 2 && !a[2].is_null() {
                cs = cs.finally(expr(&a[2]));
            }
            cs.into()
        }
        "subq" => {
            let op = if a[1].is_null() {
                None
            } else {
                Some(match a[1].as_str().unwrap() {
                    "Exists" => SubQueryOper::Exists,
                    "Any" => SubQueryOper::Any,
                    "Some" => SubQueryOper::Some,
                    "All" => SubQueryOper::All,
                    x => panic!("subquery oper {x}"),
                })
            };
            SimpleExpr::SubQuery(op, Box::new(SubQueryStatement::SelectStatement(crate::stmt::select(&a[2]))))
        }
        "m" => method(a),
        _ => panic!("expr kind {k}"),
    }
}

pub fn func_call(name: &str, args: &J) -> FunctionCall {
    func(name, args)
}

fn func(name: &str, args: &J) -> FunctionCall {
    let xs = exprs(args);
    let first = || xs[0].clone();
    match name {
        "max" => Func::max(first()),
        "min" => Func::min(first()),
        "sum" => Func::sum(first()),
        "avg" => Func::avg(first()),
        "abs" => Func::abs(first()),
        "count" => Func::count(first()),
        "count_distinct" => Func::count_distinct(first()),
        "char_length" => Func::char_length(first()),
        "lower" => Func::lower(first()),
        "upper" => Func::upper(first()),
        "bit_and" => Func::bit_and(first()),
        "bit_or" => Func::bit_or(first()),
        "round" => Func::round(first()),
        "md5" => Func::md5(first()),
        "greatest" => Func::greatest(xs),
        "least" => Func::least(xs),
        "coalesce" => Func::coalesce(xs),
        "if_null" => Func::if_null(xs[0].clone(), xs[1].clone()),
        "random" => Func::random(),
        n if n.starts_with("cust:") => Func::cust(Alias::new(&n[5..])).args(xs),
        _ => panic!("func {name}"),
    }
}

fn method(a: &[J]) -> SimpleExpr {
    let meth = a[1].as_str().unwrap();
    let recv = expr(&a[2]);
    let r = &a[3..];
    match meth {
        "between" => ExprTrait::between(recv, expr(&r[0]), expr(&r[1])),
        "not_between" => ExprTrait::not_between(recv, expr(&r[0]), expr(&r[1])),
        "like" | "not_like" => {
            let mut le = LikeExpr::new(jstring(&r[0]));
            if r.len() > 1 && !r[1].is_null() {
                le = le.escape(char::from_u32(r[1].as_u64().unwrap() as u32).unwrap());
            }
            if meth == "like" {
                ExprTrait::like(recv, le)
            } else {
                ExprTrait::not_like(recv, le)
            }
        }
        "is_in" => ExprTrait::is_in(recv, exprs(&r[0])),
        "is_not_in" => ExprTrait::is_not_in(recv, exprs(&r[0])),
        "in_subquery" => ExprTrait::in_subquery(recv, crate::stmt::select(&r[0])),
        "not_in_subquery" => ExprTrait::not_in_subquery(recv, crate::stmt::select(&r[0])),
        "cast_as" => ExprTrait::cast_as(recv, Alias::new(jstring(&r[0]))),
        "as_enum" => ExprTrait::as_enum(recv, Alias::new(jstring(&r[0]))),
        "not" => ExprTrait::not(recv),
        "is_null" => ExprTrait::is_null(recv),
        "is_not_null" => ExprTrait::is_not_null(recv),
        "eq" => ExprTrait::eq(recv, expr(&r[0])),
        "ne" => ExprTrait::ne(recv, expr(&r[0])),
        "gt" => ExprTrait::gt(recv, expr(&r[0])),
        "gte" => ExprTrait::gte(recv, expr(&r[0])),
        "lt" => ExprTrait::lt(recv, expr(&r[0])),
        "lte" => ExprTrait::lte(recv, expr(&r[0])),
        "add" => ExprTrait::add(recv, expr(&r[0])),
        "sub" => ExprTrait::sub(recv, expr(&r[0])),
        "mul" => ExprTrait::mul(recv, expr(&r[0])),
        "div" => ExprTrait::div(recv, expr(&r[0])),
        "modulo" => ExprTrait::modulo(recv, expr(&r[0])),
        "left_shift" => ExprTrait::left_shift(recv, expr(&r[0])),
        "right_shift" => ExprTrait::right_shift(recv, expr(&r[0])),
        "and" => ExprTrait::and(recv, expr(&r[0])),
        "or" => ExprTrait::or(recv, expr(&r[0])),
        "is" => ExprTrait::is(recv, expr(&r[0])),
        "is_not" => ExprTrait::is_not(recv, expr(&r[0])),
        "bit_and" => ExprTrait::bit_and(recv, expr(&r[0])),
        "bit_or" => ExprTrait::bit_or(recv, expr(&r[0])),
        "binary" => ExprTrait::binary(recv, binoper(&r[0]), expr(&r[1])),
        "equals" => ExprTrait::equals(recv, colref(&r[0])),
        "not_equals" => ExprTrait::not_equals(recv, colref(&r[0])),
        _ => panic!("method {meth}"),
    }
}

pub fn cond(j: &J) -> Condition {
    let a = j.as_array().unwrap();
    let k = a[0].as_str().unwrap();
    if k == "any" || k == "all" {
        let mut c = if k == "any" { Condition::any() } else { Condition::all() };
        for m in a[2].as_array().unwrap() {
            if m.is_null() {
                c = c.add_option(None::<SimpleExpr>);
                continue;
            }
            let mk = m[0].as_str().unwrap();
            if mk == "any" || mk == "all" {
                c = c.add(cond(m));
            } else if mk == "opt" {
                c = c.add_option(Some(expr(&m[1])));
            } else if mk == "optg" {
                c = c.add_option(Some(cond(&m[1])));
            } else {
                c = c.add(expr(m));
            }
        }
        if a[1].as_bool().unwrap_or(false) {
            c = c.not();
        }
        c
    } else {
        expr(j).into_condition()
    }
}

pub fn backend_of(req: &J) -> &str {
    req["backend"].as_str().unwrap()
}

fn render_expr_with<B: QueryBuilder>(b: B, e: &SimpleExpr, params: bool, ph: (&str, bool)) -> J {
    if params {
        let mut w = SqlWriterValues::new(ph.0, ph.1);
        b.prepare_simple_expr(e, &mut w);
        let (sql, vals) = w.into_parts();
        json!({"sql": cps(&sql), "values": vals.0.iter().map(value_json).collect::<Vec<_>>()})
    } else {
        let mut s = String::new();
        b.prepare_simple_expr(e, &mut s);
        json!({"sql": cps(&s)})
    }
}

pub fn handle(op: &str, req: &J) -> J {
    match op {
        "value_to_string" => {
            let v = value(&req["value"]);
            let s = match backend_of(req) {
                "mysql" => MysqlQueryBuilder.value_to_string(&v),
                "postgres" => PostgresQueryBuilder.value_to_string(&v),
                "sqlite" => SqliteQueryBuilder.value_to_string(&v),
                b => panic!("backend {b}"),
            };
            json!({"sql": cps(&s)})
        }
        "render_expr" => {
            let e = expr(&req["expr"]);
            let params = req["mode"].as_str() == Some("params");
            match backend_of(req) {
                "mysql" => render_expr_with(MysqlQueryBuilder, &e, params, ("?", false)),
                "postgres" => render_expr_with(PostgresQueryBuilder, &e, params, ("$", true)),
                "sqlite" => render_expr_with(SqliteQueryBuilder, &e, params, ("?", false)),
                b => panic!("backend {b}"),
            }
        }
        "inject_expr" => {
            // build the expression with parameters, then inject_parameters(sql, values)
            let e = expr(&req["expr"]);
            fn go<B: QueryBuilder>(b: B, e: &SimpleExpr, ph: (&str, bool)) -> J {
                let mut w = SqlWriterValues::new(ph.0, ph.1);
                b.prepare_simple_expr(e, &mut w);
                let (sql, vals) = w.into_parts();
                let out = inject_parameters(&sql, vals.0, &b);
                json!({"sql": cps(&out), "built": cps(&sql)})
            }
            match backend_of(req) {
                "mysql" => go(MysqlQueryBuilder, &e, ("?", false)),
                "postgres" => go(PostgresQueryBuilder, &e, ("$", true)),
                "sqlite" => go(SqliteQueryBuilder, &e, ("?", false)),
                b => panic!("backend {b}"),
            }
        }
        "fmt_float" => {
            let bits = req["bits"].as_u64().unwrap();
            let s = if req["ty"].as_str() == Some("f32") { format!("{}", f32::from_bits(bits as u32)) } else { format!("{}", f64::from_bits(bits)) };
            json!({"s": s})
        }
        _ => crate::stmt::handle(op, req),
    }
}
