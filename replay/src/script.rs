//! Script interpreter: JSON descriptions of builder-API call sequences executed against the real crate.
use serde_json::{json, Value as J};

pub fn handle(op: &str, _req: &J) -> J {
    json!({"error": format!("unknown op {op}")})
}
