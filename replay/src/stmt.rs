//! Statement scripts: {"k": kind, "calls": [[method, args...], ...]}
#![allow(clippy::all)]
use crate::script::*;
use sea_query::*;
use serde_json::{json, Value as J};
use std::cell::RefCell;

thread_local! {
    /// outcomes of fallible builder calls (InsertStatement::values / select_from) in call order
    pub static LOG: RefCell<Vec<J>> = RefCell::new(Vec::new());
}

fn log(j: J) {
    LOG.with(|l| l.borrow_mut().push(j));
}

pub fn tableref(j: &J) -> TableRef {
    let a = j.as_array().unwrap();
    match a[0].as_str().unwrap() {
        "t" => TableRef::Table(iden(&a[1])),
        "st" => TableRef::SchemaTable(iden(&a[1]), iden(&a[2])),
        "dst" => TableRef::DatabaseSchemaTable(iden(&a[1]), iden(&a[2]), iden(&a[3])),
        "ta" => TableRef::TableAlias(iden(&a[1]), iden(&a[2])),
        "sta" => TableRef::SchemaTableAlias(iden(&a[1]), iden(&a[2]), iden(&a[3])),
        "subq" => TableRef::SubQuery(select(&a[1]), iden(&a[2])),
        "vals" => TableRef::ValuesList(a[1].as_array().unwrap().iter().map(value_tuple).collect(), iden(&a[2])),
        "fn" => TableRef::FunctionCall(crate::script::func_call(a[1].as_str().unwrap(), &a[2]), iden(&a[3])),
        k => panic!("tableref {k}"),
    }
}

pub fn value_tuple(j: &J) -> ValueTuple {
    let vs = values(j);
    let mut it = vs.into_iter();
    match it.len() {
        1 => ValueTuple::One(it.next().unwrap()),
        2 => ValueTuple::Two(it.next().unwrap(), it.next().unwrap()),
        3 => ValueTuple::Three(it.next().unwrap(), it.next().unwrap(), it.next().unwrap()),
        _ => ValueTuple::Many(it.collect()),
    }
}

pub fn order(j: &J) -> Order {
    match j.as_str().unwrap() {
        "Asc" => Order::Asc,
        "Desc" => Order::Desc,
        x => panic!("order {x}"),
    }
}

fn join_type(j: &J) -> JoinType {
    match j.as_str().unwrap() {
        "Join" => JoinType::Join,
        "CrossJoin" => JoinType::CrossJoin,
        "InnerJoin" => JoinType::InnerJoin,
        "LeftJoin" => JoinType::LeftJoin,
        "RightJoin" => JoinType::RightJoin,
        "FullOuterJoin" => JoinType::FullOuterJoin,
        x => panic!("join type {x}"),
    }
}

fn union_type(j: &J) -> UnionType {
    match j.as_str().unwrap() {
        "Intersect" => UnionType::Intersect,
        "Distinct" => UnionType::Distinct,
        "Except" => UnionType::Except,
        "All" => UnionType::All,
        x => panic!("union type {x}"),
    }
}

fn nulls(j: &J) -> NullOrdering {
    match j.as_str().unwrap() {
        "First" => NullOrdering::First,
        "Last" => NullOrdering::Last,
        x => panic!("nulls {x}"),
    }
}

fn lock_type(j: &J) -> LockType {
    match j.as_str().unwrap() {
        "Update" => LockType::Update,
        "NoKeyUpdate" => LockType::NoKeyUpdate,
        "Share" => LockType::Share,
        "KeyShare" => LockType::KeyShare,
        x => panic!("lock type {x}"),
    }
}

fn lock_behavior(j: &J) -> LockBehavior {
    match j.as_str().unwrap() {
        "Nowait" => LockBehavior::Nowait,
        "SkipLocked" => LockBehavior::SkipLocked,
        x => panic!("lock behavior {x}"),
    }
}

pub fn values(j: &J) -> Vec<Value> {
    j.as_array().unwrap().iter().map(value).collect()
}

fn idens(j: &J) -> Vec<DynIden> {
    j.as_array().unwrap().iter().map(iden).collect()
}

fn frame(j: &J) -> Frame {
    if let Some(s) = j.as_str() {
        return match s {
            "UnboundedPreceding" => Frame::UnboundedPreceding,
            "CurrentRow" => Frame::CurrentRow,
            "UnboundedFollowing" => Frame::UnboundedFollowing,
            x => panic!("frame {x}"),
        };
    }
    let a = j.as_array().unwrap();
    match a[0].as_str().unwrap() {
        "Preceding" => Frame::Preceding(a[1].as_u64().unwrap() as u32),
        "Following" => Frame::Following(a[1].as_u64().unwrap() as u32),
        x => panic!("frame {x}"),
    }
}

pub fn window(j: &J) -> WindowStatement {
    let mut w = WindowStatement::new();
    for c in j["calls"].as_array().unwrap() {
        let a = c.as_array().unwrap();
        match a[0].as_str().unwrap() {
            "partition_by" => { w.add_partition_by(expr(&a[1])); }
            "order_by" => { w.order_by(colref(&a[1]), order(&a[2])); }
            "frame" => {
                let ty = if a[1].as_str() == Some("Range") { FrameType::Range } else { FrameType::Rows };
                let end = if a.len() > 3 && !a[3].is_null() { Some(frame(&a[3])) } else { None };
                w.frame(ty, frame(&a[2]), end);
            }
            k => panic!("window call {k}"),
        }
    }
    w
}

pub fn select(j: &J) -> SelectStatement {
    let mut q = SelectStatement::new();
    for c in j["calls"].as_array().unwrap() {
        select_call(&mut q, c);
    }
    q
}

pub fn select_call(q: &mut SelectStatement, c: &J) {
    let a = c.as_array().unwrap();
    match a[0].as_str().unwrap() {
        "distinct" => { q.distinct(); }
        "distinct_on" => { q.distinct_on(a[1].as_array().unwrap().iter().map(colref).collect::<Vec<_>>()); }
        "column" => { q.column(colref(&a[1])); }
        "expr" => { q.expr(expr(&a[1])); }
        "expr_as" => { q.expr_as(expr(&a[1]), iden(&a[2])); }
        "expr_window" => { q.expr_window(expr(&a[1]), window(&a[2])); }
        "expr_window_as" => { q.expr_window_as(expr(&a[1]), window(&a[2]), iden(&a[3])); }
        "expr_window_name" => { q.expr_window_name(expr(&a[1]), iden(&a[2])); }
        "window" => { q.window(iden(&a[1]), window(&a[2])); }
        "from" => { q.from(tableref(&a[1])); }
        "from_subquery" => { q.from_subquery(select(&a[1]), iden(&a[2])); }
        "from_values" => { q.from_values(a[1].as_array().unwrap().iter().map(value_tuple).collect::<Vec<_>>(), iden(&a[2])); }
        "join" => { q.join(join_type(&a[1]), tableref(&a[2]), cond(&a[3])); }
        "join_subquery" => { q.join_subquery(join_type(&a[1]), select(&a[2]), iden(&a[3]), cond(&a[4])); }
        "and_where" => { q.and_where(expr(&a[1])); }
        "cond_where" => { q.cond_where(cond(&a[1])); }
        "group_by" => { q.group_by_col(colref(&a[1])); }
        "add_group_by" => { q.add_group_by([expr(&a[1])]); }
        "and_having" => { q.and_having(expr(&a[1])); }
        "cond_having" => { q.cond_having(cond(&a[1])); }
        "order_by" => { q.order_by(colref(&a[1]), order(&a[2])); }
        "order_by_expr" => { q.order_by_expr(expr(&a[1]), order(&a[2])); }
        "order_by_nulls" => { q.order_by_with_nulls(colref(&a[1]), order(&a[2]), nulls(&a[3])); }
        "order_by_expr_nulls" => { q.order_by_expr_with_nulls(expr(&a[1]), order(&a[2]), nulls(&a[3])); }
        "order_field" => { q.order_by(colref(&a[1]), Order::Field(Values(values(&a[2])))); }
        "order_field_expr" => { q.order_by_expr(expr(&a[1]), Order::Field(Values(values(&a[2])))); }
        "order_field_nulls" => { q.order_by_with_nulls(colref(&a[1]), Order::Field(Values(values(&a[2]))), nulls(&a[3])); }
        "limit" => { q.limit(a[1].as_u64().unwrap()); }
        "offset" => { q.offset(a[1].as_u64().unwrap()); }
        "union" => { q.union(union_type(&a[1]), select(&a[2])); }
        "lock" => { q.lock(lock_type(&a[1])); }
        "lock_with_behavior" => { q.lock_with_behavior(lock_type(&a[1]), lock_behavior(&a[2])); }
        "lock_with_tables" => { q.lock_with_tables(lock_type(&a[1]), a[2].as_array().unwrap().iter().map(tableref).collect::<Vec<_>>()); }
        "with_cte" => { q.with_cte(with_clause(&a[1])); }
        "table_sample" => {
            use sea_query::extension::postgres::{PostgresSelectStatementExt, SampleMethod};
            let m = if a[1].as_str() == Some("SYSTEM") { SampleMethod::SYSTEM } else { SampleMethod::BERNOULLI };
            let rep = if a.len() > 3 && !a[3].is_null() { Some(f64::from_bits(a[3].as_u64().unwrap())) } else { None };
            q.table_sample(m, f64::from_bits(a[2].as_u64().unwrap()), rep);
        }
        "index_hint" => {
            use sea_query::extension::mysql::{IndexHintScope, MySqlSelectStatementExt};
            let scope = match a[3].as_str().unwrap() {
                "Join" => IndexHintScope::Join,
                "OrderBy" => IndexHintScope::OrderBy,
                "GroupBy" => IndexHintScope::GroupBy,
                _ => IndexHintScope::All,
            };
            match a[1].as_str().unwrap() {
                "use" => { q.use_index(iden(&a[2]), scope); }
                "force" => { q.force_index(iden(&a[2]), scope); }
                _ => { q.ignore_index(iden(&a[2]), scope); }
            }
        }
        "clear_selects" => { q.clear_selects(); }
        "from_clear" => { q.from_clear(); }
        "reset_limit" => { q.reset_limit(); }
        "reset_offset" => { q.reset_offset(); }
        "clear_order_by" => { q.clear_order_by(); }
        k => panic!("select call {k}"),
    }
}

fn returning(j: &[J]) -> ReturningClause {
    match j[0].as_str().unwrap() {
        "returning_all" => Returning::new().all(),
        "returning_col" => Returning::new().column(colref(&j[1])),
        "returning_cols" => Returning::new().columns(j[1].as_array().unwrap().iter().map(colref).collect::<Vec<_>>()),
        "returning_exprs" => Returning::new().exprs(exprs(&j[1])),
        k => panic!("returning {k}"),
    }
}

pub fn on_conflict(j: &J) -> OnConflict {
    let t = &j["target"];
    let mut oc = if t.is_null() {
        OnConflict::new()
    } else {
        let a = t.as_array().unwrap();
        match a[0].as_str().unwrap() {
            "cols" => OnConflict::columns(idens(&a[1])),
            "exprs" => {
                let mut o = OnConflict::new();
                o.exprs(exprs(&a[1]));
                o
            }
            k => panic!("on conflict target {k}"),
        }
    };
    for c in j["calls"].as_array().unwrap() {
        let a = c.as_array().unwrap();
        match a[0].as_str().unwrap() {
            "do_nothing" => { oc.do_nothing(); }
            "do_nothing_on" => { oc.do_nothing_on(idens(&a[1])); }
            "update_column" => { oc.update_column(iden(&a[1])); }
            "update_columns" => { oc.update_columns(idens(&a[1])); }
            "value" => { oc.value(iden(&a[1]), expr(&a[2])); }
            "target_and_where" => { oc.target_and_where(expr(&a[1])); }
            "action_and_where" => { oc.action_and_where(expr(&a[1])); }
            "target_cond_where" => { oc.target_cond_where(cond(&a[1])); }
            "action_cond_where" => { oc.action_cond_where(cond(&a[1])); }
            k => panic!("on conflict call {k}"),
        }
    }
    oc
}

fn err_json(e: &sea_query::error::Error) -> J {
    match e {
        sea_query::error::Error::ColValNumMismatch { col_len, val_len } => json!({"err": "ColValNumMismatch", "col_len": col_len, "val_len": val_len}),
        #[allow(unreachable_patterns)]
        _ => json!({"err": "other"}),
    }
}

pub fn insert(j: &J) -> InsertStatement {
    let mut q = InsertStatement::new();
    for c in j["calls"].as_array().unwrap() {
        insert_call(&mut q, c);
    }
    q
}

pub fn insert_call(q: &mut InsertStatement, c: &J) {
    let a = c.as_array().unwrap();
    match a[0].as_str().unwrap() {
        "into_table" => { q.into_table(tableref(&a[1])); }
        "columns" => { q.columns(idens(&a[1])); }
        "values" => {
            let before = q.clone();
            match q.values(exprs(&a[1])) {
                Ok(_) => log(json!("ok")),
                Err(e) => {
                    let mut r = err_json(&e);
                    r["unchanged"] = json!(*q == before);
                    log(r)
                }
            }
        }
        "values_panic" => { q.values_panic(exprs(&a[1])); }
        "values_from_panic" => { q.values_from_panic(a[1].as_array().unwrap().iter().map(exprs).collect::<Vec<_>>()); }
        "select_from" => {
            let before = q.clone();
            match q.select_from(select(&a[1])) {
                Ok(_) => log(json!("ok")),
                Err(e) => {
                    let mut r = err_json(&e);
                    r["unchanged"] = json!(*q == before);
                    log(r)
                }
            }
        }
        "on_conflict" => { q.on_conflict(on_conflict(&a[1])); }
        "returning_all" | "returning_col" | "returning_cols" | "returning_exprs" => { q.returning(returning(a)); }
        "or_default_values" => { q.or_default_values(); }
        "or_default_values_many" => { q.or_default_values_many(a[1].as_u64().unwrap() as u32); }
        "replace" => { q.replace(); }
        "with_cte" => { q.with_cte(with_clause(&a[1])); }
        k => panic!("insert call {k}"),
    }
}

pub fn update(j: &J) -> UpdateStatement {
    let mut q = UpdateStatement::new();
    for c in j["calls"].as_array().unwrap() {
        update_call(&mut q, c);
    }
    q
}

pub fn update_call(q: &mut UpdateStatement, c: &J) {
    {
        let a = c.as_array().unwrap();
        match a[0].as_str().unwrap() {
            "table" => { q.table(tableref(&a[1])); }
            "from" => { q.from(tableref(&a[1])); }
            "value" => { q.value(iden(&a[1]), expr(&a[2])); }
            "and_where" => { q.and_where(expr(&a[1])); }
            "cond_where" => { q.cond_where(cond(&a[1])); }
            "order_by" => { q.order_by(colref(&a[1]), order(&a[2])); }
            "order_by_expr" => { q.order_by_expr(expr(&a[1]), order(&a[2])); }
            "order_by_nulls" => { q.order_by_with_nulls(colref(&a[1]), order(&a[2]), nulls(&a[3])); }
            "order_field" => { q.order_by(colref(&a[1]), Order::Field(Values(values(&a[2])))); }
            "limit" => { q.limit(a[1].as_u64().unwrap()); }
            "returning_all" | "returning_col" | "returning_cols" | "returning_exprs" => { q.returning(returning(a)); }
            "with_cte" => { q.with_cte(with_clause(&a[1])); }
            k => panic!("update call {k}"),
        }
    }
}

pub fn delete(j: &J) -> DeleteStatement {
    let mut q = DeleteStatement::new();
    for c in j["calls"].as_array().unwrap() {
        delete_call(&mut q, c);
    }
    q
}

pub fn delete_call(q: &mut DeleteStatement, c: &J) {
    {
        let a = c.as_array().unwrap();
        match a[0].as_str().unwrap() {
            "from_table" => { q.from_table(tableref(&a[1])); }
            "and_where" => { q.and_where(expr(&a[1])); }
            "cond_where" => { q.cond_where(cond(&a[1])); }
            "order_by" => { q.order_by(colref(&a[1]), order(&a[2])); }
            "order_by_expr" => { q.order_by_expr(expr(&a[1]), order(&a[2])); }
            "order_by_nulls" => { q.order_by_with_nulls(colref(&a[1]), order(&a[2]), nulls(&a[3])); }
            "order_field" => { q.order_by(colref(&a[1]), Order::Field(Values(values(&a[2])))); }
            "limit" => { q.limit(a[1].as_u64().unwrap()); }
            "returning_all" | "returning_col" | "returning_cols" | "returning_exprs" => { q.returning(returning(a)); }
            "with_cte" => { q.with_cte(with_clause(&a[1])); }
            k => panic!("delete call {k}"),
        }
    }
}

pub fn with_clause(j: &J) -> WithClause {
    let mut w = WithClause::new();
    if j["recursive"].as_bool().unwrap_or(false) {
        w.recursive(true);
    }
    for c in j["ctes"].as_array().unwrap() {
        let mut cte = CommonTableExpression::new();
        cte.table_name(iden(&c["name"]));
        if let Some(cols) = c["cols"].as_array() {
            cte.columns(cols.iter().map(iden).collect::<Vec<_>>());
        }
        if let Some(m) = c["materialized"].as_bool() {
            cte.materialized(m);
        }
        let q = &c["query"];
        match q["k"].as_str().unwrap() {
            "select" => { cte.query(select(q)); }
            "insert" => { cte.query(insert(q)); }
            "update" => { cte.query(update(q)); }
            "delete" => { cte.query(delete(q)); }
            k => panic!("cte query kind {k}"),
        }
        w.cte(cte);
    }
    if !j["search"].is_null() {
        let s = &j["search"];
        let ord = if s["order"].as_str() == Some("DEPTH") { SearchOrder::DEPTH } else { SearchOrder::BREADTH };
        w.search(Search::new_from_order_and_expr(ord, SelectExpr { expr: expr(&s["expr"]), alias: Some(iden(&s["alias"])), window: None }));
    }
    if !j["cycle"].is_null() {
        let c = &j["cycle"];
        w.cycle(Cycle::new_from_expr_set_using(expr(&c["expr"]), iden(&c["set"]), iden(&c["using"])));
    }
    w
}

pub fn with_query(j: &J) -> WithQuery {
    let w = with_clause(&j["with"]);
    let q = &j["query"];
    match q["k"].as_str().unwrap() {
        "select" => w.query(select(q)),
        "insert" => w.query(insert(q)),
        "update" => w.query(update(q)),
        "delete" => w.query(delete(q)),
        k => panic!("with query kind {k}"),
    }
}

fn render<S: QueryStatementWriter + QueryStatementBuilder>(s: &S, req: &J) -> J {
    let entry = req["entry"].as_str().unwrap_or("to_string");
    macro_rules! with_backend {
        ($b:expr, $dynb:expr, $ph:expr) => {
            match entry {
                "to_string" => json!({"sql": cps(&s.to_string($b))}),
                "build" => {
                    let (sql, vals) = s.build($b);
                    json!({"sql": cps(&sql), "values": vals.0.iter().map(value_json).collect::<Vec<_>>()})
                }
                "build_any" => {
                    let (sql, vals) = s.build_any($dynb);
                    json!({"sql": cps(&sql), "values": vals.0.iter().map(value_json).collect::<Vec<_>>()})
                }
                "build_collect" => {
                    let mut w = SqlWriterValues::new($ph.0, $ph.1);
                    let sql = s.build_collect($b, &mut w);
                    let (_, vals) = w.into_parts();
                    json!({"sql": cps(&sql), "values": vals.0.iter().map(value_json).collect::<Vec<_>>()})
                }
                "build_collect_any" => {
                    let mut w = SqlWriterValues::new($ph.0, $ph.1);
                    let sql = s.build_collect_any($dynb, &mut w);
                    let (_, vals) = w.into_parts();
                    json!({"sql": cps(&sql), "values": vals.0.iter().map(value_json).collect::<Vec<_>>()})
                }
                "build_collect_into" => {
                    let mut w = SqlWriterValues::new($ph.0, $ph.1);
                    s.build_collect_into($b, &mut w);
                    let (sql, vals) = w.into_parts();
                    json!({"sql": cps(&sql), "values": vals.0.iter().map(value_json).collect::<Vec<_>>()})
                }
                "build_collect_any_into" => {
                    let mut w = SqlWriterValues::new($ph.0, $ph.1);
                    s.build_collect_any_into($dynb, &mut w);
                    let (sql, vals) = w.into_parts();
                    json!({"sql": cps(&sql), "values": vals.0.iter().map(value_json).collect::<Vec<_>>()})
                }
                "inject" => {
                    let (sql, vals) = s.build($b);
                    json!({"sql": cps(&inject_parameters(&sql, vals.0, $dynb)), "built": cps(&sql)})
                }
                e => panic!("entry {e}"),
            }
        };
    }
    match backend_of(req) {
        "mysql" => with_backend!(MysqlQueryBuilder, &MysqlQueryBuilder, ("?", false)),
        "postgres" => with_backend!(PostgresQueryBuilder, &PostgresQueryBuilder, ("$", true)),
        "sqlite" => with_backend!(SqliteQueryBuilder, &SqliteQueryBuilder, ("?", false)),
        b => panic!("backend {b}"),
    }
}

fn sql3(q: &SelectStatement) -> Vec<String> {
    vec![q.to_string(MysqlQueryBuilder), q.to_string(PostgresQueryBuilder), q.to_string(SqliteQueryBuilder)]
}

/// C15 on SelectStatement: take / clone / clear operations checked natively against independently rebuilt statements
fn c15_select(req: &J) -> J {
    let base = &req["base"];
    let opn = req["c15"].as_str().unwrap();
    let mut q = select(base);
    let pre = select(base);
    let mut fails: Vec<String> = vec![];
    match opn {
        "take" => {
            let t = q.take();
            if t != pre { fails.push("taken != statement before take".into()); }
            if sql3(&t) != sql3(&pre) { fails.push("taken statement renders differently".into()); }
            if q != SelectStatement::new() { fails.push("left-behind statement != SelectStatement::new()".into()); }
            if sql3(&q) != sql3(&SelectStatement::new()) { fails.push("left-behind statement renders differently from a new one".into()); }
        }
        "clone_then_source" | "clone_then_copy" => {
            let mut c = q.clone();
            if c != pre { fails.push("clone != source".into()); }
            if sql3(&c) != sql3(&pre) { fails.push("clone renders differently".into()); }
            let mut with_extra = select(base);
            select_call(&mut with_extra, &req["extra"]);
            if opn == "clone_then_source" {
                select_call(&mut q, &req["extra"]);
                if c != pre || sql3(&c) != sql3(&pre) { fails.push("a later change to the source shows in the clone".into()); }
                if q != with_extra { fails.push("source after the change differs from the expected statement".into()); }
            } else {
                select_call(&mut c, &req["extra"]);
                if q != pre || sql3(&q) != sql3(&pre) { fails.push("a later change to the clone shows in the source".into()); }
                if c != with_extra { fails.push("clone after the change differs from the expected statement".into()); }
            }
        }
        clear => {
            select_call(&mut q, &json!([clear]));
            let expected = select(&req["expected"]);
            if q != expected { fails.push(format!("{clear} did not remove exactly its clause")); }
            if sql3(&q) != sql3(&expected) { fails.push(format!("{clear}: renders differently from the statement without that clause")); }
        }
    }
    json!({"holds": fails.is_empty(), "fails": fails})
}

/// C15 on INSERT / UPDATE / DELETE (Clone + PartialEq, no take()): clone equality and independence of the copies
macro_rules! c15_dml {
    ($build:ident, $call:ident, $req:expr) => {{
        let req = $req;
        let base = &req["base"];
        let mut q = $build(base);
        let pre = $build(base);
        let mut fails: Vec<String> = vec![];
        macro_rules! all { ($s:expr) => { vec![$s.to_string(MysqlQueryBuilder), $s.to_string(PostgresQueryBuilder), $s.to_string(SqliteQueryBuilder)] }; }
        let mut c = q.clone();
        if c != pre { fails.push("clone != source".into()); }
        if all!(&c) != all!(&pre) { fails.push("clone renders differently".into()); }
        let mut with_extra = $build(base);
        $call(&mut with_extra, &req["extra"]);
        if req["c15"].as_str().unwrap() == "clone_then_source" {
            $call(&mut q, &req["extra"]);
            if c != pre || all!(&c) != all!(&pre) { fails.push("a later change to the source shows in the clone".into()); }
            if q != with_extra { fails.push("source after the change differs from the expected statement".into()); }
        } else {
            $call(&mut c, &req["extra"]);
            if q != pre || all!(&q) != all!(&pre) { fails.push("a later change to the clone shows in the source".into()); }
            if c != with_extra { fails.push("clone after the change differs from the expected statement".into()); }
        }
        json!({"holds": fails.is_empty(), "fails": fails})
    }};
}

fn c15_dml(req: &J) -> J {
    match req["base"]["k"].as_str().unwrap() {
        "insert" => c15_dml!(insert, insert_call, req),
        "update" => c15_dml!(update, update_call, req),
        "delete" => c15_dml!(delete, delete_call, req),
        k => panic!("c15 dml kind {k}"),
    }
}

fn c15_window(req: &J) -> J {
    let mut w = window(&req["base"]);
    let pre = window(&req["base"]);
    let mut fails: Vec<String> = vec![];
    let t = w.take();
    if t != pre { fails.push("taken window != window before take".into()); }
    if w != WindowStatement::new() { fails.push("left-behind window != WindowStatement::new()".into()); }
    let c = pre.clone();
    if c != pre { fails.push("window clone != source".into()); }
    json!({"holds": fails.is_empty(), "fails": fails})
}

pub fn handle(op: &str, req: &J) -> J {
    match op {
        "render" => {
            LOG.with(|l| l.borrow_mut().clear());
            let s = &req["stmt"];
            let mut r = match s["k"].as_str().unwrap() {
                "select" => render(&select(s), req),
                "insert" => render(&insert(s), req),
                "update" => render(&update(s), req),
                "delete" => render(&delete(s), req),
                "with" => render(&with_query(s), req),
                k => panic!("statement kind {k}"),
            };
            r["log"] = J::Array(LOG.with(|l| l.borrow().clone()));
            r
        }
        "c15_select" => c15_select(req),
        "c15_window" => c15_window(req),
        "c15_dml" => c15_dml(req),
        "build_only" => {
            // run the builder calls without rendering (C10: outcomes of values()/select_from())
            LOG.with(|l| l.borrow_mut().clear());
            let s = &req["stmt"];
            match s["k"].as_str().unwrap() {
                "insert" => { insert(s); }
                k => panic!("statement kind {k}"),
            };
            json!({"log": J::Array(LOG.with(|l| l.borrow().clone()))})
        }
        _ => crate::ddl::handle(op, req),
    }
}
