//! Statement scripts: {"k": kind, "calls": [[method, args...], ...]}
#![allow(clippy::all)]
use crate::script::*;
use sea_query::*;
use serde_json::{json, Value as J};

pub fn tableref(j: &J) -> TableRef {
    let a = j.as_array().unwrap();
    match a[0].as_str().unwrap() {
        "t" => TableRef::Table(iden(&a[1])),
        "st" => TableRef::SchemaTable(iden(&a[1]), iden(&a[2])),
        "dst" => TableRef::DatabaseSchemaTable(iden(&a[1]), iden(&a[2]), iden(&a[3])),
        "ta" => TableRef::TableAlias(iden(&a[1]), iden(&a[2])),
        "sta" => TableRef::SchemaTableAlias(iden(&a[1]), iden(&a[2]), iden(&a[3])),
        "subq" => TableRef::SubQuery(select(&a[1]), iden(&a[2])),
        k => panic!("tableref {k}"),
    }
}

pub fn order(j: &J) -> Order {
    match j.as_str().unwrap() {
        "Asc" => Order::Asc,
        "Desc" => Order::Desc,
        x => panic!("order {x}"),
    }
}

fn join_type(j: &J) -> JoinType {
    match j.as_str().unwrap() {
        "Join" => JoinType::Join,
        "CrossJoin" => JoinType::CrossJoin,
        "InnerJoin" => JoinType::InnerJoin,
        "LeftJoin" => JoinType::LeftJoin,
        "RightJoin" => JoinType::RightJoin,
        "FullOuterJoin" => JoinType::FullOuterJoin,
        x => panic!("join type {x}"),
    }
}

fn union_type(j: &J) -> UnionType {
    match j.as_str().unwrap() {
        "Intersect" => UnionType::Intersect,
        "Distinct" => UnionType::Distinct,
        "Except" => UnionType::Except,
        "All" => UnionType::All,
        x => panic!("union type {x}"),
    }
}

fn nulls(j: &J) -> NullOrdering {
    match j.as_str().unwrap() {
        "First" => NullOrdering::First,
        "Last" => NullOrdering::Last,
        x => panic!("nulls {x}"),
    }
}

pub fn values(j: &J) -> Vec<Value> {
    j.as_array().unwrap().iter().map(value).collect()
}

pub fn select(j: &J) -> SelectStatement {
    let mut q = SelectStatement::new();
    for c in j["calls"].as_array().unwrap() {
        select_call(&mut q, c);
    }
    q
}

pub fn select_call(q: &mut SelectStatement, c: &J) {
    let a = c.as_array().unwrap();
    match a[0].as_str().unwrap() {
        "distinct" => { q.distinct(); }
        "column" => { q.column(colref(&a[1])); }
        "expr" => { q.expr(expr(&a[1])); }
        "expr_as" => { q.expr_as(expr(&a[1]), iden(&a[2])); }
        "from" => { q.from(tableref(&a[1])); }
        "from_subquery" => { q.from_subquery(select(&a[1]), iden(&a[2])); }
        "join" => { q.join(join_type(&a[1]), tableref(&a[2]), cond(&a[3])); }
        "and_where" => { q.and_where(expr(&a[1])); }
        "cond_where" => { q.cond_where(cond(&a[1])); }
        "group_by" => { q.group_by_col(colref(&a[1])); }
        "add_group_by" => { q.add_group_by([expr(&a[1])]); }
        "and_having" => { q.and_having(expr(&a[1])); }
        "cond_having" => { q.cond_having(cond(&a[1])); }
        "order_by" => { q.order_by(colref(&a[1]), order(&a[2])); }
        "order_by_expr" => { q.order_by_expr(expr(&a[1]), order(&a[2])); }
        "order_by_nulls" => { q.order_by_with_nulls(colref(&a[1]), order(&a[2]), nulls(&a[3])); }
        "order_field" => { q.order_by(colref(&a[1]), Order::Field(Values(values(&a[2])))); }
        "limit" => { q.limit(a[1].as_u64().unwrap()); }
        "offset" => { q.offset(a[1].as_u64().unwrap()); }
        "union" => { q.union(union_type(&a[1]), select(&a[2])); }
        "clear_selects" => { q.clear_selects(); }
        "from_clear" => { q.from_clear(); }
        "reset_limit" => { q.reset_limit(); }
        "reset_offset" => { q.reset_offset(); }
        "clear_order_by" => { q.clear_order_by(); }
        k => panic!("select call {k}"),
    }
}

fn render<S: QueryStatementWriter + QueryStatementBuilder>(s: &S, req: &J) -> J {
    let entry = req["entry"].as_str().unwrap_or("to_string");
    macro_rules! with_backend {
        ($b:expr, $dynb:expr) => {
            match entry {
                "to_string" => json!({"sql": cps(&s.to_string($b))}),
                "build" => {
                    let (sql, vals) = s.build($b);
                    json!({"sql": cps(&sql), "values": vals.0.iter().map(value_json).collect::<Vec<_>>()})
                }
                "build_any" => {
                    let (sql, vals) = s.build_any($dynb);
                    json!({"sql": cps(&sql), "values": vals.0.iter().map(value_json).collect::<Vec<_>>()})
                }
                e => panic!("entry {e}"),
            }
        };
    }
    match backend_of(req) {
        "mysql" => with_backend!(MysqlQueryBuilder, &MysqlQueryBuilder),
        "postgres" => with_backend!(PostgresQueryBuilder, &PostgresQueryBuilder),
        "sqlite" => with_backend!(SqliteQueryBuilder, &SqliteQueryBuilder),
        b => panic!("backend {b}"),
    }
}

pub fn handle(op: &str, req: &J) -> J {
    match op {
        "render" => {
            let s = &req["stmt"];
            match s["k"].as_str().unwrap() {
                "select" => render(&select(s), req),
                k => panic!("statement kind {k}"),
            }
        }
        _ => json!({"error": format!("unknown op {op}")}),
    }
}
