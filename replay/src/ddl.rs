//! Schema statement scripts (tables, indexes, foreign keys, Postgres types / extensions).
#![allow(clippy::all)]
use crate::script::*;
use crate::stmt::tableref;
use sea_query::extension::postgres::{Extension, Type};
use sea_query::*;
use serde_json::{json, Value as J};

fn string_len(j: &J) -> StringLen {
    if let Some(s) = j.as_str() {
        return if s == "Max" { StringLen::Max } else { StringLen::None };
    }
    StringLen::N(j[1].as_u64().unwrap() as u32)
}

fn opt_u32(j: &J) -> Option<u32> {
    j.as_u64().map(|x| x as u32)
}

fn opt_pair(j: &J) -> Option<(u32, u32)> {
    j.as_array().map(|a| (a[0].as_u64().unwrap() as u32, a[1].as_u64().unwrap() as u32))
}

pub fn column_type(j: &J) -> ColumnType {
    if let Some(s) = j.as_str() {
        return match s {
            "Text" => ColumnType::Text,
            "Blob" => ColumnType::Blob,
            "TinyInteger" => ColumnType::TinyInteger,
            "SmallInteger" => ColumnType::SmallInteger,
            "Integer" => ColumnType::Integer,
            "BigInteger" => ColumnType::BigInteger,
            "TinyUnsigned" => ColumnType::TinyUnsigned,
            "SmallUnsigned" => ColumnType::SmallUnsigned,
            "Unsigned" => ColumnType::Unsigned,
            "BigUnsigned" => ColumnType::BigUnsigned,
            "Float" => ColumnType::Float,
            "Double" => ColumnType::Double,
            "DateTime" => ColumnType::DateTime,
            "Timestamp" => ColumnType::Timestamp,
            "TimestampWithTimeZone" => ColumnType::TimestampWithTimeZone,
            "Time" => ColumnType::Time,
            "Date" => ColumnType::Date,
            "Year" => ColumnType::Year,
            "Boolean" => ColumnType::Boolean,
            "Json" => ColumnType::Json,
            "JsonBinary" => ColumnType::JsonBinary,
            "Uuid" => ColumnType::Uuid,
            "Cidr" => ColumnType::Cidr,
            "Inet" => ColumnType::Inet,
            "MacAddr" => ColumnType::MacAddr,
            "LTree" => ColumnType::LTree,
            x => panic!("column type {x}"),
        };
    }
    let a = j.as_array().unwrap();
    match a[0].as_str().unwrap() {
        "Char" => ColumnType::Char(opt_u32(&a[1])),
        "String" => ColumnType::String(string_len(&a[1])),
        "Decimal" => ColumnType::Decimal(opt_pair(&a[1])),
        "Money" => ColumnType::Money(opt_pair(&a[1])),
        "Interval" => ColumnType::Interval(None, opt_u32(&a[2])),
        "Binary" => ColumnType::Binary(a[1].as_u64().unwrap() as u32),
        "VarBinary" => ColumnType::VarBinary(string_len(&a[1])),
        "Bit" => ColumnType::Bit(opt_u32(&a[1])),
        "VarBit" => ColumnType::VarBit(a[1].as_u64().unwrap() as u32),
        "Custom" => ColumnType::Custom(iden(&a[1])),
        "Enum" => ColumnType::Enum { name: iden(&a[1]), variants: a[2].as_array().unwrap().iter().map(iden).collect() },
        "Array" => ColumnType::Array(RcOrArc::new(column_type(&a[1]))),
        x => panic!("column type {x}"),
    }
}

pub fn column_def(j: &J) -> ColumnDef {
    let mut c = if j["type"].is_null() { ColumnDef::new(iden(&j["name"])) } else { ColumnDef::new_with_type(iden(&j["name"]), column_type(&j["type"])) };
    for s in j["specs"].as_array().unwrap() {
        if let Some(n) = s.as_str() {
            match n {
                "Null" => { c.null(); }
                "NotNull" => { c.not_null(); }
                "AutoIncrement" => { c.auto_increment(); }
                "UniqueKey" => { c.unique_key(); }
                "PrimaryKey" => { c.primary_key(); }
                x => panic!("column spec {x}"),
            }
        } else {
            let a = s.as_array().unwrap();
            match a[0].as_str().unwrap() {
                "Default" => { c.default(expr(&a[1])); }
                "Check" => { c.check(expr(&a[1])); }
                "Generated" => { c.generated(expr(&a[1]), a[2].as_bool().unwrap()); }
                "Extra" => { c.extra(jstring(&a[1])); }
                "Comment" => { c.comment(jstring(&a[1])); }
                "Using" => { c.using(expr(&a[1])); }
                x => panic!("column spec {x}"),
            }
        }
    }
    c
}

fn index_order(j: &J) -> IndexOrder {
    if j.as_str() == Some("Desc") { IndexOrder::Desc } else { IndexOrder::Asc }
}

pub fn index_create(j: &J) -> IndexCreateStatement {
    let mut ix = IndexCreateStatement::new();
    index_create_apply(&mut ix, &j["calls"]);
    ix
}

pub fn index_create_apply(ix: &mut IndexCreateStatement, calls: &J) {
    for c in calls.as_array().unwrap() {
        let a = c.as_array().unwrap();
        match a[0].as_str().unwrap() {
            "name" => { ix.name(jstring(&a[1])); }
            "table" => { ix.table(tableref(&a[1])); }
            "col" => {
                let name = iden(&a[1]);
                let ord = a.get(2).filter(|x| !x.is_null());
                let pre = a.get(3).filter(|x| !x.is_null());
                match (pre, ord) {
                    (None, None) => { ix.col(name); }
                    (None, Some(o)) => { ix.col((name, index_order(o))); }
                    (Some(p), None) => { ix.col((name, p.as_u64().unwrap() as u32)); }
                    (Some(p), Some(o)) => { ix.col((name, p.as_u64().unwrap() as u32, index_order(o))); }
                }
            }
            "primary" => { ix.primary(); }
            "unique" => { ix.unique(); }
            "nulls_not_distinct" => { ix.nulls_not_distinct(); }
            "full_text" => { ix.full_text(); }
            "index_type" => {
                ix.index_type(match a[1].as_str().unwrap() {
                    "BTree" => IndexType::BTree,
                    "FullText" => IndexType::FullText,
                    "Hash" => IndexType::Hash,
                    x => IndexType::Custom(SeaRc::new(Alias::new(x))),
                });
            }
            "include" => { ix.include(iden(&a[1])); }
            "if_not_exists" => { ix.if_not_exists(); }
            "and_where" => { ix.and_where(expr(&a[1])); }
            k => panic!("index call {k}"),
        }
    }
}

fn fk_action(j: &J) -> ForeignKeyAction {
    match j.as_str().unwrap() {
        "Restrict" => ForeignKeyAction::Restrict,
        "Cascade" => ForeignKeyAction::Cascade,
        "SetNull" => ForeignKeyAction::SetNull,
        "NoAction" => ForeignKeyAction::NoAction,
        "SetDefault" => ForeignKeyAction::SetDefault,
        x => panic!("fk action {x}"),
    }
}

pub fn fk_create(j: &J) -> ForeignKeyCreateStatement {
    let mut fk = ForeignKeyCreateStatement::new();
    fk_create_apply(&mut fk, &j["calls"]);
    fk
}

pub fn fk_create_apply(fk: &mut ForeignKeyCreateStatement, calls: &J) {
    for c in calls.as_array().unwrap() {
        let a = c.as_array().unwrap();
        match a[0].as_str().unwrap() {
            "name" => { fk.name(jstring(&a[1])); }
            "from_tbl" => { fk.from_tbl(tableref(&a[1])); }
            "to_tbl" => { fk.to_tbl(tableref(&a[1])); }
            "from_col" => { fk.from_col(iden(&a[1])); }
            "to_col" => { fk.to_col(iden(&a[1])); }
            "on_delete" => { fk.on_delete(fk_action(&a[1])); }
            "on_update" => { fk.on_update(fk_action(&a[1])); }
            k => panic!("fk call {k}"),
        }
    }
}

fn table_fk(j: &J) -> TableForeignKey {
    fk_create(j).get_foreign_key().clone()
}

pub fn table_create(j: &J) -> TableCreateStatement {
    let mut t = TableCreateStatement::new();
    table_create_apply(&mut t, &j["calls"]);
    t
}

pub fn table_create_apply(t: &mut TableCreateStatement, calls: &J) {
    for c in calls.as_array().unwrap() {
        let a = c.as_array().unwrap();
        match a[0].as_str().unwrap() {
            "table" => { t.table(tableref(&a[1])); }
            "if_not_exists" => { t.if_not_exists(); }
            "temporary" => { t.temporary(); }
            "col" => { t.col(column_def(&a[1])); }
            "index" => { t.index(&mut index_create(&a[1])); }
            "primary_key" => { t.primary_key(&mut index_create(&a[1])); }
            "foreign_key" => { t.foreign_key(&mut fk_create(&a[1])); }
            "check" => { t.check(expr(&a[1])); }
            "comment" => { t.comment(jstring(&a[1])); }
            "engine" => { t.engine(jstring(&a[1])); }
            "collate" => { t.collate(jstring(&a[1])); }
            "character_set" => { t.character_set(jstring(&a[1])); }
            "extra" => { t.extra(jstring(&a[1])); }
            k => panic!("table create call {k}"),
        }
    }
}

pub fn table_alter(j: &J) -> TableAlterStatement {
    let mut t = TableAlterStatement::new();
    table_alter_apply(&mut t, &j["calls"]);
    t
}

pub fn table_alter_apply(t: &mut TableAlterStatement, calls: &J) {
    for c in calls.as_array().unwrap() {
        let a = c.as_array().unwrap();
        match a[0].as_str().unwrap() {
            "table" => { t.table(tableref(&a[1])); }
            "add_column" => { t.add_column(column_def(&a[1])); }
            "add_column_if_not_exists" => { t.add_column_if_not_exists(column_def(&a[1])); }
            "modify_column" => { t.modify_column(column_def(&a[1])); }
            "rename_column" => { t.rename_column(iden(&a[1]), iden(&a[2])); }
            "drop_column" => { t.drop_column(iden(&a[1])); }
            "add_foreign_key" => { t.add_foreign_key(&table_fk(&a[1])); }
            "drop_foreign_key" => { t.drop_foreign_key(iden(&a[1])); }
            k => panic!("table alter call {k}"),
        }
    }
}

macro_rules! schema_render {
    ($s:expr, $req:expr) => {{
        let s = $s;
        let sql = match backend_of($req) {
            "mysql" => s.to_string(MysqlQueryBuilder),
            "postgres" => s.to_string(PostgresQueryBuilder),
            "sqlite" => s.to_string(SqliteQueryBuilder),
            b => panic!("backend {b}"),
        };
        json!({"sql": cps(&sql)})
    }};
}

pub fn render_ddl(st: &J, req: &J) -> J {
    let calls = || st["calls"].as_array().unwrap().clone();
    match st["k"].as_str().unwrap() {
        "table_create" => schema_render!(table_create(st), req),
        "table_alter" => schema_render!(table_alter(st), req),
        "table_drop" => {
            let mut t = TableDropStatement::new();
            for c in calls() {
                match c[0].as_str().unwrap() {
                    "table" => { t.table(tableref(&c[1])); }
                    "if_exists" => { t.if_exists(); }
                    "restrict" => { t.restrict(); }
                    "cascade" => { t.cascade(); }
                    k => panic!("table drop call {k}"),
                }
            }
            schema_render!(t, req)
        }
        "table_rename" => {
            let mut t = TableRenameStatement::new();
            for c in calls() {
                t.table(tableref(&c[1]), tableref(&c[2]));
            }
            schema_render!(t, req)
        }
        "table_truncate" => {
            let mut t = TableTruncateStatement::new();
            for c in calls() {
                t.table(tableref(&c[1]));
            }
            schema_render!(t, req)
        }
        "index_create" => schema_render!(index_create(st), req),
        "index_drop" => {
            let mut t = IndexDropStatement::new();
            for c in calls() {
                match c[0].as_str().unwrap() {
                    "name" => { t.name(jstring(&c[1])); }
                    "table" => { t.table(tableref(&c[1])); }
                    "if_exists" => { t.if_exists(); }
                    k => panic!("index drop call {k}"),
                }
            }
            schema_render!(t, req)
        }
        "fk_create" => schema_render!(fk_create(st), req),
        "fk_drop" => {
            let mut t = ForeignKeyDropStatement::new();
            for c in calls() {
                match c[0].as_str().unwrap() {
                    "name" => { t.name(jstring(&c[1])); }
                    "table" => { t.table(tableref(&c[1])); }
                    k => panic!("fk drop call {k}"),
                }
            }
            schema_render!(t, req)
        }
        "type_create" => {
            let mut t = Type::create();
            for c in calls() {
                match c[0].as_str().unwrap() {
                    "as_enum" => { t.as_enum(iden(&c[1])); }
                    "values" => { t.values(c[1].as_array().unwrap().iter().map(iden).collect::<Vec<_>>()); }
                    k => panic!("type create call {k}"),
                }
            }
            json!({"sql": cps(&t.to_string(PostgresQueryBuilder))})
        }
        "type_alter" => {
            let mut t = Type::alter();
            for c in calls() {
                t = match c[0].as_str().unwrap() {
                    "name" => t.name(iden(&c[1])),
                    "add_value" => t.add_value(iden(&c[1])),
                    "before" => t.before(iden(&c[1])),
                    "after" => t.after(iden(&c[1])),
                    "if_not_exists" => t.if_not_exists(),
                    "rename_to" => t.rename_to(iden(&c[1])),
                    "rename_value" => t.rename_value(iden(&c[1]), iden(&c[2])),
                    k => panic!("type alter call {k}"),
                };
            }
            json!({"sql": cps(&t.to_string(PostgresQueryBuilder))})
        }
        "type_drop" => {
            let mut t = Type::drop();
            for c in calls() {
                match c[0].as_str().unwrap() {
                    "name" => { t.name(iden(&c[1])); }
                    "if_exists" => { t.if_exists(); }
                    "cascade" => { t.cascade(); }
                    "restrict" => { t.restrict(); }
                    k => panic!("type drop call {k}"),
                }
            }
            json!({"sql": cps(&t.to_string(PostgresQueryBuilder))})
        }
        "extension_create" => {
            let mut t = Extension::create();
            for c in calls() {
                match c[0].as_str().unwrap() {
                    "name" => { t.name(jstring(&c[1])); }
                    "schema" => { t.schema(jstring(&c[1])); }
                    "version" => { t.version(jstring(&c[1])); }
                    "cascade" => { t.cascade(); }
                    "if_not_exists" => { t.if_not_exists(); }
                    k => panic!("extension create call {k}"),
                }
            }
            json!({"sql": cps(&t.to_string(PostgresQueryBuilder))})
        }
        "extension_drop" => {
            let mut t = Extension::drop();
            for c in calls() {
                match c[0].as_str().unwrap() {
                    "name" => { t.name(jstring(&c[1])); }
                    "cascade" => { t.cascade(); }
                    "restrict" => { t.restrict(); }
                    "if_exists" => { t.if_exists(); }
                    k => panic!("extension drop call {k}"),
                }
            }
            json!({"sql": cps(&t.to_string(PostgresQueryBuilder))})
        }
        k => panic!("schema statement kind {k}"),
    }
}

fn table_drop(j: &J) -> TableDropStatement {
    let mut t = TableDropStatement::new();
    table_drop_apply(&mut t, &j["calls"]);
    t
}

fn table_drop_apply(t: &mut TableDropStatement, calls: &J) {
    for c in calls.as_array().unwrap() {
        match c[0].as_str().unwrap() {
            "table" => { t.table(tableref(&c[1])); }
            "if_exists" => { t.if_exists(); }
            "restrict" => { t.restrict(); }
            "cascade" => { t.cascade(); }
            k => panic!("table drop call {k}"),
        }
    }
}

fn table_rename(j: &J) -> TableRenameStatement {
    let mut t = TableRenameStatement::new();
    table_rename_apply(&mut t, &j["calls"]);
    t
}

fn table_rename_apply(t: &mut TableRenameStatement, calls: &J) {
    for c in calls.as_array().unwrap() {
        t.table(tableref(&c[1]), tableref(&c[2]));
    }
}

fn table_truncate(j: &J) -> TableTruncateStatement {
    let mut t = TableTruncateStatement::new();
    table_truncate_apply(&mut t, &j["calls"]);
    t
}

fn table_truncate_apply(t: &mut TableTruncateStatement, calls: &J) {
    for c in calls.as_array().unwrap() {
        t.table(tableref(&c[1]));
    }
}

/// rendering on the requested backends; a panic of the renderer is an outcome like any other
macro_rules! outcomes {
    ($s:expr, $req:expr) => {{
        let s = $s;
        $req["backends"]
            .as_array()
            .unwrap()
            .iter()
            .map(|b| {
                std::panic::catch_unwind(std::panic::AssertUnwindSafe(|| match b.as_str().unwrap() {
                    "mysql" => s.to_string(MysqlQueryBuilder),
                    "postgres" => s.to_string(PostgresQueryBuilder),
                    "sqlite" => s.to_string(SqliteQueryBuilder),
                    b => panic!("backend {b}"),
                }))
                .unwrap_or_else(|_| "<panic>".to_string())
            })
            .collect::<Vec<String>>()
    }};
}

/// C15 on a schema statement: take / clone checked by rendering against independently rebuilt statements
macro_rules! c15_schema {
    ($build:ident, $apply:ident, $req:expr) => {{
        let req = $req;
        let st = &req["stmt"];
        let mut q = $build(st);
        let pre = $build(st);
        let mut fails: Vec<String> = vec![];
        match req["c15"].as_str().unwrap() {
            "take" => {
                let t = q.take();
                if outcomes!(&t, req) != outcomes!(&pre, req) { fails.push("taken statement renders differently from the statement before take()".into()); }
            }
            opn => {
                let mut c = q.clone();
                if outcomes!(&c, req) != outcomes!(&pre, req) { fails.push("clone renders differently from its source".into()); }
                let extra = json!([req["extra"]]);
                let mut with_extra = $build(st);
                $apply(&mut with_extra, &extra);
                if opn == "clone_then_source" {
                    $apply(&mut q, &extra);
                    if outcomes!(&c, req) != outcomes!(&pre, req) { fails.push("a later change to the source shows in the clone".into()); }
                    if outcomes!(&q, req) != outcomes!(&with_extra, req) { fails.push("source after the change renders differently from the expected statement".into()); }
                } else {
                    $apply(&mut c, &extra);
                    if outcomes!(&q, req) != outcomes!(&pre, req) { fails.push("a later change to the clone shows in the source".into()); }
                    if outcomes!(&c, req) != outcomes!(&with_extra, req) { fails.push("clone after the change renders differently from the expected statement".into()); }
                }
            }
        }
        json!({"holds": fails.is_empty(), "fails": fails})
    }};
}

fn c15_ddl(req: &J) -> J {
    match req["stmt"]["k"].as_str().unwrap() {
        "table_create" => c15_schema!(table_create, table_create_apply, req),
        "table_alter" => c15_schema!(table_alter, table_alter_apply, req),
        "table_drop" => c15_schema!(table_drop, table_drop_apply, req),
        "table_rename" => c15_schema!(table_rename, table_rename_apply, req),
        "table_truncate" => c15_schema!(table_truncate, table_truncate_apply, req),
        "index_create" => c15_schema!(index_create, index_create_apply, req),
        "fk_create" => c15_schema!(fk_create, fk_create_apply, req),
        k => panic!("c15 schema statement kind {k}"),
    }
}

pub fn handle(op: &str, req: &J) -> J {
    match op {
        "render_ddl" => render_ddl(&req["stmt"], req),
        "c15_ddl" => c15_ddl(req),
        "column_type" => {
            // the type name a backend writes for an abstract column type
            let def = json!({"name": "c", "type": req["type"], "specs": req["specs"]});
            let st = json!({"k": "table_create", "calls": [["table", ["t", "t"]], ["col", def]]});
            render_ddl(&st, req)
        }
        _ => json!({"error": format!("unknown op {op}")}),
    }
}
