//! Schema statement scripts (tables, indexes, foreign keys, types).
#![allow(clippy::all)]
use serde_json::{json, Value as J};

pub fn handle(op: &str, _req: &J) -> J {
    json!({"error": format!("unknown op {op}")})
}
